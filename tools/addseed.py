#!/usr/bin/env python3
"""addseed.py <id> <srcdir> <property> <pkgdir> <detected_by or -> : copies a confirmed seeded change into /verif/seeded/<id>/"""
import json, os, shutil, sys
sid, src, prop, pkg, det = sys.argv[1:6]
d = os.path.join('/verif/seeded', sid)
os.makedirs(d, exist_ok=True)
shutil.copy(os.path.join(src, 'patch.diff'), d)
shutil.copy(os.path.join(src, 'demo_test.go'), os.path.join(d, 'demo_test.go.txt'))
notes = open(os.path.join(src, 'notes.md')).read() if os.path.exists(os.path.join(src, 'notes.md')) else ''
shutil.copy(os.path.join(src, 'notes.md'), d) if notes else None
summ = open(os.path.join(src, 'confirm_summary.txt')).read().strip() if os.path.exists(os.path.join(src, 'confirm_summary.txt')) else ''
meta = {"id": sid, "breaks_property": prop, "package_dir_of_demo": pkg,
        "needs_to_manifest": "see notes.md (written by the independent sub-agent that produced the change)",
        "confirmed_by_me": "tools/confirm_seed.sh in a scratch worktree: " + summ,
        "what_i_ran": "demo on clean tree (pass), git apply + go build ./..., demo with patch (fail), existing tests of the touched package(s) with patch (pass)",
        "detected_by": [] if det == '-' else det.split(',')}
json.dump(meta, open(os.path.join(d, 'meta.json'), 'w'), indent=1)
print('added', d)
