#!/bin/bash
# usage: mc.sh <cfg path> <timeout s> [workers] [extra tlc args...]   -- runs MCRaft with the cfg in a scratch dir
CFG=$1; TO=${2:-300}; W=${3:-8}; shift 3
D=/var/tmp/mc.$$; rm -rf $D; mkdir -p $D; cp /verif/spec/*.tla $D; cp $CFG $D/MCRaft.cfg; cd $D
timeout $TO java -XX:+UseParallelGC -Xss64m -Xmx12g -cp /opt/veriftools/tla/tla2tools.jar:/opt/veriftools/tla/CommunityModules-deps.jar tlc2.TLC -workers $W -metadir $D/meta -config MCRaft.cfg "$@" MCRaft.tla 2>&1 | grep -v "^Semantic\|^Linting\|^Parsing" | grep -i "error\|violated\|states generated\|depth\|Finished\|Progress" | tail -4
echo "rc=$? cfg=$CFG"; rm -rf $D
