import sys,os,time
sys.path.insert(0,'/verif/lib')
from common import *
mod,cfg=sys.argv[1],sys.argv[2]
scr=Scratch("mcrun")
t=time.time()
res=run_tlc(scr,mod,os.path.join(SPEC,cfg),workers=int(os.environ.get("W","8")),timeout=int(sys.argv[3]) if len(sys.argv)>3 else 600,tag="mc",jvm=["-Xmx8g"],deadlock=("nodeadlock" not in sys.argv))
print("error=",res.error,"violated=",res.violated,"distinct=",res.distinct,"gen=",res.generated,"depth=",res.depth,round(time.time()-t,1))
if res.error or res.violated: print(res.out[-3500:])
scr.cleanup()
