#!/bin/bash
# usage: nhrun.sh <patch|-> <module> [env...]
export GOFLAGS=-mod=mod GOPROXY=off GOSUMDB=off GOTOOLCHAIN=local
P=$1; M=$2; shift 2
if [ "$P" != "-" ]; then git -C /repo apply $P || exit 9; fi
python3 /tmp/nhprobe.py 2>&1 | tail -1
if [ "$P" != "-" ]; then git -C /repo checkout -- . ; fi
cd /var/tmp
env VERIF_OUT=/var/tmp/nh2.ndjson "$@" timeout 300 ./nhprobe.test -test.run '^TestVerifNhsim$' -test.timeout 280s 2>&1 | grep -v "background error" | grep -v "^\s*$" | tail -5
python3 /tmp/tlctrace.py $M /var/tmp/nh2.ndjson 2>&1 | head -${HEADN:-14}
