import sys,os,time
sys.path.insert(0,'/verif/lib')
from common import *
scr=Scratch("nhprobe")
b=build_test_binary(scr,["root"],".","nhprobe")
import shutil
shutil.copy(b,"/var/tmp/nhprobe.test")
print("ok")
