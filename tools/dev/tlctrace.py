import sys,os,time
sys.path.insert(0,'/verif/lib')
from common import *
mod,trace=sys.argv[1],sys.argv[2]
scr=Scratch("tlct")
cfg=scr.path("cfg","x.cfg")
extra=open("/verif/spec/"+mod+".cfg.extra").read() if os.path.exists("/verif/spec/"+mod+".cfg.extra") else ""
open(cfg,"w").write('SPECIFICATION Spec\nCONSTANTS\n  TraceFile = "%s"\n%s\nINVARIANT Report\nCHECK_DEADLOCK FALSE\n'%(os.path.basename(trace),extra))
t=time.time()
res=run_tlc(scr,mod,cfg,workers=1,timeout=600,deadlock=False,spec_files=[trace],tag="x",jvm=["-Xmx4g"])
print(res.error,res.violated,res.distinct,round(time.time()-t,1))
import re
i=res.out.find('REPORT')
print(res.out[max(0,i-20):i+3000] if i>=0 else res.out[-3000:])
scr.cleanup()
