"""development aid: size of the state space the real code reaches for an MCRaft cfg (explorer only)
usage: xsize.py <cfg> [maxstates] [KEY=VAL overrides of cfg constants...]"""
import sys, os, re, tempfile, time
sys.path.insert(0, '/verif/lib')
from common import Scratch, build_test_binary
import xraft
scr = Scratch("xsize")
try:
    b = build_test_binary(scr, ["raft"], "internal/raft", "raft")
    src = open(os.path.join('/verif/spec', sys.argv[1])).read()
    mx = int(sys.argv[2]) if len(sys.argv) > 2 else 300000
    for ov in sys.argv[3:]:
        k, v = ov.split("=", 1)
        src = re.sub(r"(\s%s\s*(?:=|<-)\s*).*" % k, lambda m: m.group(1) + v, src)
    p = scr.path("c.cfg"); open(p, "w").write(src)
    cfg = xraft.parse_cfg(p)
    t = time.time()
    r = xraft.explore(b, cfg, scr.path("t.ndjson"), workers=14, max_states=mx)
    print({k: r[k] for k in ("states", "generated", "lines", "depth", "complete")}, round(time.time() - t, 1), "s", os.path.getsize(scr.path("t.ndjson")) >> 20, "MB")
finally:
    scr.cleanup()
