#!/bin/bash
# usage: tryseed.sh <dir with patch.diff> <prop> [prop...]  -- like trymutant.sh but against a scratch worktree
# (VERIF_REPO), evidence and replays diverted (VERIF_OUTDIR): /repo and the committed evidence are not touched.
set -u
D=$1; shift
tag=$(echo $D | tr '/' '_')
wt=/var/tmp/mx/try.$tag.$$
mkdir -p /var/tmp/mx
git -C /repo worktree add --detach $wt HEAD >/dev/null 2>&1 || { echo worktree-failed; exit 3; }
git -C $wt apply $D/patch.diff || { echo patch-does-not-apply; git -C /repo worktree remove --force $wt; exit 3; }
for p in "$@"; do
  t0=$(date +%s)
  VERIF_REPO=$wt VERIF_OUTDIR=/var/tmp/mx/out.$tag.$$ VERIF_SEED=${VERIF_SEED:-1} /verif/check $p --tier ${TIER:-quick} > /var/tmp/mx/try.$tag.$p.log 2>&1; rc=$?
  echo "TRY $D $p rc=$rc viol=$(grep -c '^VIOLATION' /var/tmp/mx/try.$tag.$p.log) $(( $(date +%s) - t0 ))s $(grep -m1 -A1 '^VIOLATION' /var/tmp/mx/try.$tag.$p.log | tail -1 | cut -c1-220)"
done
git -C /repo worktree remove --force $wt; rm -rf /var/tmp/mx/out.$tag.$$
