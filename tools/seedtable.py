#!/usr/bin/env python3
"""Regenerates the seeded-change table of DESIGN.md (section 10) from seeded/*/meta.json."""
import json, os, re
V = os.path.dirname(os.path.dirname(os.path.abspath(__file__)))
rows = []
for d in sorted(os.listdir(os.path.join(V, "seeded"))):
    mp = os.path.join(V, "seeded", d, "meta.json")
    if not os.path.exists(mp):
        continue
    m = json.load(open(mp))
    pd = open(os.path.join(V, "seeded", d, "patch.diff")).read()
    files = sorted(set(re.findall(r"^diff --git a/(\S+)", pd, re.M)))
    det = ", ".join(m.get("detected_by") or []) or "**not detected**"
    rows.append("| `%s` | %s | %s | %s | %s |" % (d, m.get("breaks_property", ""), ", ".join(files), det, m.get("note", "")))
table = "| seeded change | breaks | touches | detected by (quick tier, seed 1) | note |\n|---|---|---|---|---|\n" + "\n".join(rows)
p = os.path.join(V, "DESIGN.md")
t = open(p).read()
if "SEEDTABLE" in t:
    t = t.replace("SEEDTABLE", "<!-- seedtable:begin -->\n" + table + "\n<!-- seedtable:end -->")
else:
    t = re.sub(r"<!-- seedtable:begin -->.*<!-- seedtable:end -->", "<!-- seedtable:begin -->\n" + table.replace("\\", "\\\\") + "\n<!-- seedtable:end -->", t, flags=re.S)
open(p, "w").write(t)
print(len(rows), "rows")
