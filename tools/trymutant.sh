#!/bin/bash
# usage: trymutant.sh <patch.diff> <prop> [tier]   -- applies the patch to /repo, runs the check, reverts
set -u
P=$1; PROP=$2; TIER=${3:-quick}
cd /repo && git apply "$P" || { echo "patch does not apply"; exit 3; }
cd /verif && VERIF_SEED=${VERIF_SEED:-1} ./check $PROP --tier $TIER 2>&1 | grep -v "^  what" | cut -c1-300 | sort | uniq -c | sort -rn | head -${LINES_MAX:-25}
echo "exit=${PIPESTATUS[0]}"
cd /repo && git checkout -- . && git status --short | head -3
