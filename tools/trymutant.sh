#!/bin/bash
# usage: trymutant.sh <patch.diff> <prop> [tier]   -- applies the patch to /repo, runs the check, reverts
set -u
P=$1; PROP=$2; TIER=${3:-quick}
cd /repo && git apply "$P" || { echo "patch does not apply"; exit 3; }
cd /verif && VERIF_SEED=${VERIF_SEED:-1} ./check $PROP --tier $TIER > /var/tmp/trymutant.out 2>&1; RC=$?
grep -c "^DRIFT" /var/tmp/trymutant.out | sed 's/^/drift lines: /'
grep -v "^DRIFT\|^  what" /var/tmp/trymutant.out | cut -c1-250 | head -${LINES_MAX:-14}
echo "exit=$RC"
cd /repo && git checkout -- . && git status --short | head -3
