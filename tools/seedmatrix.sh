#!/bin/bash
# usage: seedmatrix.sh <outfile> [seed-id ...]   (default: every /verif/seeded/<id>)
# For each seeded change: scratch worktree of /repo's HEAD + the patch, every check listed in
# detected_by (or the broken property if the list is empty) run against it with VERIF_REPO, evidence
# and replays diverted to a scratch directory. /repo itself is never touched. One line per pair.
set -u
OUT=$1; shift
IDS="$@"; [ -z "$IDS" ] && IDS=$(ls /verif/seeded)
mkdir -p /var/tmp/mx
for id in $IDS; do
  d=/verif/seeded/$id
  [ -f $d/patch.diff ] || continue
  wt=/var/tmp/mx/wt.$id
  git -C /repo worktree add --detach $wt HEAD >/dev/null 2>&1 || { echo "$id worktree-failed" >> $OUT; continue; }
  if ! git -C $wt apply $d/patch.diff 2>/dev/null; then echo "$id patch-does-not-apply" >> $OUT; git -C /repo worktree remove --force $wt; continue; fi
  props=$(python3 -c "import json;m=json.load(open('$d/meta.json'));print(' '.join(m.get('detected_by') or [m['breaks_property']]))")
  for p in $props; do
    t0=$(date +%s)
    VERIF_REPO=$wt VERIF_OUTDIR=/var/tmp/mx/out.$id VERIF_SEED=${VERIF_SEED:-1} /verif/check $p > /var/tmp/mx/$id.$p.log 2>&1; rc=$?
    echo "$id $p rc=$rc viol=$(grep -c '^VIOLATION' /var/tmp/mx/$id.$p.log) $(( $(date +%s) - t0 ))s" >> $OUT
  done
  git -C /repo worktree remove --force $wt; rm -rf /var/tmp/mx/out.$id
done
echo ALLDONE >> $OUT
