#!/bin/bash
# usage: seedsweep.sh <outfile> <seed> [seed...]  -- every check's quick tier on the unchanged tree with other seeds;
# evidence and replays diverted (VERIF_OUTDIR), one line per (check, seed)
OUT=$1; shift
HERE=$(cd $(dirname $0)/.. && pwd)
for sd in "$@"; do
  for p in C01 C02 C03 C04 C05 C06 C07 C08 C09 C10 C11 C12 C14 C15 C16 C17 C18 C19 C20; do
    t0=$(date +%s)
    d=/var/tmp/sweep.$sd.$p
    mkdir -p $d/evidence; cp $HERE/evidence/$p.json $d/evidence/ 2>/dev/null
    VERIF_SEED=$sd VERIF_OUTDIR=$d $HERE/check $p --tier quick > $d/log 2>&1; rc=$?
    echo "seed=$sd $p rc=$rc $(( $(date +%s) - t0 ))s viol=$(grep -c '^VIOLATION' $d/log) drift=$(grep -c '^DRIFT' $d/log) $(grep -m1 -A1 '^VIOLATION' $d/log | tail -1 | cut -c1-260)" >> $OUT
    [ $rc -eq 0 ] && rm -rf $d
  done
done
echo ALLDONE >> $OUT
