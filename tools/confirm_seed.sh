#!/bin/bash
# usage: confirm_seed.sh <seed dir with patch.diff + demo_test.go> <pkgdir> <demo run regex> [extra pkgs to test...]
# Confirms in a scratch worktree: demo passes clean, patch applies+builds, demo fails with patch,
# existing tests of the touched package (+extra) pass with the patch. Prints a summary line.
set -u
export GOFLAGS=-mod=mod GOPROXY=off GOSUMDB=off GOTOOLCHAIN=local
D=$1; PKG=$2; RX=$3; shift 3
WT=/tmp/wt/confirm.$$
git -C /repo worktree add --detach $WT HEAD >/dev/null 2>&1 || exit 9
cd $WT
cp $D/demo_test.go $PKG/zz_seed_demo_test.go
go test -vet=off -count=1 -run "$RX" ./$PKG/ > $D/confirm_clean.log 2>&1; CLEAN=$?
git apply $D/patch.diff; AP=$?
go build ./... > $D/confirm_build.log 2>&1; BUILD=$?
go test -vet=off -count=1 -run "$RX" ./$PKG/ > $D/confirm_patched.log 2>&1; PATCHED=$?
rm -f $PKG/zz_seed_demo_test.go
SUITE=0
for p in $PKG "$@"; do
  if [ "$p" = "." ]; then
    unshare -rn sh -c "ip link set lo up; go test -vet=off -count=1 -timeout 25m . " >> $D/confirm_suite.log 2>&1 || SUITE=1
  else
    go test -vet=off -count=1 -timeout 20m ./$p/... >> $D/confirm_suite.log 2>&1 || SUITE=1
  fi
done
echo "CONFIRM $D demo_clean_rc=$CLEAN apply_rc=$AP build_rc=$BUILD demo_patched_rc=$PATCHED suite_rc=$SUITE" | tee $D/confirm_summary.txt
cd /; git -C /repo worktree remove --force $WT
