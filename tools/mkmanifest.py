#!/usr/bin/env python3
"""Writes /verif/MANIFEST.json from the table below (kept here so that it stays valid and in sync)."""
import json
import os
import subprocess

VERIF = os.path.dirname(os.path.dirname(os.path.abspath(__file__)))

BASELINE_OFF = ("cd /repo && GOFLAGS=-mod=mod GOPROXY=off GOSUMDB=off go test -json -vet=off -count=1 "
                "-timeout 25m ./...")

RAFT_NOTE = ("xsim: for the constants of small MCRaft configurations (2-3 replicas) the real code is explored exhaustively "
             "(every action MCRaft enables, in every reachable state, same budgets and state constraint; states re-created by "
             "re-execution); TLC recomputes every transition with Raft.tla and evaluates the RaftSys.tla predicates on every "
             "state with the history of its path, and the number of reachable states is compared with MCRaft's. "
             "Trusted: TLC; the rsim scheduler (harness/raft) and its projection of the real raft objects; "
             "Ready is one atomic step here (C04 looks inside it); abstractions listed in the header of Raft.tla. "
             "Exhaustive results are for the small constants of the MC_*.cfg files; larger shapes are sampled.")

CHECKS = {
    "C02": dict(
        category="model_checking", design_ref="5 C02",
        technique="TLA+ spec (Raft.tla/RaftSys.tla) checked by TLC; trace validation of rsim executions of the real internal/raft (conformance + property monitor); scripted attack schedules; exhaustive exploration of the real code under MCRaft's transition system with every transition validated by TLC (xsim + RaftTree.tla; reachable state count equal to MCRaft's)",
        text="Replica agreement predicates (CommittedAgree, LogMatching, ApplyAgreement, ApplyOrder, Monotonic) are TLC-checked on the exhaustive model and evaluated by TLC on every observed state of thousands of seeded schedules of the real raft code (loss, duplication, reordering, partitions, crash/restart, membership change, snapshot, compaction, transfer); each real step is also checked to be a step of Raft.tla.",
        note=RAFT_NOTE),
    "C03": dict(
        category="model_checking", design_ref="5 C03",
        technique="TLA+ spec checked by TLC; trace validation of rsim executions (conformance + monitor); scripted attack schedules; exhaustive exploration of the real code under MCRaft's transition system with every transition validated by TLC (xsim + RaftTree.tla; reachable state count equal to MCRaft's)",
        text="ElectionSafety, LeaderCompleteness, OneVotePerTerm (across restarts, from durable votes), ElectionQuorum (from delivered vote responses) checked by TLC on the model and on observed states of the real code, with and without PreVote/CheckQuorum, sizes 1..5, witnesses/non-voting members, membership changes, transfers, crash/restart. Second engine (nhsim pipe scenarios, real NodeHosts incl. node.replayLog, engine, Pebble / Tan, power loss at seeded file-system operations, flapping hosts): TLC (NodeSafetyTrace) reads the votes off the messages that reach the transport and the leaders off the RaftEventListener and requires one vote per replica and term across restarts and one leader per term.",
        note=RAFT_NOTE),
    "C06": dict(
        category="model_checking", design_ref="5 C06",
        technique="TLA+ spec checked by TLC; trace validation of rsim executions (conformance + monitor); scripted attack schedules; exhaustive exploration of the real code under MCRaft's transition system with every transition validated by TLC (xsim + RaftTree.tla; reachable state count equal to MCRaft's)",
        text="ReadIndexSafe (released index >= global durable commit at issue time), ReadIndexMechanism (accepted only with a current-term commit; released only on a hinted heartbeat response confirmed by a quorum of voting members, counted from delivered messages) evaluated by TLC on the model and on every observed state of the real code.",
        note=RAFT_NOTE),
    "C07": dict(
        category="model_checking", design_ref="5 C07",
        technique="TLA+ spec checked by TLC; trace validation of rsim executions (conformance + monitor); exhaustive exploration of the real code under MCRaft's transition system with every transition validated by TLC (xsim + RaftTree.tla; reachable state count equal to MCRaft's); RSM.tla rule table evaluated by TLC on seeded sequences applied to the real rsm membership object and on membership requests made on real NodeHosts",
        text="One config change at a time, membership agreement at equal applied index, removed-never-readmitted, kind only by promotion, plus C02/C03 predicates across membership changes, on the model and on observed executions; the accept/reject rule table is replayed transition by transition on the real membership code. Third engine (nhsim member scenarios on real NodeHosts): seeded sequences of AddReplica / AddNonVoting / promotion / DeleteReplica and of requests that must be refused (re-admitting a removed replica, demoting a voter, address in use, stale ConfigChangeIndex under OrderedConfigChange, promotion with another address) through the public API while clients write; TLC (MemberTrace over RSM.tla CCAccept / CCDo) judges every outcome and requires every membership reported by any running host to be the rule table's.",
        note=RAFT_NOTE),
    "C18": dict(
        category="model_checking", design_ref="5 C18",
        technique="TLA+ spec checked by TLC; trace validation of rsim executions (conformance + monitor); scripted attack schedules; exhaustive exploration of the real code under MCRaft's transition system with every transition validated by TLC (xsim + RaftTree.tla; reachable state count equal to MCRaft's)",
        text="OnlyVotersLead, role stability of non-voting/witness replicas, election/commit/read quorums counted from delivered messages over voters+witnesses only, witnesses receive metadata only: TLC on the model and on observed states of the real code for all cluster shapes reachable by membership changes.",
        note=RAFT_NOTE),
}

CHECKS["C19"] = dict(
    category="model_checking", design_ref="5 C19", engine="tlc+elsim",
    technique="TLA+ spec (EntryLog.tla) model-checked by TLC; TLC trace validation of operation sequences executed on the real raft entryLog + LogReader",
    text="EntryLog.tla defines every answer of the entry log (last/first index, term at index, entries of a range, entries to save, entries to apply) as a function of the logical log; TLC checks the specification's invariants (re-appended entries are saved again, nothing applied before committed and handed out for saving) exhaustively for small bounds and recomputes every answer of the real entryLog over the real LogReader after every operation of thousands of seeded sequences (appends, conflicts at any position, commit advances, Update/Commit cycles with apply lag, restores, compactions, resizes); slices handed out earlier must never change.",
    note="Trusted: TLC; the elsim driver (harness/logdb) and a faithful in-memory ILogDB under the LogReader; overlay-added accessors in package raft (harness/raftexport).")

RSM_NOTE = ("Trusted: TLC; the smsim driver (harness/rsm) incl. its register-file user state machine and flat-directory "
            "snapshotter built from the real snapshot writer/reader; LRUMaxSessionCount lowered to 2..4 through the package variable.")
CHECKS["C05"] = dict(
    category="model_checking", design_ref="5 C05", engine="tlc+smsim",
    technique="TLA+ spec (RSM.tla) model-checked by TLC; TLC trace validation of committed-entry streams applied to the real rsm.StateMachine",
    text="RSM.tla defines what every committed entry does to sessions, user state and the reported result; TLC checks AtMostOnce / RetrySameResult / UnknownSessionRejected / AckedDuplicateIgnored exhaustively (3 clients, LRU limit 2, all duplicate placements up to length 6) and recomputes callback and full projected state (sessions in LRU order with cached results) of real rsm.StateMachine instances after every batch of thousands of seeded streams with retries, acknowledgements, evictions, unregistrations, snapshots saved and installed on fresh and on lagging instances.",
    note=RSM_NOTE)
CHECKS["C08"] = dict(
    category="model_checking", design_ref="5 C08", engine="tlc+smsim",
    technique="TLA+ spec (RSM.tla) + TLC trace validation: state recovered from a snapshot = state saved, then same suffix applied next to the uninterrupted instance; compaction part: TLC evaluation (CompactionTrace) of restart observations of real NodeHosts; snapshot job protocol (a recover job never runs while a save or a stream of the same replica runs): SnapshotJobs.tla model-checked by TLC and evaluated on executions of the real node / workerPool (spsim); on-disk state machines: the OnDiskIndex a replica records for itself vs what its state machine persisted, and restart at the persisted state (odsim on the real rsm.StateMachine, OnDiskSnapshotTrace; SsRecord / Persisted audit of the host clusters in CompactionTrace)",
    text="At random cuts of seeded entry streams a snapshot is saved by a real rsm.StateMachine (regular and concurrent, with and without compression) and recovered into a fresh or a lagging instance, which then applies the rest of the stream next to the uninterrupted instance; TLC requires the recovered projected state (user data, sessions incl. LRU order, membership, index, term) to equal the saved one and every later state/result of the twin to equal the specification's fold of the log. Compaction part (second engine, nhsim snap scenarios on real NodeHosts: slow concurrent snapshot saves under continuous writes with compaction overhead 0-2, regular / concurrent / on-disk state machines, power loss at seeded file-system operations, restart): TLC (CompactionTrace over Pipeline.tla LogContinuesSnapshot) requires that what the log store returns at every restart continues the recorded snapshot without a gap, and that the restart does not panic; exports with compaction options are part of the scenarios. Third engine (nhsim member mode, on-disk state machines): members join while nothing is written (the streamed snapshot has Index > OnDiskIndex), apply one more non-update entry, take a snapshot of their own and restart - they must come back with the membership the rule table gives.",
    note=RSM_NOTE + " Snapshot catch-up of lagging followers is also exercised at protocol level by the rsim traces of C02 (CanCompact / InstallSnapshot conformance) and end to end by the nhsim scenarios of C16.")

LS_NOTE = ("Trusted: TLC; the lssim driver (harness/logdb/lssim_test.go) and the lni/vfs strict in-memory file system "
           "(crash = unsynced data dropped at a chosen FS operation; no torn single write); Pebble's and Tan's internals are exercised, not modelled.")
CHECKS["C09"] = dict(
    category="model_checking", design_ref="5 C09", engine="tlc+lssim",
    technique="TLA+ spec (LogStore.tla) as the oracle; TLC trace validation of operation sequences executed on the real log stores (sharded Pebble plain/batched, Tan regular/multiplexed)",
    text="LogStore.tla defines ReadRaftState / IterateEntries (contiguity, logical end, size limit) / GetSnapshot as functions of the logical store state; TLC recomputes the full query panel after every operation of seeded sequences over three replicas sharing a store (two in the same partition / multiplexed db): appends, overwrites of a suffix with a newer term, hard state, restored and local snapshot records, entry removal, node data removal and re-use, close/reopen, batch size 4 and 48.",
    note=LS_NOTE + " One recorded finding (multiplexed Tan, RemoveNodeData) is matched by its structural signature and reported as KNOWN-FINDING.")
CHECKS["C10"] = dict(
    category="fault_enumeration", design_ref="5 C10", engine="tlc+lssim",
    technique="crash-point and I/O-error injection on the real log stores, recovered state judged by TLC against LogStore.tla",
    text="Saves are interrupted at a chosen file-system operation - by a power loss (everything unsynced before it is dropped) or by the death of the process (everything written before it survives, nothing after it; in half of these the machine loses power as soon as the reopen, which may have repaired a log that ends in an incomplete record, has returned) -, the store is reopened and TLC requires every replica to show either the state before or the state after the interrupted save, and every earlier acknowledged save; for the Pebble-backed store an error is injected at each KV call of a save, which must then fail or be completely readable.",
    note=LS_NOTE + " Crash points are sampled (operation 1..40 of a save), not enumerated per save; Tan I/O-error injection at FS level is not done (Tan panics in a goroutine).")

CHECKS["C12"] = dict(
    category="model_checking", design_ref="5 C12", engine="tlc+rqsim",
    technique="TLA+ protocol spec (Requests.tla) as oracle; TLC validation of seeded interleavings of the critical sections of the real pending-request tables",
    text="Requests.tla states which terminal result (and Committed notification) a client may read for an accepted request given what the workers did (applied with which value / rejected / dropped / ready-to-read + applied index / deadline passed / table closed); TLC judges every value read from the result channels of the real pendingProposal / pendingReadIndex / pendingConfigChange / pendingSnapshot / pendingRaftLogQuery objects (with the real queues and sync.Pool reuse, Release before and after reading) under thousands of seeded interleavings of client, step-worker, apply-worker and stopper steps, and requires exactly one terminal result per accepted request once the shard is stopped and the clocks have run. A racing epilogue (goroutines proposing / reading while the tables are closed) and a NodeHost-level engine (nhsim client programs under faults, RequestsHostTrace.tla: no handle of a running NodeHost stays without a result 5 s past its deadline) complete it.",
    note="Trusted: TLC; the rqsim driver (harness/root/rqsim_test.go). Interleavings are sampled, each mutex-protected method is one step; proposalShard.propose is one step.")

CHECKS["C15"] = dict(
    category="model_checking", design_ref="5 C15", engine="tlc+cksim",
    technique="TLA+ spec (Chunks.tla) of the chunk receiver as oracle; TLC validation of perturbed chunk streams fed to the real transport.Chunk (chunks produced by the real sender-side splitting of snapshot files and by the real rsm.ChunkWriter for streamed snapshots)",
    text="Chunks.tla gives, for every Add/Tick, the allowed outcomes over tracked streams, temporary/final directories and notifications; TLC judges the real receiver under seeded perturbations (drop, swap, duplicate, restart, two senders and two indexes interleaved, corrupted main-file/external-file/header bytes, foreign deployment id or binary version, replica removed, GC ticks anywhere) and requires finalized files to be byte-identical to the source and described by the one notification.",
    note="Trusted: TLC; the cksim driver (harness/transport); chunk size lowered to 1 KB through the package variable. Two recorded findings (external files and the header block are not covered by an effective checksum) are matched by signature and reported as KNOWN-FINDING.")

CHECKS["C14"] = dict(
    category="exploration", design_ref="5 C14", engine="tlc+sfsim",
    technique="TLA+ spec (SnapshotFile.tla: layout, size formula, expectation table) as oracle for cases executed on the real snapshot writer/reader/validator/shrink code",
    text="For block sizes 3..8 every payload length 0..2B+2, seeded write/read segmentations, every single-bit flip and every cut of the block stream; for the production constants payloads 0, 1, a few KB, around one and two 2 MB blocks, with and without compression, seeded segmentations and chunkings of the validator, flips at every region boundary of header block / blocks / tail plus random offsets, every bit of the tail record for files whose stored size is a power of two (plus one block), cuts, version 1 files on the read side, crafted payloads whose one-bit-flipped form has CRC32 zero (both versions), and shrink: TLC checks size = formula, read-back identical, validator accepts exactly the writer's output, a perturbation is refused or harmless, a shrunk file loads as empty.",
    note="Trusted: TLC, the sfsim driver (harness/rsm/sfsim_test.go); CRC32 strength is assumed, not modelled; the bit-level sweep is execution of the real code with the specification as the expectation table (DESIGN.md section 6). Recorded findings (header block not protected) are reported as KNOWN-FINDING.")

CHECKS["C17"] = dict(
    category="model_checking", design_ref="5 C17",
    technique="TLA+ bounded-progress predicate (RaftSys.tla ProgressPred) evaluated by TLC on real executions: seeded fault prefix + scripted attack prefixes, then a fair fault-free period on the real raft code; quiesce and the rate limiter: TLA+ specifications (Quiesce.tla, RateLimit.tla) model-checked (resume / release lemmas) and bound to the real objects by trace evaluation; the message queue of a replica (MsgQueue.tla) and the per-target send queue of the transport (SendQueue.tla: a registered queue always has a worker; lossy FIFO without duplication; bounded progress after the connection heals) and the sending side of snapshot transfers (SnapshotSend.tla: every request of raft ends in exactly one truthful status report, the producer of a stream is never left hanging) model-checked and bound to the real server.MessageQueue / transport.Transport the same way",
    text="After a seeded fault prefix (loss, duplication, partitions incl. single cut links, crashes, restarts, membership changes, transfers, snapshots/compaction) every started replica runs, no message is lost, replicas get pairwise distinct election timeouts and a fair scheduler runs 2x40 (thorough 2x60) rounds with a probe proposal and a probe linearizable read at every replica; TLC then requires: a leader exists, every running member is in its term and caught up to its commit index (by log or snapshot), every probe completed. All PreVote/CheckQuorum settings; every step is also checked against Raft.tla. Supporting mechanisms as sequential objects: the real quiesceState (quiesce.go) and the real InMemRateLimiter (internal/server/rate.go) are driven by seeded sequences (ticks, recorded messages, Quiesce messages; sizes around the 70% / 100% thresholds, follower reports, resets); TLC recomputes every step with Quiesce.tla / RateLimit.tla and evaluates the lemmas that MCQuiesce / MCRateLimit establish exhaustively: activity always ends quiesce, a heartbeat wakes a shard that has been quiescent for an election time-out, an idle shard goes quiescent and announces it; rate limiting starts only with cause and is released once sizes are below 70% and the hysteresis window has passed. Real NodeHosts with Config.Quiesce (nhsim mode quiesce, QuiesceHostTrace.tla): after every replica went quiescent, proposals / ReadIndex / membership queries on a connected shard are served (paced attempts, 20 s) and never time out before half of the requested deadline; on a replica whose peers crashed or were partitioned away while the shard slept they end within deadline + 3 s and never complete; after the heal they are served again.",
    note=RAFT_NOTE + " Progress within the stated bound, not unbounded liveness; quiesce and the rate limiter are decided as sequential objects, not inside rsim; replicas whose removal was applied are stopped before the fair period (a removed replica that keeps running disrupts elections without PreVote/CheckQuorum: known Raft behaviour).")

NH_NOTE = ("Trusted: TLC, the Go toolchain, the nhsim harness (in-process NodeHosts over lni/vfs strict MemFS, a recording ITransport and "
           "ILogDB wrapper, instrumented state machines; /verif/harness/root/nhsim_*_test.go). Real goroutine schedules and wall-clock "
           "ticks: schedules are sampled, each recorded execution is decided completely by TLC. A crash is simulated in-process "
           "(durability and network cut at one instant, optionally at the N-th file-system operation); torn writes inside one Write call are not modelled.")

CHECKS["C01"] = dict(
    engine="tlc+nhsim", category="model_checking", design_ref="5 C01",
    technique="TLA+ linearizability checker (ClientHistory.tla, powerset construction over the atomic register file) run by TLC on client histories recorded from clusters of real NodeHosts; the checker's reductions are validated exhaustively against the textbook definition by TLC (MCClientHistory)",
    text="Seeded client programs (4 clients; NoOP-session writes, registered-session writes with retries through other hosts, SyncRead, ReadIndex+ReadLocalNode, on every replica incl. followers and non-voting replicas) run against 3-, 4- (3 voters + 1 non-voting) and 5-host clusters of real NodeHosts under seeded faults: loss, delay/reordering, symmetric and asymmetric partitions, leader+companion minority partitions, leader transfers, power loss of hosts (also at the N-th file-system operation) and restarts, snapshots with compaction; regular, concurrent and on-disk state machines; Pebble and Tan; all PreVote/CheckQuorum settings. TLC decides every recorded history: linearizable w.r.t. the sequential register file with Timeout/Dropped/Terminated/lost operations taking effect once or never, refused/rejected ones never. MCClientHistory: for every history of 2-3 clients and 3-4 operations (millions) the checker agrees with the unreduced definition; a vacuity run shows it rejects histories.",
    note=NH_NOTE + " The network wrapper never duplicates or fabricates a message (premise of the property).")
CHECKS["C04"] = dict(
    engine="tlc+nhsim", category="model_checking", design_ref="5 C04",
    technique="TLA+ pipeline specification (Pipeline.tla) model-checked exhaustively with a crash at every step (MCPipeline) and evaluated by TLC on Save/Send/Crash/Boot event streams of real NodeHosts (PipelineTrace)",
    text="MCPipeline: every interleaving of step / send-free-order / save / send / commit with an adversarial environment and power loss at any pc, PersistBeforeSend, RestartMonotone and ApplyNotAheadOfSave hold (684k states); the mutated orders (send before save, apply before save) are refuted (vacuity checks); with a single voting member (MC_Pipeline_solo) a commit index told to a non-voting member is covered by the sender's durable log (CommitToldIsDurable; the early-send order is refuted), and the same predicate (CommitCovered) is evaluated on every Replicate that leaves the only voting member of a shard on real NodeHosts. PipelineTrace on real executions: a recording ILogDB (stamped after SaveRaftState returned) and a recording ITransport (stamped at egress) share one sequence; for every message that implies durable state (votes, vote requests, replication acks, heartbeat responses, ...) TLC requires the term/vote/entries it implies in the durable image built from the completed saves; an entry reaches the user state machine only after the replica made it durable itself (ApplyCovered); after every power loss (also at the N-th file-system operation, repeated on a partitioned host, clean restarts in between) the image the log store returns must cover everything the replica told the world; finally all hosts lose power at once and every proposal that was reported Completed must be visible to a linearizable read. Pebble and Tan.",
    note=NH_NOTE + " Observation skew (save stamped late, egress stamped early) can only hide an ordering, never invent one.")
CHECKS["C11"] = dict(
    engine="tlc+nhsim", category="exploration", design_ref="5 C11",
    technique="TLA+ contract monitor (SMContract.tla) evaluated by TLC on Enter/Exit event streams of instrumented IStateMachine / IConcurrentStateMachine / IOnDiskStateMachine objects inside real NodeHosts; TLA+ life-cycle specification (Lifecycle.tla) model-checked exhaustively and every complete schedule TLC enumerates (sampled) replayed on the real exec engine through a gated nodeLoader (LifecycleTrace); TLA+ specification of the snapshot job protocol (SnapshotJobs.tla) model-checked exhaustively (MCSnapshotJobs, three ablations refuted) and evaluated by TLC on executions of the real node / snapshotState / workerPool (spsim, SnapshotJobsTrace)",
    text="Every user state machine method emits Enter/Exit events (sequence number under one mutex as first/last statement: an overlap in the trace is a real overlap). Scenarios: the nhsim fault mix, plus contract scenarios with two shards sharing one snapshot worker, slow SaveSnapshot/Sync/PrepareSnapshot, continuous local and exported snapshot requests, shard stop/restart while snapshot jobs are pending, power loss + restart so that lagging replicas are streamed snapshots, periodic Sync every 15 ticks, and NodeHost.Close while requests are in flight. TLC checks per object: exclusive group never overlaps and is never called after Close; plain SM readers never overlap writers; Update indexes strictly increasing, above the recovered snapshot / Open index; every entry that reached Update anywhere reaches every object whose life covers its index exactly once; same entry at the same index everywhere. Life cycle: Lifecycle.tla has one action per critical section of startShard / stopNode / loadBucketNodes / workerPool.loadNodes / node.offloaded / closeWorker.handle; MCLifecycle proves (828 states) that the user state machine is closed at most once and nothing leaks, refutes the model without the destroyed() guard, and enumerates all 250 284 complete schedules of Start / Collect(w) / Proceed(w) / Stop / CloseHandle for the step, apply and snapshot-pool workers; a seeded sample (240 quick, 6 000 thorough) is replayed on the real engine (real workers, close pool, rsm.StateMachine + NativeSM, instrumented user state machine) with the nodeLoader as scheduler gate; closed twice / called after Close / panic is the verdict.",
    note=NH_NOTE + " Exploration level for the NodeHost scenarios: schedules are perturbed by seeded sleeps inside the callbacks, not enumerated. The life-cycle replay uses a skeleton node (no raft peer) and one replica object per schedule.")

CHECKS["C16"] = dict(
    engine="tlc+nhsim", category="fault_enumeration", design_ref="5 C16",
    technique="TLA+ specification of the snapshot directory (SnapshotDir.tla: volatile vs durable layout, save / receive / compact step sequences, processOrphans) model-checked with a power loss between any two file-system steps (MCSnapshotDir); its layout predicates evaluated by TLC on directory listings of real hosts after real power losses at seeded file-system operations (SnapshotDirTrace), and on listings of the real snapshotter (component level, sdsim) after a power loss at every file-system operation of save / commit / shrink / compact / receive for replica ids of one, two and three digits",
    text="MCSnapshotDir: all interleavings of a local save, a received snapshot and compaction, each as its file-system steps, with power loss anywhere and the start-up cleanup itself interruptible: the recorded snapshot is always on disk and complete, and after the cleanup exactly the recorded snapshot remains; dropping the file sync or the directory sync is refuted (vacuity checks). Real code: hosts of a 3-host cluster (regular, concurrent, on-disk state machines; Pebble and Tan) lose power at a seeded file-system operation while saving (also two saves back to back), exporting, receiving a streamed snapshot (after being left behind a compacted log), shrinking and compacting; after NewNodeHost the directory and the log store record are listed (pre-cleanup predicate CrashLayout), after StartReplica again (CleanLayout: only the recorded snapshot remains, valid per the real validator, no flag, no temporary or orphaned directory), then the replica must reach the recorded snapshot index; panics during recovery are violations. Second engine (receiving side with external files, real chunk receiver of internal/transport on a strict in-memory file system): power loss at the end of every cksim trace, every directory that already carried its final name is compared file by file (snapshot file, flag file, external files) before / after (ChunksDurableTrace).",
    note=NH_NOTE + " Snapshots with external files cannot be produced through NodeHosts on the in-memory file system (rsm.Files.PrepareFiles uses os.Link); they are covered on the receiving side by the second engine; import is covered by C20 without crash injection: the crash windows inside tools.ImportSnapshot (the snapshot directories are removed before the export is copied and recorded) are not explored by this check (DESIGN.md section 7, round 8).")

CHECKS["C20"] = dict(
    engine="tlc+nhsim", category="exploration", design_ref="5 C20",
    technique="TLA+ rule table (Import.tla: acceptance conditions and post-state) enumerated exhaustively by TLC (MCImport) and evaluated by TLC on observations of real tools.ImportSnapshot runs followed by real NodeHost restarts (ImportTrace)",
    text="Seeded histories on a shard (plain, with a removed replica, with a non-voting replica, both), a snapshot exported at a quiet point, more history afterwards, all hosts closed; then tools.ImportSnapshot on every listed host with a list from the case table: subset of old members, single member, all, old+new machines, entirely new machines (valid), importer not listed, importer listed at another address, removed replica re-admitted, address changed, non-voting listed as regular, snapshot file missing / truncated / one data byte flipped, metadata missing (must be refused, target host's file tree hashed before and after). After valid imports the listed hosts are restarted: membership must be exactly the list, previous members recorded as removed, state equal to the state at the export, a leader elected, a new proposal accepted and visible. Regular / concurrent / on-disk state machines, Pebble and Tan. MCImport: 1.5M (old membership, list, importer, address) combinations, accepted imports are well-formed.",
    note=NH_NOTE + " Corruptions of the 1 KB header block are outside (known finding under C14); no external snapshot files on the in-memory file system.")

NOT_APPLICABLE = {
    "C13": "encode/decode fidelity and size arithmetic of hand-written codecs over the numeric input space: no state/transition structure for a TLA+ specification to describe (DESIGN.md section 6)",
}

# properties not yet claimed (work in progress): listed as not_applicable with the reason "not built yet"
PENDING = {
}


def main():
    props = [json.loads(l)["id"] for l in open(os.path.join(VERIF, "properties.jsonl"))]
    try:
        hooks = subprocess.run(["git", "-C", "/repo", "log", "--format=%H %s", "5b9ce40..HEAD"],
                               stdout=subprocess.PIPE, text=True).stdout.strip().splitlines()
    except Exception:
        hooks = []
    hook_commits = [l.split()[0] for l in hooks if "verif" in l.lower() and not l.split(" ", 1)[1].startswith("fix:")]
    checks = []
    for pid in props:
        c = CHECKS.get(pid)
        if not c:
            continue
        checks.append({
            "property_id": pid,
            "quick_cmd": "./check %s --tier quick" % pid,
            "thorough_cmd": "./check %s --tier thorough" % pid,
            "evidence_file": "/verif/evidence/%s.json" % pid,
            "replay_cmd_template": "./check %s --replay {path}" % pid,
            "engine": c.get("engine", "tlc+rsim"),
            "level_claimed": {"category": c["category"], "text": c["text"], "design_ref": c["design_ref"]},
            "level_note": c["note"],
            "technique": c["technique"],
        })
    na = []
    for pid in props:
        if pid in CHECKS:
            continue
        reason = NOT_APPLICABLE.get(pid) or PENDING.get(pid) or "check not built yet in this round (see DESIGN.md section 10); not claimed"
        na.append({"property_id": pid, "reason": reason})
    man = {
        "version": 1,
        "setup_cmd": "python3 -m py_compile lib/*.py check && (cd /repo && GOFLAGS=-mod=mod GOPROXY=off GOSUMDB=off go build ./... )",
        "hooks": {
            "guard": "verif",
            "enable": "go test -tags verif -vet=off -overlay <json>: harness files under /verif/harness are injected into /repo packages at build time; /repo itself carries no hook unless listed in source_commits",
            "baseline_off_cmd": BASELINE_OFF,
            "source_commits": hook_commits,
            "add_only": True,
        },
        "engines": [
            {"name": "tlc+rsim", "path": "/verif/lib/raftfamily.py",
             "serves_properties": ["C02", "C03", "C06", "C07", "C17", "C18"],
             "kind_free_text": "TLC exhaustive model checking of MCRaft + TLC trace validation (RaftTrace) of executions of the real internal/raft recorded by the rsim harness"},
            {"name": "tlc+nhsim", "path": "/verif/lib/nhfamily.py", "serves_properties": ["C01", "C03", "C04", "C07", "C08", "C11", "C12", "C16", "C17", "C20"],
             "kind_free_text": "TLC model checking (MCPipeline, MCClientHistory) + TLC evaluation (ClientHistoryTrace, PipelineTrace, SMContractTrace, SnapshotDirTrace, ImportTrace, NodeSafetyTrace, MemberTrace, CompactionTrace, QuiesceHostTrace, RequestsHostTrace) of event streams recorded from in-process clusters of real NodeHosts (harness/root/nhsim_*_test.go)"},
            {"name": "tlc+qssim/rlsim/mqsim/tqsim/tssim", "path": "/verif/lib/c17b.py", "serves_properties": ["C17"],
             "kind_free_text": "TLC model checking of MCQuiesce / MCRateLimit / MCMsgQueue / MCSendQueue / MCSnapshotSend + TLC trace evaluation of the real quiesceState, InMemRateLimiter, server.MessageQueue and the sending side of transport.Transport (harness/root/qssim_test.go, harness/server, harness/transport/tqsim_test.go, tssim_test.go)"},
            {"name": "tlc+lcsim", "path": "/verif/lib/c11b.py", "serves_properties": ["C11"],
             "kind_free_text": "TLC model checking of MCLifecycle, enumeration of its complete schedules, replay of a seeded sample on the real exec engine (harness/root/lcsim_test.go) judged by LifecycleTrace"},
            {"name": "tlc+spsim", "path": "/verif/lib/c11b.py", "serves_properties": ["C11", "C08"],
             "kind_free_text": "TLC model checking of MCSnapshotJobs (snapshot job protocol between apply worker, snapshot worker pool and snapshot workers; ablations refuted) + TLC trace evaluation (SnapshotJobsTrace) of the real node / snapshotState / workerPool driven by harness/root/spsim_test.go with the pool's main loop gated at its nodeLoader"},
            {"name": "tlc+smsim", "path": "/verif/lib/rsmchecks.py", "serves_properties": ["C05", "C08", "C07"],
             "kind_free_text": "TLC model checking of MCRSM + TLC trace validation (RSMTrace) of real rsm.StateMachine instances driven by harness/rsm/smsim_test.go"},
            {"name": "tlc+lssim", "path": "/verif/lib/logstore.py", "serves_properties": ["C09", "C10"],
             "kind_free_text": "TLC trace validation (LogStoreTrace) of the real log stores driven by harness/logdb/lssim_test.go incl. crash and I/O-error injection"},
            {"name": "tlc+rqsim", "path": "/verif/lib/c12.py", "serves_properties": ["C12"],
             "kind_free_text": "TLC trace validation (RequestsTrace) of the real request tables driven by harness/root/rqsim_test.go"},
            {"name": "tlc+cksim", "path": "/verif/lib/c15.py", "serves_properties": ["C15"],
             "kind_free_text": "TLC trace validation (ChunksTrace) of the real chunk receiver driven by harness/transport/cksim_test.go"},
            {"name": "tlc+sfsim", "path": "/verif/lib/c14.py", "serves_properties": ["C14"],
             "kind_free_text": "TLC judging (SnapshotFileTrace) cases executed on the real snapshot file code by harness/rsm/sfsim_test.go"},
            {"name": "tlc+elsim", "path": "/verif/lib/c19.py", "serves_properties": ["C19"],
             "kind_free_text": "TLC model checking of MCEntryLog + TLC trace validation (EntryLogTrace) of the real entryLog/LogReader driven by harness/logdb/elsim_test.go"},
        ],
        "checks": checks,
        "not_applicable": na,
        "notes": "All checks are `./check <id> --tier quick|thorough`; specifications in /verif/spec, harnesses in /verif/harness (overlaid into /repo at build time), known findings in /verif/known_findings.json.",
    }
    with open(os.path.join(VERIF, "MANIFEST.json"), "w") as fh:
        json.dump(man, fh, indent=1)
    print("MANIFEST.json: %d checks, %d not_applicable" % (len(checks), len(na)))


if __name__ == "__main__":
    main()
