//go:build verif

// elsim: drives a real raft entry log (internal/raft logentry.go + inmemory.go) over the
// real LogReader (this package) on a small in-memory store, the way node.go does it:
// appends / conflict truncations / commit advances / Update+Commit cycles with arbitrary
// apply lag / snapshot restores / compactions / in-memory resizes. After every operation
// every answer of the entry log is recorded; spec/EntryLogTrace.tla compares them with the
// answers EntryLog.tla defines for the logical log.
package logdb

import (
	"bufio"
	"encoding/binary"
	"encoding/json"
	"errors"
	"fmt"
	"math/rand"
	"os"
	"strconv"
	"testing"

	"github.com/lni/dragonboat/v4/internal/raft"
	"github.com/lni/dragonboat/v4/raftio"
	pb "github.com/lni/dragonboat/v4/raftpb"
)

// vStore is the part of raftio.ILogDB the LogReader uses.
type vStore struct {
	raftio.ILogDB
	ents map[uint64]pb.Entry
	max  uint64
}

func (s *vStore) save(es []pb.Entry) {
	if len(es) == 0 {
		return
	}
	for _, e := range es {
		c := e
		c.Cmd = append([]byte{}, e.Cmd...)
		s.ents[e.Index] = c
	}
	last := es[len(es)-1].Index
	for i := last + 1; i <= s.max; i++ {
		delete(s.ents, i)
	}
	s.max = last
}

func (s *vStore) removeTo(i uint64) {
	for k := range s.ents {
		if k <= i {
			delete(s.ents, k)
		}
	}
}

func (s *vStore) IterateEntries(ents []pb.Entry, size uint64, shardID uint64, replicaID uint64,
	low uint64, high uint64, maxSize uint64) ([]pb.Entry, uint64, error) {
	for i := low; i < high && i <= s.max; i++ {
		e, ok := s.ents[i]
		if !ok {
			break
		}
		size += uint64(e.SizeUpperLimit())
		ents = append(ents, e)
		if size > maxSize {
			break
		}
	}
	return ents, size, nil
}

type vCompactor struct{}

func (vCompactor) Compact(uint64) error { return nil }

type jE struct {
	Term uint64 `json:"term"`
	Val  uint64 `json:"val"`
}

type jRange struct {
	Lo   uint64 `json:"lo"`
	Hi   uint64 `json:"hi"`
	Err  string `json:"err"`
	Ents []jE   `json:"ents"`
}

type jPanel struct {
	Last     uint64      `json:"last"`
	First    uint64      `json:"first"`
	Com      uint64      `json:"com"`
	Proc     uint64      `json:"proc"`
	Terms    [][2]uint64 `json:"terms"`
	Ranges   []jRange    `json:"ranges"`
	ToSave   []jE        `json:"tosave"`
	HasApply bool        `json:"hasapply"`
	ToApply  []jE        `json:"toapply"`
	Frozen   bool        `json:"frozen"`
}

type jElEv struct {
	T       int     `json:"t"`
	I0      int     `json:"i0"`
	Op      string  `json:"op"`
	First   uint64  `json:"first"`
	Prev    uint64  `json:"prev"`
	Pterm   uint64  `json:"pterm"`
	Lcommit uint64  `json:"lcommit"`
	I       uint64  `json:"i"`
	Term    uint64  `json:"term"`
	Ents    []jE    `json:"ents"`
	Panel   *jPanel `json:"panel,omitempty"`
}

func pe(es []pb.Entry) []jE {
	r := make([]jE, 0, len(es))
	for _, e := range es {
		var v uint64
		if len(e.Cmd) >= 8 {
			v = binary.LittleEndian.Uint64(e.Cmd)
		}
		r = append(r, jE{Term: e.Term, Val: v})
	}
	return r
}

type held struct {
	ents []pb.Entry
	copy []jE
	idx  []uint64
}

type elSim struct {
	rng     *rand.Rand
	store   *vStore
	reader  *LogReader
	el      *raft.LogTestHelper
	out     *bufio.Writer
	tid     int
	step    int
	nextVal uint64
	term    uint64 // highest term used so far
	applied uint64 // applied index of the (simulated) state machine
	handed  uint64 // highest index handed out for apply
	held    []held // slices handed out earlier: must never change afterwards
	ssIndex uint64 // newest snapshot recorded in the reader
	counts  map[string]int
}

func newElSim(seed int64, out *bufio.Writer, tid int) *elSim {
	st := &vStore{ents: map[uint64]pb.Entry{}}
	rd := NewLogReader(1, 1, st)
	rd.SetCompactor(vCompactor{})
	s := &elSim{rng: rand.New(rand.NewSource(seed)), store: st, reader: rd, out: out, tid: tid,
		term: 1, counts: map[string]int{}}
	s.el = raft.NewLog(rd)
	return s
}

func (s *elSim) hold(es []pb.Entry) {
	if len(es) == 0 || len(s.held) > 40 {
		return
	}
	idx := make([]uint64, len(es))
	for i, e := range es {
		idx[i] = e.Index
	}
	s.held = append(s.held, held{ents: es, copy: pe(es), idx: idx})
}

func (s *elSim) frozen() bool {
	for _, h := range s.held {
		now := pe(h.ents)
		for i := range now {
			if now[i] != h.copy[i] || h.ents[i].Index != h.idx[i] {
				return false
			}
		}
	}
	return true
}

func (s *elSim) panel() *jPanel {
	el := s.el
	p := &jPanel{Last: el.LastIndex(), First: el.FirstIndex(), Com: el.GetCommitted(), Proc: el.VProcessed(),
		Terms: [][2]uint64{}, Ranges: []jRange{}}
	lo := uint64(0)
	if p.First > 3 {
		lo = p.First - 3
	}
	for i := lo; i <= p.Last+2; i++ {
		t, err := el.Term(i)
		if err != nil {
			panic(fmt.Sprintf("term(%d): %v", i, err))
		}
		p.Terms = append(p.Terms, [2]uint64{i, t})
	}
	// ranges [a, b) with b <= last+1, including a few below the first index
	for k := 0; k < 8; k++ {
		a := lo + uint64(s.rng.Intn(int(p.Last+2-lo)))
		if a == 0 {
			a = 1
		}
		if a > p.Last+1 {
			a = p.Last + 1
		}
		b := a + uint64(s.rng.Intn(int(p.Last+2-a)))
		ents, err := el.GetEntries(a, b, ^uint64(0))
		r := jRange{Lo: a, Hi: b, Ents: []jE{}}
		if err != nil {
			if errors.Is(err, raft.ErrCompacted) {
				r.Err = "compacted"
			} else {
				r.Err = err.Error()
			}
		} else {
			r.Ents = pe(ents)
			for j, e := range ents {
				if e.Index != a+uint64(j) {
					r.Err = fmt.Sprintf("index %d at position %d of [%d,%d)", e.Index, j, a, b)
				}
			}
			s.hold(ents)
		}
		p.Ranges = append(p.Ranges, r)
	}
	ts := el.EntriesToSave()
	p.ToSave = pe(ts)
	p.HasApply = el.HasEntriesToApply()
	ta, err := el.EntriesToApply()
	if err != nil {
		panic(err)
	}
	p.ToApply = pe(ta)
	p.Frozen = s.frozen()
	return p
}

func (s *elSim) emit(ev jElEv) {
	ev.T, ev.I0 = s.tid, s.step
	s.step++
	if ev.Ents == nil {
		ev.Ents = []jE{}
	}
	if ev.Op != "Init" {
		ev.Panel = s.panel()
	}
	b, err := json.Marshal(ev)
	if err != nil {
		panic(err)
	}
	s.out.Write(b)
	s.out.WriteByte('\n')
	s.counts[ev.Op]++
}

func (s *elSim) mk(first uint64, n int, term uint64) []pb.Entry {
	es := make([]pb.Entry, n)
	for i := range es {
		s.nextVal++
		b := make([]byte, 8)
		binary.LittleEndian.PutUint64(b, s.nextVal)
		es[i] = pb.Entry{Index: first + uint64(i), Term: term, Cmd: b}
	}
	return es
}

// leader style append at the end
func (s *elSim) appendEnd() {
	last := s.el.LastIndex()
	lt, _ := s.el.VLastTerm()
	if lt > s.term {
		s.term = lt
	}
	if s.rng.Intn(4) == 0 {
		s.term++
	}
	es := s.mk(last+1, 1+s.rng.Intn(3), s.term)
	s.hold(es)
	must(s.el.Append(es))
	s.emit(jElEv{Op: "Append", First: last + 1, Ents: pe(es)})
}

// follower style: entries after prev, with a conflict at a random position (or none),
// sometimes with a stale / mismatching prev
func (s *elSim) tryAppend() {
	last, com := s.el.LastIndex(), s.el.GetCommitted()
	first := s.el.FirstIndex()
	lo := com
	if first-1 > lo {
		lo = first - 1
	}
	prev := lo + uint64(s.rng.Intn(int(last-lo+1)))
	pterm, _ := s.el.Term(prev)
	if s.rng.Intn(8) == 0 {
		pterm += 1 // mismatch: rejected
	}
	n := s.rng.Intn(4)
	// build the run: copy existing terms (a match) up to a random point, then a newer term
	es := []pb.Entry{}
	conflictAt := s.rng.Intn(n + 1)
	for k := 0; k < n; k++ {
		idx := prev + 1 + uint64(k)
		if k < conflictAt && idx <= last {
			t, _ := s.el.Term(idx)
			old, err := s.el.GetEntries(idx, idx+1, ^uint64(0))
			if err == nil && len(old) == 1 {
				c := old[0]
				c.Cmd = append([]byte{}, c.Cmd...)
				es = append(es, c)
				continue
			}
			es = append(es, s.mk(idx, 1, t)...)
			continue
		}
		if k == conflictAt {
			s.term++
		}
		es = append(es, s.mk(idx, 1, s.term)...)
	}
	lcommit := com + uint64(s.rng.Intn(int(last-com+3)))
	s.hold(es)
	_, _, err := s.el.TryAppend(prev, pterm, lcommit, es)
	if err != nil {
		panic(err)
	}
	s.emit(jElEv{Op: "TryAppend", Prev: prev, Pterm: pterm, Lcommit: lcommit, Ents: pe(es)})
}

func (s *elSim) commitTo() {
	last, com := s.el.LastIndex(), s.el.GetCommitted()
	if last == com {
		return
	}
	i := com + 1 + uint64(s.rng.Intn(int(last-com)))
	s.el.VCommitTo(i)
	s.emit(jElEv{Op: "CommitTo", I: i})
}

// one Update cycle as node.go / peer.go do it
func (s *elSim) saveCommit() {
	ts := s.el.EntriesToSave()
	ta, err := s.el.EntriesToApply()
	must(err)
	ud := pb.Update{EntriesToSave: ts, CommittedEntries: ta, LastApplied: s.applied}
	if ss := s.el.VPendingSnapshot(); ss != 0 {
		t, _ := s.el.Term(ss)
		ud.Snapshot = pb.Snapshot{Index: ss, Term: t}
	}
	// save
	if !pb.IsEmptySnapshot(ud.Snapshot) {
		must(s.reader.ApplySnapshot(ud.Snapshot))
		s.ssIndex = ud.Snapshot.Index
		s.store.removeTo(ud.Snapshot.Index)
		s.applied = ud.Snapshot.Index
		s.handed = ud.Snapshot.Index
	}
	s.store.save(ud.EntriesToSave)
	must(s.reader.Append(ud.EntriesToSave))
	if len(ud.CommittedEntries) > 0 {
		s.handed = ud.CommittedEntries[len(ud.CommittedEntries)-1].Index
	}
	s.hold(ud.CommittedEntries)
	uc := raft.VGetUpdateCommit(ud)
	s.el.VCommitUpdate(uc)
	s.emit(jElEv{Op: "SaveCommit", I: ud.LastApplied})
}

func (s *elSim) applyAck() {
	if s.handed > s.applied {
		s.applied += 1 + uint64(s.rng.Intn(int(s.handed-s.applied)))
	}
}

func (s *elSim) restore() {
	com, last := s.el.GetCommitted(), s.el.LastIndex()
	if s.el.VPendingSnapshot() != 0 {
		return
	}
	idx := com + 1 + uint64(s.rng.Intn(int(last-com+4)))
	s.term++
	s.el.VRestore(pb.Snapshot{Index: idx, Term: s.term})
	s.emit(jElEv{Op: "Restore", I: idx, Term: s.term})
}

func (s *elSim) compact() {
	// snapshot at an applied index, then compaction somewhere at or below it
	_, rlast := s.reader.GetRange()
	if s.applied <= s.ssIndex || s.applied > rlast || s.el.VPendingSnapshot() != 0 {
		return
	}
	t, err := s.reader.Term(s.applied)
	if err != nil {
		return
	}
	must(s.reader.CreateSnapshot(pb.Snapshot{Index: s.applied, Term: t}))
	s.ssIndex = s.applied
	rfirst, _ := s.reader.GetRange()
	if s.applied < rfirst {
		return
	}
	i := rfirst - 1 + uint64(s.rng.Intn(int(s.applied-rfirst+2)))
	if i < rfirst {
		return
	}
	must(s.reader.Compact(i))
	s.store.removeTo(i)
	s.emit(jElEv{Op: "Compact", I: i})
}

func must(err error) {
	if err != nil {
		panic(err)
	}
}

func (s *elSim) run(steps int) {
	s.emit(jElEv{Op: "Init"})
	for s.step < steps {
		switch c := s.rng.Intn(100); {
		case c < 25:
			s.appendEnd()
		case c < 45:
			s.tryAppend()
		case c < 58:
			s.commitTo()
		case c < 78:
			s.saveCommit()
		case c < 88:
			s.applyAck()
		case c < 91:
			s.restore()
		case c < 97:
			s.compact()
		default:
			if s.rng.Intn(2) == 0 {
				s.el.VTryResize()
			} else {
				s.el.VResize()
			}
			s.emit(jElEv{Op: "Resize"})
		}
	}
}

func elEnvInt(k string, d int) int {
	if v := os.Getenv(k); v != "" {
		if n, err := strconv.Atoi(v); err == nil {
			return n
		}
	}
	return d
}

func TestVerifElsim(t *testing.T) {
	outPath := os.Getenv("VERIF_OUT")
	if outPath == "" {
		t.Skip("VERIF_OUT not set")
	}
	seed := int64(elEnvInt("VERIF_SEED", 1))
	traces := elEnvInt("VERIF_TRACES", 10)
	steps := elEnvInt("VERIF_STEPS", 150)
	first := elEnvInt("VERIF_FIRST", 0)
	f, err := os.Create(outPath)
	if err != nil {
		t.Fatal(err)
	}
	defer f.Close()
	w := bufio.NewWriterSize(f, 1<<20)
	defer w.Flush()
	total := map[string]int{}
	for i := 0; i < traces; i++ {
		tid := first + i
		// small in-memory slices in half of the traces so that the resize paths are reached
		restore := func() {}
		if tid%2 == 1 {
			restore = raft.VSetEntrySliceSize(4, 2)
		}
		s := newElSim(seed*7919+int64(tid), w, tid)
		func() {
			defer func() {
				if r := recover(); r != nil {
					b, _ := json.Marshal(map[string]interface{}{"t": tid, "i0": s.step, "op": "Panic", "msg": fmt.Sprint(r)})
					w.Write(b)
					w.WriteByte('\n')
					total["Panic"]++
				}
			}()
			s.run(steps)
		}()
		restore()
		for k, v := range s.counts {
			total[k] += v
		}
	}
	fmt.Printf("ELSIM-STATS %v\n", total)
}
