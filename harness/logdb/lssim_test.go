//go:build verif

// lssim: drives the real log stores (sharded Pebble store in plain and batched entry
// format, Tan regular and multiplexed) through raftio.ILogDB the way node.go / logreader
// use it: saves for several replicas sharing a store (appends, overwrites of a suffix with a
// newer term, hard state, snapshot records), entry removal, node data removal, close/reopen;
// after every operation a panel of queries is issued and logged. In crash mode the store runs
// on a strict in-memory file system: at a chosen file-system operation of a save everything
// not yet synced is dropped (the injector switches the FS to ignore-syncs mode at exactly
// that operation), the store is reopened and the panel is logged as "Recovered".
// spec/LogStoreTrace.tla recomputes every panel from spec/LogStore.tla.
package logdb

import (
	"bufio"
	"encoding/binary"
	"encoding/json"
	"errors"
	"fmt"
	"math/rand"
	"os"
	"runtime"
	"runtime/debug"
	"sort"
	"strconv"
	"strings"
	"sync/atomic"
	"testing"
	"time"

	"github.com/lni/dragonboat/v4/config"
	"github.com/lni/dragonboat/v4/internal/fileutil"
	"github.com/lni/dragonboat/v4/internal/logdb/kv"
	"github.com/lni/dragonboat/v4/internal/tan"
	"github.com/lni/dragonboat/v4/raftio"
	pb "github.com/lni/dragonboat/v4/raftpb"
	"github.com/lni/vfs"
)

type lsNode struct {
	Shard, Replica uint64
	// the driver's own view, used only to generate meaningful operations
	last, lastTerm, floor, ss, rm uint64
	term, vote, commit            uint64
	hasState                      bool
	terms                         map[uint64]uint64
	bornAt                        uint64 // a replica re-created after RemoveNodeData starts from a snapshot at this index
}

type jLE [4]uint64 // index, term, val, size

type jUp struct {
	N    int       `json:"n"`
	Ents []jLE     `json:"ents"`
	HasS bool      `json:"hass"`
	St   [3]uint64 `json:"st"`
	Ss   uint64    `json:"ss"`
	SsT  uint64    `json:"sst"`
}

type jIt struct {
	Lo   uint64      `json:"lo"`
	Hi   uint64      `json:"hi"`
	Max  uint64      `json:"max"`
	Err  string      `json:"err"`
	Ents [][3]uint64 `json:"ents"`
	// a range that starts at or below the removal point: nothing of the logical log is there any more; the
	// store may answer with nothing, with an error, or with entries it still has - it must not crash
	Below bool `json:"below"`
}

type jPanelLS struct {
	N     int       `json:"n"`
	RsErr string    `json:"rserr"`
	St    [3]uint64 `json:"st"`
	First uint64    `json:"first"`
	Count uint64    `json:"count"`
	Asked uint64    `json:"asked"`
	Ss    uint64    `json:"ss"`
	Its   []jIt     `json:"its"`
}

type jLsEv struct {
	T       int        `json:"t"`
	I       int        `json:"i"`
	Op      string     `json:"op"`
	Flavour string     `json:"flavour"`
	PL      bool       `json:"pl"` // Reopen: the machine lost power after the orderly Close
	Ups     []jUp      `json:"ups"`
	N       int        `json:"n"`
	Idx     uint64     `json:"idx"`
	Val     uint64     `json:"val"`
	Res     string     `json:"res"`
	Crashed bool       `json:"crashed"`
	At      int64      `json:"at"`
	Panels  []jPanelLS `json:"panels"`
	Msg     string     `json:"msg,omitempty"`
	// Save with a crash: "" = power loss (everything unsynced is dropped), "kill" = the process dies in front of
	// the operation and everything written before it survives (the operating system writes its cache back),
	// "kill+pl" = the same, the store is reopened (Tan repairs a log whose last record is incomplete) and the
	// machine loses power as soon as the reopen has returned
	Kind string `json:"kind,omitempty"`
}

type crashInjector struct {
	n         int64
	at        int64 // crash in front of this operation (0 = never)
	errAt     int64 // return an error at this operation (0 = never)
	onceAt    int64 // one transient write / sync failure at or after this operation (0 = never)
	noSyncErr bool  // regular Tan fsyncs in goroutines of its own and stops the process on failure (allowed, not observable here)
	mem       *vfs.MemFS
	fired     int32
	kill      bool   // at `at`: everything written so far becomes durable first (process death, not power loss)
	flush     func() // the operating system writing back its cache
}

var errInjected = errors.New("injected I/O error")

// onSaveGoroutine: the failure is injected into the goroutine that runs the save only (background
// goroutines of the store, e.g. Tan's removal of obsolete files, stop the process on an error -
// allowed by the property, but not observable by this driver)
func onSaveGoroutine() bool {
	pcs := make([]uintptr, 48)
	n := runtime.Callers(2, pcs)
	frames := runtime.CallersFrames(pcs[:n])
	for {
		f, more := frames.Next()
		if strings.Contains(f.Function, "lsSim).saveFsError") {
			return true
		}
		if !more {
			return false
		}
	}
}

func (c *crashInjector) MaybeError(op vfs.Op) error {
	n := atomic.AddInt64(&c.n, 1)
	if c.at != 0 && n == c.at {
		atomic.StoreInt32(&c.fired, 1)
		if c.kill && c.flush != nil {
			c.flush()
		}
		c.mem.SetIgnoreSyncs(true)
	}
	if c.errAt != 0 && n >= c.errAt && op == vfs.OpWrite {
		atomic.StoreInt32(&c.fired, 1)
		return errInjected
	}
	// one transient failure: the first write or sync from operation onceAt on fails, nothing else
	if at := atomic.LoadInt64(&c.onceAt); at != 0 && n >= at && (op == vfs.OpWrite || (op == vfs.OpSync && !c.noSyncErr)) && onSaveGoroutine() {
		atomic.StoreInt64(&c.onceAt, 0)
		atomic.StoreInt32(&c.fired, 1)
		return errInjected
	}
	return nil
}

type lsSim struct {
	rng       *rand.Rand
	rng2      *rand.Rand // choices added later (kind of crash): drawn from a source of their own
	mid       bool       // Tan: entries of several KB, a record straddles a 32 KB block of the log every few saves
	out       *bufio.Writer
	tid       int
	step      int
	flavour   string
	mem       *vfs.MemFS
	inj       *crashInjector
	fs        vfs.FS
	db        raftio.ILogDB
	nodes     []*lsNode
	nextVal   uint64
	counts    map[string]int
	crashMode bool
	big       bool
	wide      bool // now and then one save carries thousands of entries for several replicas
	forceCnt  int
	forceSnap bool
}

func (s *lsSim) open() {
	cfg := config.NodeHostConfig{Expert: config.GetDefaultExpertConfig()}
	cfg.Expert.FS = s.fs
	cfg.Expert.LogDB = config.GetTinyMemLogDBConfig()
	cfg.Expert.LogDB.Shards = 2
	dirs, lldirs := []string{"/ls/db"}, []string{"/ls/wal"}
	// created and made durable (parent directories synced) the way the NodeHost does it
	if err := fileutil.MkdirAll(dirs[0], s.fs); err != nil {
		panic(err)
	}
	if err := fileutil.MkdirAll(lldirs[0], s.fs); err != nil {
		panic(err)
	}
	var db raftio.ILogDB
	var err error
	switch s.flavour {
	case "plain":
		db, err = NewDefaultLogDB(cfg, nil, dirs, lldirs)
	case "batched":
		db, err = NewDefaultBatchedLogDB(cfg, nil, dirs, lldirs)
	case "tan":
		db, err = tan.CreateTan(cfg, nil, dirs, lldirs)
	case "tanmux":
		db, err = tan.CreateLogMultiplexedTan(cfg, nil, dirs, lldirs)
	}
	if err != nil {
		panic(err)
	}
	s.db = db
}

// flushAll syncs every file and directory under dir (the operating system writing back its cache)
func (s *lsSim) flushAll(dir string) {
	names, err := s.mem.List(dir)
	if err != nil {
		return
	}
	for _, n := range names {
		p := s.mem.PathJoin(dir, n)
		st, err := s.mem.Stat(p)
		if err != nil {
			continue
		}
		if st.IsDir() {
			s.flushAll(p)
		} else if f, err := s.mem.Open(p); err == nil {
			_ = f.Sync()
			_ = f.Close()
		}
	}
	if d, err := s.mem.OpenDir(dir); err == nil {
		_ = d.Sync()
		_ = d.Close()
	}
}

// lsTree prints the files under dir (debug aid, VERIF_DEBUG=ls)
func (s *lsSim) lsTree(dir string, indent string) {
	names, err := s.mem.List(dir)
	if err != nil {
		return
	}
	sort.Strings(names)
	for _, n := range names {
		p := s.mem.PathJoin(dir, n)
		st, err := s.mem.Stat(p)
		if err != nil {
			continue
		}
		if st.IsDir() {
			fmt.Printf("%s%s/\n", indent, n)
			s.lsTree(p, indent+"  ")
		} else {
			fmt.Printf("%s%s %d\n", indent, n, st.Size())
		}
	}
}

func (s *lsSim) emit(ev jLsEv) {
	if os.Getenv("VERIF_DEBUG") == "ls" {
		fmt.Printf("=== step %d op %s crashed=%v at=%d\n", s.step, ev.Op, ev.Crashed, ev.At)
		s.lsTree("/ls", "  ")
	}
	ev.T, ev.I = s.tid, s.step
	s.step++
	if ev.Ups == nil {
		ev.Ups = []jUp{}
	}
	if ev.Panels == nil {
		ev.Panels = []jPanelLS{}
	}
	b, err := json.Marshal(ev)
	if err != nil {
		panic(err)
	}
	s.out.Write(b)
	s.out.WriteByte('\n')
	s.counts[ev.Op]++
}

func entVal(e pb.Entry) uint64 {
	if len(e.Cmd) >= 8 {
		return binary.LittleEndian.Uint64(e.Cmd)
	}
	return 0
}

// the fixed query panel for one replica
func (s *lsSim) panel(k int) jPanelLS {
	n := s.nodes[k]
	p := jPanelLS{N: k, Its: []jIt{}}
	ss, err := s.db.GetSnapshot(n.Shard, n.Replica)
	if err != nil {
		p.Ss = 0
	} else {
		p.Ss = ss.Index
	}
	p.Asked = p.Ss
	var rs raftio.RaftState
	func() {
		defer func() {
			if r := recover(); r != nil {
				err = fmt.Errorf("panic: %v", r)
			}
		}()
		rs, err = s.db.ReadRaftState(n.Shard, n.Replica, p.Asked)
	}()
	if err != nil {
		if errors.Is(err, raftio.ErrNoSavedLog) {
			p.RsErr = "nosavedlog"
		} else {
			p.RsErr = err.Error()
		}
	} else {
		p.St = [3]uint64{rs.State.Term, rs.State.Vote, rs.State.Commit}
		p.First, p.Count = rs.FirstIndex, rs.EntryCount
	}
	lo0 := n.rm + 1
	hiMax := n.last + 3
	if lo0 > hiMax {
		lo0 = hiMax
	}
	for q := 0; q < 6; q++ {
		lo := lo0 + uint64(s.rng.Intn(int(hiMax-lo0+1)))
		hi := lo + uint64(s.rng.Intn(int(hiMax-lo+2)))
		max := []uint64{^uint64(0), 0, 60, 150, 400}[s.rng.Intn(5)]
		if q == 0 {
			lo, hi, max = lo0, hiMax, ^uint64(0)
		}
		it := jIt{Lo: lo, Hi: hi, Max: max, Ents: [][3]uint64{}}
		if it.Max > 1000000000 {
			it.Max = 1000000000 // "no limit", kept within the integer range of the checker
		}
		ents, size, err := s.db.IterateEntries(nil, 0, n.Shard, n.Replica, lo, hi, max)
		if err != nil {
			it.Err = err.Error()
		} else {
			// the rule the log reader applies to whatever the store returns
			if max > 0 && size > max && len(ents) > 1 {
				ents = ents[:len(ents)-1]
			} else if max == 0 && size > max && len(ents) > 1 {
				ents = ents[:1]
			}
			for _, e := range ents {
				it.Ents = append(it.Ents, [3]uint64{e.Index, e.Term, entVal(e)})
			}
		}
		p.Its = append(p.Its, it)
	}
	if n.rm >= 1 {
		for q := 0; q < 2; q++ {
			lo := 1 + uint64(s.rng.Intn(int(n.rm)))
			if n.rm > 6 && s.rng.Intn(2) == 0 {
				lo = n.rm - uint64(s.rng.Intn(6))
			}
			it := jIt{Lo: lo, Hi: lo + 1 + uint64(q), Max: 1000000000, Ents: [][3]uint64{}, Below: true}
			func() {
				defer func() {
					if r := recover(); r != nil {
						it.Err = fmt.Sprintf("panic: %v", r)
					}
				}()
				ents, _, err := s.db.IterateEntries(nil, 0, n.Shard, n.Replica, it.Lo, it.Hi, ^uint64(0))
				if err != nil {
					it.Err = err.Error()
					return
				}
				for _, e := range ents {
					it.Ents = append(it.Ents, [3]uint64{e.Index, e.Term, entVal(e)})
				}
			}()
			p.Its = append(p.Its, it)
		}
	}
	return p
}

func (s *lsSim) panels(ks []int) []jPanelLS {
	r := []jPanelLS{}
	for _, k := range ks {
		r = append(r, s.panel(k))
	}
	return r
}

func (s *lsSim) mkEnts(n *lsNode, first uint64, cnt int, term uint64) []pb.Entry {
	es := make([]pb.Entry, cnt)
	for i := range es {
		s.nextVal++
		sz := 8 + s.rng.Intn(40)
		if s.mid {
			sz = 4000 + s.rng2.Intn(24000)
		}
		if s.big {
			sz = (2 + s.rng.Intn(3)) << 20
		}
		cmd := make([]byte, sz)
		binary.LittleEndian.PutUint64(cmd, s.nextVal)
		es[i] = pb.Entry{Index: first + uint64(i), Term: term, Cmd: cmd}
	}
	return es
}

// one update for node k, mirroring what raft produces
func (s *lsSim) genUpdate(k int) (pb.Update, jUp) {
	n := s.nodes[k]
	ud := pb.Update{ShardID: n.Shard, ReplicaID: n.Replica}
	ju := jUp{N: k, Ents: []jLE{}}
	c := s.rng.Intn(100)
	quiet := false
	switch {
	case n.bornAt > 0 && !n.hasState && s.forceCnt == 0:
		// the replica was removed from this host and is created again: it is brought up to date by a snapshot
		// at an index that has nothing to do with where its earlier log ended
		idx := n.bornAt
		n.bornAt = 0
		n.lastTerm++
		ud.Snapshot = pb.Snapshot{Index: idx, Term: n.lastTerm, Type: pb.RegularStateMachine}
		ju.Ss, ju.SsT = idx, n.lastTerm
		n.last, n.floor, n.ss, n.rm = idx, idx, idx, idx
		n.terms = map[uint64]uint64{}
		n.commit = idx
	case (c < 6 || s.forceSnap) && n.hasState && s.forceCnt == 0: // a restored snapshot: the log restarts at its index
		idx := n.last + 1 + uint64(s.rng.Intn(4))
		if os.Getenv("VERIF_LS_INNER") != "" && n.last > n.commit && s.rng.Intn(2) == 0 {
			// the snapshot index lies inside the log (above the commit index): the entries after it are a
			// stale suffix of another term, the logical log ends at the snapshot
			idx = n.commit + 1 + uint64(s.rng.Intn(int(n.last-n.commit)))
		}
		// a snapshot received from the leader of the current term: neither term nor vote changes with it, the
		// update carries the snapshot record and a new commit index only (crash mode, every second one)
		quiet = s.rng2 != nil && s.rng2.Intn(2) == 0 && n.term >= n.lastTerm && n.lastTerm > 0
		if !quiet {
			n.lastTerm++
		}
		ud.Snapshot = pb.Snapshot{Index: idx, Term: n.lastTerm, Type: pb.RegularStateMachine}
		ju.Ss, ju.SsT = idx, n.lastTerm
		n.last, n.floor, n.ss, n.rm = idx, idx, idx, idx
		n.terms = map[uint64]uint64{}
		n.commit = idx
	case c < 75 || s.forceCnt > 0: // append
		cnt := 1 + s.rng.Intn(7)
		if s.forceCnt > 0 {
			cnt = s.forceCnt + s.rng.Intn(60)
		}
		if s.rng.Intn(5) == 0 {
			n.lastTerm++
		}
		ud.EntriesToSave = s.mkEnts(n, n.last+1, cnt, n.lastTerm)
		n.last += uint64(cnt)
	case c >= 93 && s.crashMode && n.hasState && n.commit < n.last && s.forceCnt == 0:
		// nothing but a new commit index (Tan does not sync such an update)
		n.commit += 1 + uint64(s.rng.Intn(int(n.last-n.commit)))
		ud.State = pb.State{Term: n.term, Vote: n.vote, Commit: n.commit}
		ju.HasS, ju.St = true, [3]uint64{n.term, n.vote, n.commit}
		if n.commit > n.floor {
			n.floor = n.commit
		}
		return ud, ju
	default: // overwrite a suffix with a newer term
		if n.last > n.floor {
			from := n.floor + 1 + uint64(s.rng.Intn(int(n.last-n.floor)))
			cnt := 1 + s.rng.Intn(5)
			n.lastTerm++
			ud.EntriesToSave = s.mkEnts(n, from, cnt, n.lastTerm)
			n.last = from + uint64(cnt) - 1
		}
	}
	if n.lastTerm == 0 {
		n.lastTerm = 1
	}
	for _, e := range ud.EntriesToSave {
		ju.Ents = append(ju.Ents, jLE{e.Index, e.Term, entVal(e), uint64(e.SizeUpperLimit())})
	}
	if !n.hasState || s.rng.Intn(3) == 0 || ju.Ss != 0 || s.forceCnt > 0 {
		if n.term < n.lastTerm {
			n.term = n.lastTerm
		}
		if (s.rng.Intn(4) == 0 || s.forceCnt > 0) && !quiet {
			n.term++
			n.vote = 0
		}
		if s.rng.Intn(3) == 0 {
			if v := uint64(1 + s.rng.Intn(3)); !quiet {
				n.vote = v
			}
		}
		if n.commit < n.last && s.rng.Intn(2) == 0 {
			n.commit += uint64(s.rng.Intn(int(n.last-n.commit) + 1))
		}
		if n.commit > n.last {
			n.commit = n.last
		}
		ud.State = pb.State{Term: n.term, Vote: n.vote, Commit: n.commit}
		ju.HasS, ju.St = true, [3]uint64{n.term, n.vote, n.commit}
		n.hasState = true
	}
	if n.commit > n.floor {
		n.floor = n.commit
	}
	return ud, ju
}

func (s *lsSim) save(crashAt int64) {
	// one SaveRaftState call carries the updates of replicas of one partition of the store
	group := func(id uint64) uint64 {
		if s.flavour == "tan" || s.flavour == "tanmux" {
			return id % 16
		}
		return id % 2
	}
	k0 := s.rng.Intn(len(s.nodes))
	ks := []int{k0}
	for k := range s.nodes {
		if k != k0 && group(s.nodes[k].Shard) == group(s.nodes[k0].Shard) && s.rng.Intn(3) > 0 {
			ks = append(ks, k)
		}
	}
	if s.forceCnt > 0 {
		// a very large save: every replica of the partition takes part
		ks = []int{k0}
		for k := range s.nodes {
			if k != k0 && group(s.nodes[k].Shard) == group(s.nodes[k0].Shard) {
				ks = append(ks, k)
			}
		}
	}
	uds := []pb.Update{}
	jus := []jUp{}
	for _, k := range ks {
		ud, ju := s.genUpdate(k)
		uds = append(uds, ud)
		jus = append(jus, ju)
	}
	kind := ""
	if crashAt != 0 {
		atomic.StoreInt64(&s.inj.n, 0)
		s.inj.at = crashAt
		if s.rng2 != nil && s.rng2.Intn(3) == 0 && os.Getenv("VERIF_LS_NOKILL") == "" {
			kind = "kill"
			s.inj.kill = true
			if s.mid {
				// a save of a few large entries is a handful of operations: between the write of a full block
				// and the write of the rest of the record
				crashAt = int64(1 + s.rng2.Intn(6))
				s.inj.at = crashAt
			}
		}
	}
	res := "ok"
	func() {
		defer func() {
			if r := recover(); r != nil {
				res = "panic"
				if os.Getenv("VERIF_DEBUG") != "" {
					fmt.Println("SAVE PANIC:", r)
				}
				// Tan syncs in goroutines of its own: let them finish before the store is closed
				time.Sleep(30 * time.Millisecond)
			}
		}()
		// the engine's step worker w saves the replicas of partition w-1 with its own context
		if err := s.db.SaveRaftState(uds, group(s.nodes[k0].Shard)%2+1); err != nil {
			res = "error"
		}
	}()
	if crashAt == 0 {
		s.emit(jLsEv{Op: "Save", Ups: jus, Res: res, Panels: s.panels(ks)})
		return
	}
	// crash: whatever was not synced before operation `crashAt` of this save is lost
	fired := atomic.LoadInt32(&s.inj.fired) == 1
	s.inj.at = 0
	if !fired {
		if kind == "kill" {
			s.flushAll("/ls")
		}
		s.mem.SetIgnoreSyncs(true)
	}
	s.inj.kill = false
	func() {
		defer func() { recover() }()
		s.db.Close()
	}()
	s.mem.ResetToSyncedState()
	s.mem.SetIgnoreSyncs(false)
	atomic.StoreInt32(&s.inj.fired, 0)
	s.open()
	if kind == "kill" && s.rng2.Intn(2) == 0 {
		// the reopen may have repaired files (Tan copies a log whose last record is incomplete): whatever it
		// did has to be durable when it returns, the machine loses power now
		kind = "kill+pl"
		s.mem.SetIgnoreSyncs(true)
		func() {
			defer func() { recover() }()
			s.db.Close()
		}()
		s.mem.ResetToSyncedState()
		s.mem.SetIgnoreSyncs(false)
		s.open()
	}
	all := []int{}
	for k := range s.nodes {
		all = append(all, k)
	}
	s.emit(jLsEv{Op: "Save", Ups: jus, Res: res, Crashed: true, At: crashAt, Kind: kind})
	if kind != "" {
		s.counts["crash:"+kind]++
	} else {
		s.counts["crash:powerloss"]++
	}
	ps := s.panels(all)
	s.emit(jLsEv{Op: "Recovered", Panels: ps})
	// like a restarting replica, the driver continues from what the store recovered
	for _, p := range ps {
		n := s.nodes[p.N]
		if p.RsErr != "" {
			*n = lsNode{Shard: n.Shard, Replica: n.Replica, lastTerm: n.lastTerm, terms: map[uint64]uint64{}}
			continue
		}
		n.term, n.vote, n.commit = p.St[0], p.St[1], p.St[2]
		n.hasState = true
		n.ss = p.Ss
		if p.Count > 0 {
			n.last = p.First + p.Count - 1
		} else {
			n.last = p.Asked
		}
		if n.commit > n.last {
			n.commit = n.last
		}
		if n.floor > n.last {
			n.floor = n.last
		}
		if n.rm > n.last {
			n.rm = n.last
		}
	}
}

// importSnap: ILogDB.ImportSnapshot as tools.ImportSnapshot uses it (the store is opened for the import and
// closed afterwards). Everything the replica had is replaced by the imported snapshot record, the hard state
// (term of the snapshot, its index as commit index) and an empty log that starts behind the snapshot.
func (s *lsSim) importSnap(k int) {
	n := s.nodes[k]
	lo := n.ss
	if lo == 0 {
		lo = 1
	}
	idx := lo + uint64(s.rng.Intn(int(n.last+4-lo)))
	n.lastTerm++
	term := n.lastTerm
	ss := pb.Snapshot{ShardID: n.Shard, Index: idx, Term: term, Type: pb.RegularStateMachine}
	crashAt := int64(0)
	if s.crashMode && s.rng.Intn(2) == 0 {
		crashAt = int64(1 + s.rng.Intn(40))
		atomic.StoreInt64(&s.inj.n, 0)
		s.inj.at = crashAt
	}
	res := "ok"
	func() {
		defer func() {
			if r := recover(); r != nil {
				res = "panic"
				time.Sleep(30 * time.Millisecond)
			}
		}()
		if err := s.db.ImportSnapshot(ss, n.Replica); err != nil {
			res = "error"
		}
	}()
	fired := crashAt != 0 && atomic.LoadInt32(&s.inj.fired) == 1
	s.inj.at = 0
	func() {
		defer func() { recover() }()
		s.db.Close()
	}()
	pl := fired || (s.crashMode && s.rng.Intn(2) == 0)
	if pl {
		s.mem.ResetToSyncedState()
	}
	s.mem.SetIgnoreSyncs(false)
	atomic.StoreInt32(&s.inj.fired, 0)
	s.emit(jLsEv{Op: "Import", N: k, Idx: idx, Val: term, Res: res, Crashed: fired})
	s.open()
	// nothing at or below the imported snapshot index is ever asked for again (the log reader starts there):
	// the queries keep to the range that is meaningful whether or not the import is visible
	oldRm, oldLast := n.rm, n.last
	if idx > n.rm {
		n.rm = idx
	}
	if idx > n.last {
		n.last = idx
	}
	ps := s.panels([]int{k})
	n.rm, n.last = oldRm, oldLast
	// the import may be visible or not when power was lost inside it; afterwards the driver continues from
	// what the store holds
	s.emit(jLsEv{Op: "Imported", PL: pl, Panels: ps})
	for _, p := range ps {
		if p.RsErr != "" {
			*n = lsNode{Shard: n.Shard, Replica: n.Replica, lastTerm: n.lastTerm, terms: map[uint64]uint64{}}
			continue
		}
		if p.Ss == idx && p.St[0] == term && p.Count == 0 {
			*n = lsNode{Shard: n.Shard, Replica: n.Replica, lastTerm: term, terms: map[uint64]uint64{}, hasState: true,
				term: term, vote: 0, commit: idx, last: idx, floor: idx, ss: idx, rm: idx}
		}
	}
	if pl {
		// the power loss hit every replica of the store: the others are looked at as well, right away - an
		// update that only moved their commit index may be gone (the judge resolves it at this observation)
		others := []int{}
		for i := range s.nodes {
			if i != k {
				others = append(others, i)
			}
		}
		ops := s.panels(others)
		s.emit(jLsEv{Op: "Reopen", PL: true, Panels: ops})
		for _, p := range ops {
			if p.RsErr == "" && s.nodes[p.N].hasState {
				s.nodes[p.N].commit = p.St[2]
			}
		}
	}
}

// saveFsError: one save of one replica during which a single write or fsync of the file system
// fails (no power loss). The save must report the failure (error or panic) or be completely
// there: success with data missing is the violation. After a reported failure the store is
// reopened and the driver continues from what it holds, like raft would after a restart.
func (s *lsSim) saveFsError() {
	k := s.rng.Intn(len(s.nodes))
	saved := *s.nodes[k]
	nt := map[uint64]uint64{}
	for a, b := range s.nodes[k].terms {
		nt[a] = b
	}
	saved.terms = nt
	ud, ju := s.genUpdate(k)
	at := int64(1 + s.rng.Intn(30))
	if s.mid {
		at = int64(1 + s.rng2.Intn(5))
	}
	atomic.StoreInt64(&s.inj.n, 0)
	atomic.StoreInt32(&s.inj.fired, 0)
	s.inj.noSyncErr = s.flavour == "tan"
	atomic.StoreInt64(&s.inj.onceAt, at)
	res := "ok"
	func() {
		defer func() {
			if r := recover(); r != nil {
				res = "panic"
				time.Sleep(30 * time.Millisecond)
			}
		}()
		if err := s.db.SaveRaftState([]pb.Update{ud}, s.nodes[k].Shard%2+1); err != nil {
			res = "error"
		}
	}()
	hit := atomic.LoadInt32(&s.inj.fired) == 1
	afterRm := uint64(0)
	var after lsNode
	atomic.StoreInt64(&s.inj.onceAt, 0)
	atomic.StoreInt32(&s.inj.fired, 0)
	if res == "ok" {
		ev := jLsEv{Op: "Save", Ups: []jUp{ju}, Res: res, Panels: s.panels([]int{k})}
		if hit {
			ev.Op, ev.At = "SaveWithInjectedError", at
		}
		s.emit(ev)
		if !hit {
			return
		}
	} else {
		afterRm = s.nodes[k].rm
		after = *s.nodes[k]
		*s.nodes[k] = saved
		s.emit(jLsEv{Op: "SaveFailed", Ups: []jUp{ju}, Res: res, At: at})
	}
	// the store object may be unusable after a failed write: the process ends and is started again.
	// No power loss: what the dead process had written stays in the page cache and reaches the disk;
	// the model of that is a sync of every file and directory before the store is opened again.
	func() {
		defer func() { recover() }()
		s.db.Close()
	}()
	s.flushAll("/ls")
	s.open()
	// the failed save may be visible after all. If it carried a restored snapshot the log restarts at that
	// index and nothing at or below it is ever asked for again (the log reader answers ErrCompacted there):
	// the queries of this panel keep to the range that is meaningful in both cases
	beforeRm := s.nodes[k].rm
	if afterRm > beforeRm {
		s.nodes[k].rm = afterRm
	}
	ps := s.panels([]int{k})
	s.nodes[k].rm = beforeRm
	s.emit(jLsEv{Op: "Reopen", Panels: ps})
	for _, p := range ps {
		n := s.nodes[p.N]
		if res != "ok" && after.ss > saved.ss && p.Ss == after.ss {
			// the failed save is visible and restored a snapshot: the driver's picture is the one it
			// had drawn for the successful save (log restarted at the snapshot index)
			*n = after
		}
		if p.RsErr != "" {
			*n = lsNode{Shard: n.Shard, Replica: n.Replica, lastTerm: n.lastTerm, terms: map[uint64]uint64{}}
			continue
		}
		n.term, n.vote, n.commit = p.St[0], p.St[1], p.St[2]
		n.hasState = true
		n.ss = p.Ss
		if p.Count > 0 {
			n.last = p.First + p.Count - 1
		} else {
			n.last = p.Asked
		}
		if n.commit > n.last {
			n.commit = n.last
		}
		if n.floor > n.last {
			n.floor = n.last
		}
		if n.rm > n.last {
			n.rm = n.last
		}
	}
}

func (s *lsSim) run(steps int) {
	s.emit(jLsEv{Op: "Init", Flavour: s.flavour})
	s.open()
	for s.step < steps {
		k := s.rng.Intn(len(s.nodes))
		n := s.nodes[k]
		switch c := s.rng.Intn(100); {
		case c < 6 && s.wide && s.crashMode:
			s.wide = false // one per trace (they are expensive to judge)
			s.forceCnt = 2060
			s.save(int64(lsEnvInt("VERIF_WIDEAT", 12+s.rng.Intn(10))))
			s.forceCnt = 0
		case c < 55:
			s.save(0)
		case c >= 96 && s.crashMode && (s.flavour == "tan" || s.flavour == "tanmux" || s.tid%2 == 0):
			s.saveFsError()
		case c >= 90 && s.mid:
			// records of several blocks: the failing write is one of the handful of writes of one record
			s.saveFsError()
		case c < 62 && s.crashMode:
			// count the file-system operations of a save on a dry run is not possible without
			// repeating it; instead crash in front of a random operation among the first 40
			s.save(int64(1 + s.rng.Intn(40)))
		case c < 72: // snapshot record at a committed index
			if n.hasState && n.commit > n.ss {
				idx := n.ss + 1 + uint64(s.rng.Intn(int(n.commit-n.ss)))
				ud := pb.Update{ShardID: n.Shard, ReplicaID: n.Replica,
					Snapshot: pb.Snapshot{Index: idx, Term: n.lastTerm, Type: pb.RegularStateMachine}}
				res := "ok"
				if err := s.db.SaveSnapshots([]pb.Update{ud}); err != nil {
					res = "error"
				}
				n.ss = idx
				s.emit(jLsEv{Op: "SaveSnapshot", N: k, Idx: idx, Res: res, Panels: s.panels([]int{k})})
			}
		case c < 82: // remove entries up to somewhere at or below the snapshot
			if n.ss > n.rm {
				idx := n.rm + 1 + uint64(s.rng.Intn(int(n.ss-n.rm)))
				if idx >= n.last {
					break
				}
				if err := s.db.RemoveEntriesTo(n.Shard, n.Replica, idx); err != nil {
					panic(err)
				}
				ch, err := s.db.CompactEntriesTo(n.Shard, n.Replica, idx)
				if err != nil {
					panic(err)
				}
				<-ch
				n.rm = idx
				s.emit(jLsEv{Op: "Remove", N: k, Idx: idx, Panels: s.panels([]int{k})})
			}
		case c < 85: // the replica is removed from this host
			// (multiplexed Tan: only in some traces - see known_findings.json, removing one replica's
			// data deletes log files the other replicas of the same db still need)
			// (crash mode: C10 speaks about saves; Tan's RemoveNodeData writes no removal record, so
			// after a crash the removed records are replayed again - noted in DESIGN.md, not a C10 claim)
			if n.hasState && !s.crashMode && (s.flavour != "tanmux" || s.tid%16 == 3) {
				if err := s.db.RemoveNodeData(n.Shard, n.Replica); err != nil {
					panic(err)
				}
				oldLast := n.last
				*n = lsNode{Shard: n.Shard, Replica: n.Replica, lastTerm: 1, terms: map[uint64]uint64{}}
				if s.rng.Intn(2) == 0 {
					n.bornAt = 1 + uint64(s.rng.Intn(int(oldLast)+4))
					if d := uint64(s.rng.Intn(6)); d < 3 && oldLast > d {
						n.bornAt = oldLast - d // close to where the earlier log ended (same entry batch)
					}
				}
				s.emit(jLsEv{Op: "RemoveNode", N: k, Panels: s.panels([]int{k})})
			}
		case c < 87 && n.hasState && (s.flavour == "tan" || s.flavour == "plain" || s.flavour == "batched") && os.Getenv("VERIF_LS_NOIMPORT") == "":
			// the repair tool: ImportSnapshot on an opened store, then Close (tools.ImportSnapshot); in crash
			// mode the machine may lose power at a file-system operation of the import or right after the Close
			s.importSnap(k)
		case c < 93:
			if err := s.db.Close(); err != nil {
				panic(err)
			}
			// crash mode: the machine loses power some time after the store was closed in an orderly way
			// (nothing was synced by anybody after Close returned): every acknowledged save must still
			// be there
			pl := s.crashMode && s.rng.Intn(2) == 0
			if pl {
				s.mem.ResetToSyncedState()
			}
			s.open()
			all := []int{}
			for i := range s.nodes {
				all = append(all, i)
			}
			ps := s.panels(all)
			s.emit(jLsEv{Op: "Reopen", PL: pl, Panels: ps})
			if pl {
				// an update that only moved the commit index may be gone: continue from what is there
				for _, p := range ps {
					if p.RsErr == "" && s.nodes[p.N].hasState {
						s.nodes[p.N].commit = p.St[2]
					}
				}
			}
		default:
			all := []int{}
			for i := range s.nodes {
				all = append(all, i)
			}
			s.emit(jLsEv{Op: "Query", Panels: s.panels(all)})
		}
	}
	func() {
		defer func() { recover() }()
		s.db.Close()
	}()
}

// a kv.IKVStore whose IterateValue / CommitWriteBatch fails at a chosen call: used to check
// that a failed write is never reported as success
type failingKV struct {
	kv.IKVStore
	calls  *int64
	failAt int64
}

func (f *failingKV) IterateValue(fk []byte, lk []byte, inc bool, op func(key []byte, data []byte) (bool, error)) error {
	if n := atomic.AddInt64(f.calls, 1); f.failAt != 0 && n == f.failAt {
		return errInjected
	}
	return f.IKVStore.IterateValue(fk, lk, inc, op)
}

func (f *failingKV) GetValue(key []byte, op func([]byte) error) error {
	if n := atomic.AddInt64(f.calls, 1); f.failAt != 0 && n == f.failAt {
		return errInjected
	}
	return f.IKVStore.GetValue(key, op)
}

func (f *failingKV) CommitWriteBatch(wb kv.IWriteBatch) error {
	if n := atomic.AddInt64(f.calls, 1); f.failAt != 0 && n == f.failAt {
		return errInjected
	}
	return f.IKVStore.CommitWriteBatch(wb)
}

// error injection at every KV-store call of a save (Pebble-backed store): the save must
// fail, or everything it carried must be readable afterwards
func (s *lsSim) kvErrorRun(batched bool) {
	s.emit(jLsEv{Op: "Init", Flavour: s.flavour})
	cfg := config.NodeHostConfig{Expert: config.GetDefaultExpertConfig()}
	cfg.Expert.FS = s.fs
	cfg.Expert.LogDB = config.GetTinyMemLogDBConfig()
	cfg.Expert.LogDB.Shards = 2
	calls := new(int64)
	var fkvs []*failingKV
	factory := func(c config.LogDBConfig, cb kv.LogDBCallback, dir string, wal string, fs vfs.FS) (kv.IKVStore, error) {
		st, err := newDefaultKVStore(c, cb, dir, wal, fs)
		if err != nil {
			return nil, err
		}
		f := &failingKV{IKVStore: st, calls: calls}
		fkvs = append(fkvs, f)
		return f, nil
	}
	if err := fileutil.MkdirAll("/ls/db", s.fs); err != nil {
		panic(err)
	}
	db, err := NewLogDB(cfg, nil, []string{"/ls/db"}, []string{"/ls/db"}, batched, !batched, factory)
	if err != nil {
		panic(err)
	}
	s.db = db
	setFail := func(at int64) {
		atomic.StoreInt64(calls, 0)
		for _, f := range fkvs {
			f.failAt = at
		}
	}
	for round := 0; round < 12; round++ {
		k := s.rng.Intn(len(s.nodes))
		// a dry save to learn how many KV calls a save of this shape makes is not needed:
		// try failing call 1, 2, 3 ... until the save no longer hits the failing call
		for at := int64(1); at <= 6; at++ {
			n := *s.nodes[k]
			nt := map[uint64]uint64{}
			saved := n
			saved.terms = nt
			s.forceSnap = s.rng.Intn(2) == 0
			ud, ju := s.genUpdate(k)
			s.forceSnap = false
			setFail(at)
			res := "ok"
			func() {
				defer func() {
					if r := recover(); r != nil {
						res = "panic"
					}
				}()
				if err := s.db.SaveRaftState([]pb.Update{ud}, s.nodes[k].Shard%2+1); err != nil {
					res = "error"
				}
			}()
			hit := atomic.LoadInt64(calls) >= at
			setFail(0)
			if res != "ok" {
				// a failed save: the driver forgets it (raft would stop the replica)
				*s.nodes[k] = saved
				s.emit(jLsEv{Op: "SaveFailed", Ups: []jUp{ju}, Res: res, At: at})
				// the store object may be unusable after a failed write batch: reopen
				func() {
					defer func() { recover() }()
					s.db.Close()
				}()
				fkvs = nil
				db, err := NewLogDB(cfg, nil, []string{"/ls/db"}, []string{"/ls/db"}, batched, !batched, factory)
				if err != nil {
					panic(err)
				}
				s.db = db
				s.emit(jLsEv{Op: "Reopen", Panels: s.panels([]int{k})})
				continue
			}
			ev := jLsEv{Op: "Save", Ups: []jUp{ju}, Res: res, Panels: s.panels([]int{k})}
			if hit {
				ev.Op = "SaveWithInjectedError"
				ev.At = at
			}
			s.emit(ev)
			if hit && len(ev.Panels) > 0 && (ev.Panels[0].RsErr != "" || ev.Panels[0].St != [3]uint64{s.nodes[k].term, s.nodes[k].vote, s.nodes[k].commit}) {
				// success was reported but the state is not there: the specification has
				// flagged it; the rest of this trace would only repeat the same finding
				s.db.Close()
				return
			}
		}
	}
	s.db.Close()
}

func TestVerifLssim(t *testing.T) {
	outPath := os.Getenv("VERIF_OUT")
	if outPath == "" {
		t.Skip("VERIF_OUT not set")
	}
	seed := int64(elEnvInt("VERIF_SEED", 1))
	traces := elEnvInt("VERIF_TRACES", 4)
	steps := elEnvInt("VERIF_STEPS", 60)
	first := elEnvInt("VERIF_FIRST", 0)
	mode := os.Getenv("VERIF_MODE") // "", "crash", "kverr"
	only := os.Getenv("VERIF_FLAVOUR")
	f, err := os.Create(outPath)
	if err != nil {
		t.Fatal(err)
	}
	defer f.Close()
	w := bufio.NewWriterSize(f, 1<<20)
	defer w.Flush()
	total := map[string]int{}
	savedBatch := batchSize
	defer func() { batchSize = savedBatch }()
	flavours := []string{"plain", "batched", "tan", "tanmux"}
	for i := 0; i < traces; i++ {
		tid := first + i
		rng := rand.New(rand.NewSource(seed*15485863 + int64(tid)))
		s := &lsSim{rng: rng, out: w, tid: tid, counts: map[string]int{}}
		s.flavour = flavours[tid%4]
		if only != "" {
			s.flavour = only
		}
		if mode == "kverr" {
			s.flavour = []string{"plain", "batched"}[tid%2]
		}
		// small batches / small log files in most traces so that boundaries are crossed often
		batchSize = savedBatch
		if tid%8 < 6 {
			batchSize = 4
		}
		// Tan's log file size is a constant (64MB): the verif hook of internal/tan lowers it (and the
		// MANIFEST limit) in most Tan traces so that log rotation, index files of full logs, MANIFEST
		// roll-over and removal of obsolete files happen every few saves, with crash points inside;
		// a few traces reach the production boundaries with multi-megabyte payloads instead
		tan.VerifMaxLogFileSize, tan.VerifMaxManifestFileSize = 0, 0
		if (s.flavour == "tan" || s.flavour == "tanmux") && tid%16 < 12 {
			tan.VerifMaxLogFileSize = int64(700 + rng.Intn(4000))
			if tid%8 < 4 {
				// a rotation with nearly every save: most crash points fall into one
				tan.VerifMaxLogFileSize = int64(100 + rng.Intn(500))
			}
			if tid%2 == 0 || tid%16 >= 8 {
				tan.VerifMaxManifestFileSize = int64(200 + rng.Intn(1500))
			}
		}
		s.wide = s.flavour == "plain" && tid%32 == 4
		s.big = (s.flavour == "tan" || s.flavour == "tanmux") && tid%16 >= 12 && os.Getenv("VERIF_BIG") == "1"
		s.mem = vfs.NewStrictMem()
		s.inj = &crashInjector{mem: s.mem}
		s.inj.flush = func() { s.flushAll("/ls") }
		s.fs = vfs.Wrap(s.mem, s.inj)
		s.crashMode = mode == "crash"
		if s.crashMode {
			s.rng2 = rand.New(rand.NewSource(seed*32452843 + int64(tid)))
			s.mid = (s.flavour == "tan" || s.flavour == "tanmux") && tid%16 >= 14 && !s.big
		}
		other := uint64(3)
		if s.flavour == "tanmux" || s.flavour == "tan" {
			other = 17
		}
		for _, id := range []uint64{1, other, 2} {
			s.nodes = append(s.nodes, &lsNode{Shard: id, Replica: 1, lastTerm: 1, terms: map[uint64]uint64{}})
		}
		func() {
			defer func() {
				if r := recover(); r != nil {
					if os.Getenv("VERIF_DEBUG") != "" {
						fmt.Printf("PANIC %v\n%s\n", r, debug.Stack())
					}
					s.emit(jLsEv{Op: "Panic", Msg: fmt.Sprint(r)})
					w.Flush()
					// goroutines of the abandoned store (Tan syncs in goroutines of its own) may still run
					time.Sleep(50 * time.Millisecond)
				}
			}()
			if mode == "kverr" {
				s.kvErrorRun(s.flavour == "batched")
			} else {
				s.run(steps)
			}
		}()
		for k, v := range s.counts {
			total[k] += v
		}
		s.mem, s.fs, s.db = nil, nil, nil
		debug.FreeOSMemory()
	}
	fmt.Printf("LSSIM-STATS %v\n", total)
}

func lsEnvInt(k string, d int) int {
	if v := os.Getenv(k); v != "" {
		if n, err := strconv.Atoi(v); err == nil {
			return n
		}
	}
	return d
}
