//go:build verif

// rsim: deterministic protocol simulator for the real internal/raft code.
//
// N real raft objects are driven through Peer exactly the way node.go drives
// them (NotifyRaftLastApplied, Handle/Tick/Propose..., GetUpdate, save, send,
// Commit, apply of committed entries incl. membership changes, snapshot,
// compaction, crash, restart). Every scheduling decision - tick, delivery,
// drop, duplicate, proposal, read, config change, transfer, snapshot,
// compaction, crash, restart - is one harness step, chosen by a seeded random
// generator or read from a schedule file. After every step the projected state
// of the acting replica is written as one ndjson line; the TLA+ trace
// specification (spec/RaftTrace.tla) checks each line against spec/Raft.tla and
// evaluates the property invariants on the observed states.
//
// This file is injected into package raft by `go test -overlay` (nothing in
// /repo is modified).
package raft

import (
	"bufio"
	"encoding/binary"
	"encoding/json"
	"fmt"
	"math/rand"
	"os"
	"reflect"
	"sort"
	"strconv"
	"strings"
	"testing"
	"unsafe"

	"github.com/lni/dragonboat/v4/config"
	pb "github.com/lni/dragonboat/v4/raftpb"
	"github.com/lni/goutils/random"
)

// ---------------------------------------------------------------- log store

// vLogDB is the ILogDB seen by one replica: what the LogReader would show,
// everything in it is durable (Ready saves atomically; Pipeline.tla and the
// C04 check look inside that step).
type vLogDB struct {
	entries     []pb.Entry
	markerIndex uint64
	markerTerm  uint64
	snapshot    pb.Snapshot
	state       pb.State
}

func (db *vLogDB) SetState(s pb.State) { db.state = s }
func (db *vLogDB) NodeState() (pb.State, pb.Membership) {
	return db.state, db.snapshot.Membership
}
func (db *vLogDB) Snapshot() pb.Snapshot { return db.snapshot }
func (db *vLogDB) ApplySnapshot(ss pb.Snapshot) error {
	if db.snapshot.Index >= ss.Index {
		return ErrSnapshotOutOfDate
	}
	db.snapshot = ss
	db.markerIndex = ss.Index
	db.markerTerm = ss.Term
	db.entries = make([]pb.Entry, 0)
	return nil
}
func (db *vLogDB) CreateSnapshot(ss pb.Snapshot) error {
	if db.snapshot.Index >= ss.Index {
		return ErrSnapshotOutOfDate
	}
	db.snapshot = ss
	return nil
}
func (db *vLogDB) GetRange() (uint64, uint64) { return db.firstIndex(), db.lastIndex() }
func (db *vLogDB) firstIndex() uint64         { return db.markerIndex + 1 }
func (db *vLogDB) lastIndex() uint64          { return db.markerIndex + uint64(len(db.entries)) }
func (db *vLogDB) SetRange(uint64, uint64)    { panic("not used") }
func (db *vLogDB) Term(index uint64) (uint64, error) {
	if index == db.markerIndex {
		return db.markerTerm, nil
	}
	if index < db.markerIndex {
		return 0, ErrCompacted
	}
	if index > db.lastIndex() {
		return 0, ErrUnavailable
	}
	return db.entries[index-db.markerIndex-1].Term, nil
}
func (db *vLogDB) Append(entries []pb.Entry) error {
	if len(entries) == 0 {
		return nil
	}
	first := db.firstIndex()
	if entries[len(entries)-1].Index < first {
		return nil
	}
	if first > entries[0].Index {
		entries = entries[first-entries[0].Index:]
	}
	offset := entries[0].Index - db.markerIndex
	if uint64(len(db.entries)+1) > offset {
		db.entries = db.entries[:offset-1]
	} else if uint64(len(db.entries)+1) < offset {
		panic(fmt.Sprintf("vLogDB: hole, last %d, incoming %d", db.lastIndex(), entries[0].Index))
	}
	db.entries = append(db.entries, entries...)
	return nil
}
func (db *vLogDB) Entries(low uint64, high uint64, maxSize uint64) ([]pb.Entry, error) {
	if low <= db.markerIndex {
		return nil, ErrCompacted
	}
	if high > db.lastIndex()+1 {
		return nil, ErrUnavailable
	}
	if len(db.entries) == 0 {
		return nil, ErrUnavailable
	}
	// a real log store hands out fresh copies; never alias the stored array
	ents := append([]pb.Entry{}, db.entries[low-db.markerIndex-1:high-db.markerIndex-1]...)
	return limitSize(ents, maxSize), nil
}
func (db *vLogDB) Compact(index uint64) error {
	if index <= db.markerIndex {
		return ErrCompacted
	}
	if index > db.lastIndex() {
		return ErrUnavailable
	}
	term, _ := db.Term(index)
	cut := index - db.markerIndex
	db.entries = append([]pb.Entry{}, db.entries[cut:]...)
	db.markerIndex = index
	db.markerTerm = term
	return nil
}

// ---------------------------------------------------------------- simulator

type vMem struct{ v, nv, w, rm map[uint64]bool }

func newVMem() vMem {
	return vMem{map[uint64]bool{}, map[uint64]bool{}, map[uint64]bool{}, map[uint64]bool{}}
}

type vNode struct {
	id         uint64
	kind       string // "V", "N", "W": how the replica is (re)started
	up         bool
	started    bool
	peer       Peer
	db         *vLogDB
	applied    uint64
	alist      []pb.Entry
	aq         *pb.Snapshot
	mem        vMem
	lastRto    uint64
	bootVoters []uint64
}

type vSim struct {
	hold      func(pb.Message) bool // messages that stay in flight for now (scenarios)
	t         *testing.T
	rng       *rand.Rand
	ids       []uint64
	nodes     map[uint64]*vNode
	net       map[string]pb.Message
	et, ht    uint64
	preVote   bool
	checkQ    bool
	out       *bufio.Writer
	tid       int
	step      int
	nextVal   uint64
	nextCtx   uint64
	blocked   map[[2]uint64]bool
	firstKind map[uint64]string // kind under which an id was first admitted on any replica
	fair      bool
	stats     map[string]int
	mute      bool         // xsim: replay of a path prefix, nothing is projected or written
	sink      func(jEvent) // xsim: events are handed over instead of written
}

const (
	opAddNode      = 1
	opRemove       = 2
	opAddNonVoting = 3
	opAddWitness   = 4
)

func addrOf(id uint64) string { return "a" + strconv.FormatUint(id, 10) }

func (s *vSim) cfg(n *vNode) config.Config {
	return config.Config{
		ShardID:      1,
		ReplicaID:    n.id,
		ElectionRTT:  s.et,
		HeartbeatRTT: s.ht,
		CheckQuorum:  s.checkQ,
		PreVote:      s.preVote,
		IsNonVoting:  n.kind == "N",
		IsWitness:    n.kind == "W",
	}
}

// the process-global random source decides election timeouts in the real code; it is re-seeded
// at the start of every trace (its source field is unexported, hence reflect + unsafe) so that a
// schedule is reproducible from its seed. In the fault-free period of the progress check the
// replicas get pairwise distinct timeouts instead.
func seedGlobalRand(seed int64) {
	v := reflect.ValueOf(random.LockGuardedRand).Elem().FieldByName("source")
	p := unsafe.Pointer(v.UnsafeAddr())
	*(*rand.Source64)(p) = rand.NewSource(seed).(rand.Source64)
}

func (s *vSim) fixRto(n *vNode) {
	r := n.peer.raft
	if s.fair {
		r.randomizedElectionTimeout = s.et + (n.id-1)%s.et
	}
	n.lastRto = r.randomizedElectionTimeout
}

// ---------------------------------------------------------------- projection

var mtypeNames = map[pb.MessageType]string{
	pb.NoOP: "NoOP", pb.Propose: "Propose", pb.SnapshotStatus: "SnapshotStatus",
	pb.Unreachable: "Unreachable", pb.Replicate: "Replicate", pb.ReplicateResp: "ReplicateResp",
	pb.RequestVote: "RequestVote", pb.RequestVoteResp: "RequestVoteResp",
	pb.InstallSnapshot: "InstallSnapshot", pb.Heartbeat: "Heartbeat",
	pb.HeartbeatResp: "HeartbeatResp", pb.ReadIndex: "ReadIndex", pb.ReadIndexResp: "ReadIndexResp",
	pb.LeaderTransfer: "LeaderTransfer", pb.TimeoutNow: "TimeoutNow",
	pb.RequestPreVote: "RequestPreVote", pb.RequestPreVoteResp: "RequestPreVoteResp",
	pb.RateLimit: "RateLimit", pb.Quiesce: "Quiesce",
}

type jEnt struct {
	Term uint64 `json:"term"`
	Typ  string `json:"typ"`
	Val  uint64 `json:"val"`
}

type jSnap struct {
	Index uint64   `json:"index"`
	Term  uint64   `json:"term"`
	V     []uint64 `json:"v"`
	NV    []uint64 `json:"nv"`
	W     []uint64 `json:"w"`
	RM    []uint64 `json:"rm"`
	Wit   bool     `json:"wit"`
}

type jMsg struct {
	Mtype  string `json:"mtype"`
	From   uint64 `json:"from"`
	To     uint64 `json:"to"`
	Term   uint64 `json:"term"`
	Lidx   uint64 `json:"lidx"`
	Lterm  uint64 `json:"lterm"`
	Commit uint64 `json:"commit"`
	Reject bool   `json:"reject"`
	Hint   uint64 `json:"hint"`
	Ents   []jEnt `json:"ents"`
	Snap   jSnap  `json:"snap"`
}

type jRem struct {
	ID    uint64 `json:"id"`
	Match uint64 `json:"match"`
	Next  uint64 `json:"next"`
	St    string `json:"st"`
	Si    uint64 `json:"si"`
	Act   bool   `json:"act"`
}

type jRi struct {
	Ctx   uint64   `json:"ctx"`
	Index uint64   `json:"index"`
	From  uint64   `json:"from"`
	Conf  []uint64 `json:"conf"`
}

type jRtr struct {
	Ctx   uint64 `json:"ctx"`
	Index uint64 `json:"index"`
}

type jMem struct {
	V  []uint64 `json:"v"`
	NV []uint64 `json:"nv"`
	W  []uint64 `json:"w"`
	RM []uint64 `json:"rm"`
}

type jNode struct {
	ID    uint64   `json:"id"`
	Up    bool     `json:"up"`
	Role  string   `json:"role"`
	Term  uint64   `json:"term"`
	Vote  uint64   `json:"vote"`
	Lead  uint64   `json:"lead"`
	Log   []jEnt   `json:"log"`
	Sidx  uint64   `json:"sidx"`
	Sterm uint64   `json:"sterm"`
	Com   uint64   `json:"com"`
	Proc  uint64   `json:"proc"`
	Rapp  uint64   `json:"rapp"`
	Vg    []uint64 `json:"vg"`
	Vr    []uint64 `json:"vr"`
	V     []uint64 `json:"V"`
	NV    []uint64 `json:"NV"`
	W     []uint64 `json:"W"`
	Rem   []jRem   `json:"rem"`
	Pcc   bool     `json:"pcc"`
	Xfer  uint64   `json:"xfer"`
	Riq   []jRi    `json:"riq"`
	Rtr   []jRtr   `json:"rtr"`
	DropE []uint64 `json:"dropE"`
	DropR []uint64 `json:"dropR"`
	Etick uint64   `json:"etick"`
	Htick uint64   `json:"htick"`
	Rto   uint64   `json:"rto"`
	Msgs  []jMsg   `json:"msgs"`
	Snap  jSnap    `json:"snap"`
	Dterm uint64   `json:"dterm"`
	Dvote uint64   `json:"dvote"`
	Dcom  uint64   `json:"dcom"`
	Dlog  []jEnt   `json:"dlog"`
	Dsidx uint64   `json:"dsidx"`
	Dster uint64   `json:"dsterm"`
	Dsnap jSnap    `json:"dsnap"`
	Aapp  uint64   `json:"aapp"`
	Mem   jMem     `json:"mem"`
	Aq    jSnap    `json:"aq"`
	Alist []jEnt   `json:"alist"`
	Kind  string   `json:"kind"`
}

func sortedKeys(m map[uint64]bool) []uint64 {
	r := make([]uint64, 0, len(m))
	for k, v := range m {
		if v {
			r = append(r, k)
		}
	}
	sort.Slice(r, func(i, j int) bool { return r[i] < r[j] })
	return r
}

func keysOfStr(m map[uint64]string) []uint64 {
	r := make([]uint64, 0, len(m))
	for k := range m {
		r = append(r, k)
	}
	sort.Slice(r, func(i, j int) bool { return r[i] < r[j] })
	return r
}

func ccVal(cc pb.ConfigChange) uint64 {
	var op uint64
	switch cc.Type {
	case pb.AddNode:
		op = opAddNode
	case pb.RemoveNode:
		op = opRemove
	case pb.AddNonVoting:
		op = opAddNonVoting
	case pb.AddWitness:
		op = opAddWitness
	}
	return op*100 + cc.ReplicaID
}

func projEnt(e pb.Entry) jEnt {
	switch e.Type {
	case pb.ConfigChangeEntry:
		var cc pb.ConfigChange
		pb.MustUnmarshal(&cc, e.Cmd)
		return jEnt{Term: e.Term, Typ: "CC", Val: ccVal(cc)}
	case pb.MetadataEntry:
		return jEnt{Term: e.Term, Typ: "Meta", Val: 0}
	default:
		var v uint64
		if len(e.Cmd) >= 8 {
			v = binary.LittleEndian.Uint64(e.Cmd)
		}
		return jEnt{Term: e.Term, Typ: "App", Val: v}
	}
}

func projEnts(es []pb.Entry) []jEnt {
	r := make([]jEnt, 0, len(es))
	for _, e := range es {
		r = append(r, projEnt(e))
	}
	return r
}

func projSnap(ss pb.Snapshot) jSnap {
	r := jSnap{Index: ss.Index, Term: ss.Term, V: keysOfStr(ss.Membership.Addresses),
		NV: keysOfStr(ss.Membership.NonVotings), W: keysOfStr(ss.Membership.Witnesses),
		RM: sortedKeys(ss.Membership.Removed), Wit: ss.Witness}
	return r
}

func projMsg(m pb.Message) jMsg {
	name, ok := mtypeNames[m.Type]
	if !ok {
		name = "T" + strconv.Itoa(int(m.Type))
	}
	return jMsg{Mtype: name, From: m.From, To: m.To, Term: m.Term, Lidx: m.LogIndex,
		Lterm: m.LogTerm, Commit: m.Commit, Reject: m.Reject, Hint: m.Hint,
		Ents: projEnts(m.Entries), Snap: projSnap(m.Snapshot)}
}

func msgKey(m pb.Message) string {
	b, _ := json.Marshal(projMsg(m))
	return string(b)
}

var roleNames = map[State]string{follower: "F", candidate: "C", preVoteCandidate: "P",
	leader: "L", nonVoting: "N", witness: "W"}

func projRem(out []jRem, m map[uint64]*remote) []jRem {
	for id, rp := range m {
		out = append(out, jRem{ID: id, Match: rp.match, Next: rp.next,
			St: []string{"Retry", "Wait", "Repl", "Snap"}[rp.state], Si: rp.snapshotIndex, Act: rp.active})
	}
	return out
}

func projMem(m vMem) jMem {
	return jMem{V: sortedKeys(m.v), NV: sortedKeys(m.nv), W: sortedKeys(m.w), RM: sortedKeys(m.rm)}
}

func (s *vSim) proj(n *vNode) jNode {
	j := jNode{ID: n.id, Up: n.up, Kind: n.kind, Aapp: n.applied, Mem: projMem(n.mem),
		Alist: projEnts(n.alist), Log: []jEnt{}, Vg: []uint64{}, Vr: []uint64{}, V: []uint64{},
		NV: []uint64{}, W: []uint64{}, Rem: []jRem{}, Riq: []jRi{}, Rtr: []jRtr{}, DropE: []uint64{},
		DropR: []uint64{}, Msgs: []jMsg{}, Role: "F", Rto: s.et}
	if n.aq != nil {
		j.Aq = projSnap(*n.aq)
	}
	j.Aq.fix()
	j.Snap.fix()
	db := n.db
	j.Dterm, j.Dvote, j.Dcom = db.state.Term, db.state.Vote, db.state.Commit
	j.Dlog = projEnts(db.entries)
	j.Dsidx, j.Dster = db.markerIndex, db.markerTerm
	j.Dsnap = projSnap(db.snapshot)
	if !n.up {
		return j
	}
	r := n.peer.raft
	j.Role = roleNames[r.state]
	j.Term, j.Vote, j.Lead = r.term, r.vote, r.leaderID
	first, last := r.log.firstIndex(), r.log.lastIndex()
	j.Sidx = first - 1
	t, err := r.log.term(j.Sidx)
	if err != nil {
		panic(err)
	}
	j.Sterm = t
	if last >= first {
		ents, err := r.log.getEntries(first, last+1, noLimit)
		if err != nil {
			panic(fmt.Sprintf("proj getEntries(%d,%d): %v", first, last+1, err))
		}
		j.Log = projEnts(ents)
	}
	j.Com, j.Proc, j.Rapp = r.log.committed, r.log.processed, r.applied
	for id, v := range r.votes {
		if v {
			j.Vg = append(j.Vg, id)
		} else {
			j.Vr = append(j.Vr, id)
		}
	}
	sort.Slice(j.Vg, func(a, b int) bool { return j.Vg[a] < j.Vg[b] })
	sort.Slice(j.Vr, func(a, b int) bool { return j.Vr[a] < j.Vr[b] })
	for id := range r.remotes {
		j.V = append(j.V, id)
	}
	for id := range r.nonVotings {
		j.NV = append(j.NV, id)
	}
	for id := range r.witnesses {
		j.W = append(j.W, id)
	}
	sort.Slice(j.V, func(a, b int) bool { return j.V[a] < j.V[b] })
	sort.Slice(j.NV, func(a, b int) bool { return j.NV[a] < j.NV[b] })
	sort.Slice(j.W, func(a, b int) bool { return j.W[a] < j.W[b] })
	j.Rem = projRem(j.Rem, r.remotes)
	j.Rem = projRem(j.Rem, r.nonVotings)
	j.Rem = projRem(j.Rem, r.witnesses)
	sort.Slice(j.Rem, func(a, b int) bool { return j.Rem[a].ID < j.Rem[b].ID })
	j.Pcc, j.Xfer = r.pendingConfigChange, r.leaderTransferTarget
	for _, ctx := range r.readIndex.queue {
		st := r.readIndex.pending[ctx]
		// read through reflection: the representation of the confirmation set is an
		// implementation detail (the properties use the delivered messages instead)
		conf := []uint64{}
		if cv := reflect.ValueOf(st).Elem().FieldByName("confirmed"); cv.IsValid() && cv.Kind() == reflect.Map {
			for _, kv := range cv.MapKeys() {
				conf = append(conf, kv.Uint())
			}
		}
		sort.Slice(conf, func(a, b int) bool { return conf[a] < conf[b] })
		j.Riq = append(j.Riq, jRi{Ctx: ctx.Low, Index: st.index, From: st.from, Conf: conf})
	}
	for _, rr := range r.readyToRead {
		j.Rtr = append(j.Rtr, jRtr{Ctx: rr.SystemCtx.Low, Index: rr.Index})
	}
	de := map[uint64]bool{}
	for _, e := range r.droppedEntries {
		de[projEnt(e).Val] = true
	}
	j.DropE = sortedKeys(de)
	dr := map[uint64]bool{}
	for _, c := range r.droppedReadIndexes {
		dr[c.Low] = true
	}
	j.DropR = sortedKeys(dr)
	j.Etick, j.Htick, j.Rto = r.electionTick, r.heartbeatTick, r.randomizedElectionTimeout
	seen := map[string]pb.Message{}
	keys := []string{}
	for _, m := range r.msgs {
		k := msgKey(m)
		if _, ok := seen[k]; !ok {
			seen[k] = m
			keys = append(keys, k)
		}
	}
	sort.Strings(keys) // broadcast order follows map iteration: canonical order for a reproducible trace
	for _, k := range keys {
		j.Msgs = append(j.Msgs, projMsg(seen[k]))
	}
	if r.log.inmem.snapshot != nil {
		j.Snap = projSnap(*r.log.inmem.snapshot)
	}
	j.Snap.fix()
	return j
}

func (s *jSnap) fix() {
	if s.V == nil {
		s.V = []uint64{}
	}
	if s.NV == nil {
		s.NV = []uint64{}
	}
	if s.W == nil {
		s.W = []uint64{}
	}
	if s.RM == nil {
		s.RM = []uint64{}
	}
}

// ---------------------------------------------------------------- trace output

type jEvent struct {
	T      int      `json:"t"`
	I      int      `json:"i"`
	A      string   `json:"a"`
	N      uint64   `json:"n"`
	M      *jMsg    `json:"m,omitempty"`
	Dup    bool     `json:"dup"`
	Val    uint64   `json:"val"`
	From   uint64   `json:"from"`
	Reject bool     `json:"reject"`
	Kind   string   `json:"kind"`
	Voters []uint64 `json:"voters"`
	Post   *jNode   `json:"post,omitempty"`
	Panic  string   `json:"panic,omitempty"`
}

func (s *vSim) emit(e jEvent, n *vNode) {
	e.T, e.I = s.tid, s.step
	s.step++
	if s.mute {
		return
	}
	if n != nil {
		p := s.proj(n)
		e.Post = &p
		e.N = n.id
	}
	if e.Voters == nil {
		e.Voters = []uint64{}
	}
	if e.M != nil {
		e.M.Snap.fix()
		if e.M.Ents == nil {
			e.M.Ents = []jEnt{}
		}
	}
	if s.sink != nil {
		s.sink(e)
		s.stats[e.A]++
		return
	}
	b, err := json.Marshal(e)
	if err != nil {
		panic(err)
	}
	s.out.Write(b)
	s.out.WriteByte('\n')
	s.stats[e.A]++
}

// ---------------------------------------------------------------- steps

func (s *vSim) boot(id uint64, voters []uint64) {
	n := &vNode{id: id, kind: "V", up: true, started: true, db: &vLogDB{}, mem: newVMem(), bootVoters: voters}
	s.nodes[id] = n
	addrs := []PeerAddress{}
	for _, v := range voters {
		addrs = append(addrs, PeerAddress{ReplicaID: v, Address: addrOf(v)})
	}
	n.peer = Launch(s.cfg(n), n.db, nil, addrs, true, true)
	s.fixRto(n)
	s.emit(jEvent{A: "Boot", Voters: voters}, n)
}

func (s *vSim) join(id uint64, kind string) {
	n := &vNode{id: id, kind: kind, up: true, started: true, db: &vLogDB{}, mem: newVMem()}
	s.nodes[id] = n
	n.peer = Launch(s.cfg(n), n.db, nil, nil, false, true)
	s.fixRto(n)
	s.emit(jEvent{A: "Join", Kind: kind}, n)
}

func (s *vSim) notify(n *vNode) { n.peer.NotifyRaftLastApplied(n.applied) }

func (s *vSim) tick(n *vNode) {
	s.notify(n)
	must(n.peer.Tick())
	s.fixRto(n)
	s.emit(jEvent{A: "Tick"}, n)
}

func must(err error) {
	if err != nil {
		panic(err)
	}
}

func (s *vSim) deliver(m pb.Message, dup bool) {
	n := s.nodes[m.To]
	k := msgKey(m)
	if !dup {
		delete(s.net, k)
	}
	pm := projMsg(m)
	if n == nil || !n.up {
		s.emit(jEvent{A: "Drop", M: &pm, Dup: dup}, nil)
		return
	}
	s.notify(n)
	m.Entries = append([]pb.Entry{}, m.Entries...)
	must(n.peer.Handle(m))
	s.fixRto(n)
	s.emit(jEvent{A: "Deliver", M: &pm, Dup: dup}, n)
}

func (s *vSim) drop(m pb.Message) {
	delete(s.net, msgKey(m))
	pm := projMsg(m)
	s.emit(jEvent{A: "Drop", M: &pm}, nil)
}

func valBytes(v uint64) []byte {
	b := make([]byte, 8)
	binary.LittleEndian.PutUint64(b, v)
	return b
}

func (s *vSim) propose(n *vNode, val uint64) {
	s.notify(n)
	must(n.peer.ProposeEntries([]pb.Entry{{Type: pb.ApplicationEntry, Cmd: valBytes(val)}}))
	s.fixRto(n)
	s.emit(jEvent{A: "Propose", Val: val}, n)
}

func (s *vSim) proposeCC(n *vNode, op uint64, id uint64) {
	cc := pb.ConfigChange{ReplicaID: id, Address: addrOf(id)}
	switch op {
	case opAddNode:
		cc.Type = pb.AddNode
	case opRemove:
		cc.Type = pb.RemoveNode
		cc.Address = ""
	case opAddNonVoting:
		cc.Type = pb.AddNonVoting
	case opAddWitness:
		cc.Type = pb.AddWitness
	}
	s.notify(n)
	must(n.peer.ProposeConfigChange(cc, 0))
	s.fixRto(n)
	s.emit(jEvent{A: "ProposeCC", Val: op*100 + id}, n)
}

func (s *vSim) readIndex(n *vNode, ctx uint64) {
	s.notify(n)
	must(n.peer.ReadIndex(pb.SystemCtx{Low: ctx, High: 7}))
	s.fixRto(n)
	s.emit(jEvent{A: "ReadIndex", Val: ctx}, n)
}

func (s *vSim) transfer(n *vNode, target uint64) {
	s.notify(n)
	must(n.peer.RequestLeaderTransfer(target))
	s.fixRto(n)
	s.emit(jEvent{A: "Transfer", Val: target}, n)
}

func (s *vSim) snapStatus(n *vNode, from uint64, reject bool) {
	s.notify(n)
	must(n.peer.ReportSnapshotStatus(from, reject))
	s.fixRto(n)
	s.emit(jEvent{A: "SnapStatus", From: from, Reject: reject}, n)
}

func (s *vSim) unreachable(n *vNode, from uint64) {
	s.notify(n)
	must(n.peer.ReportUnreachableNode(from))
	s.fixRto(n)
	s.emit(jEvent{A: "Unreachable", From: from}, n)
}

// ready is node.go's getUpdate / save / send / commit cycle
func (s *vSim) ready(n *vNode) {
	s.notify(n)
	ud, err := n.peer.GetUpdate(true, n.applied)
	must(err)
	if !pb.IsEmptySnapshot(ud.Snapshot) {
		must(n.db.ApplySnapshot(ud.Snapshot))
		ss := ud.Snapshot
		n.aq = &ss
		n.alist = nil
	}
	must(n.db.Append(ud.EntriesToSave))
	if !pb.IsEmptyState(ud.State) {
		n.db.SetState(ud.State)
	}
	lost := []pb.Message{}
	for _, m := range ud.Messages {
		// the wire copies: a message never shares memory with its sender
		m.Entries = append([]pb.Entry{}, m.Entries...)
		if s.blocked[[2]uint64{m.From, m.To}] {
			if _, ok := s.net[msgKey(m)]; !ok {
				lost = append(lost, m)
			}
		}
		s.net[msgKey(m)] = m
	}
	// entries committed after a restored snapshot may be handed out in the same Update
	for _, e := range ud.CommittedEntries {
		n.alist = append(n.alist, e)
	}
	n.peer.Commit(ud)
	s.fixRto(n)
	s.emit(jEvent{A: "Ready"}, n)
	for _, m := range lost {
		s.drop(m)
	}
}

func ccAccepted(m vMem, op, id uint64) bool {
	switch op {
	case opAddNode:
		return !m.rm[id] && !m.v[id] && !m.w[id]
	case opAddNonVoting, opAddWitness:
		return !m.rm[id] && !m.v[id] && !m.nv[id] && !m.w[id]
	case opRemove:
		return !(len(m.v) == 1 && m.v[id])
	}
	return false
}

func (s *vSim) applyOne(n *vNode) {
	if n.aq != nil {
		ss := *n.aq
		n.aq = nil
		n.applied = ss.Index
		n.mem = newVMem()
		for id := range ss.Membership.Addresses {
			n.mem.v[id] = true
		}
		for id := range ss.Membership.NonVotings {
			n.mem.nv[id] = true
		}
		for id := range ss.Membership.Witnesses {
			n.mem.w[id] = true
		}
		for id := range ss.Membership.Removed {
			n.mem.rm[id] = true
		}
		wasN := n.peer.raft.state == nonVoting
		must(n.peer.RestoreRemotes(ss))
		if wasN && n.peer.raft.state == follower {
			n.kind = "V"
		}
		s.fixRto(n)
		s.emit(jEvent{A: "Apply"}, n)
		return
	}
	e := n.alist[0]
	n.alist = n.alist[1:]
	if e.Index != n.applied+1 {
		panic(fmt.Sprintf("apply gap: applied %d next %d", n.applied, e.Index))
	}
	n.applied = e.Index
	if e.Type == pb.ConfigChangeEntry {
		var cc pb.ConfigChange
		pb.MustUnmarshal(&cc, e.Cmd)
		v := ccVal(cc)
		op, id := v/100, v%100
		if ccAccepted(n.mem, op, id) {
			if _, ok := s.firstKind[id]; !ok && op != opRemove {
				s.firstKind[id] = map[uint64]string{opAddNode: "V", opAddNonVoting: "N", opAddWitness: "W"}[op]
			}
			switch op {
			case opAddNode:
				n.mem.v[id] = true
				delete(n.mem.nv, id)
			case opAddNonVoting:
				n.mem.nv[id] = true
			case opAddWitness:
				n.mem.w[id] = true
			case opRemove:
				delete(n.mem.v, id)
				delete(n.mem.nv, id)
				delete(n.mem.w, id)
				n.mem.rm[id] = true
			}
			wasN := n.peer.raft.state == nonVoting
			must(n.peer.ApplyConfigChange(cc))
			if wasN && n.peer.raft.state == follower {
				n.kind = "V"
			}
		} else {
			must(n.peer.RejectConfigChange())
		}
	}
	s.fixRto(n)
	s.emit(jEvent{A: "Apply"}, n)
}

func (s *vSim) crash(n *vNode) {
	n.up = false
	n.peer = Peer{}
	n.alist = nil
	n.aq = nil
	n.applied = 0
	n.mem = newVMem()
	s.emit(jEvent{A: "Crash"}, n)
}

func (s *vSim) restart(n *vNode) {
	db := n.db
	if pb.IsEmptyState(db.state) && len(db.entries) == 0 && db.snapshot.Index == 0 && db.markerIndex == 0 {
		// nothing was ever saved: the NodeHost starts the replica as a new one again, from the
		// bootstrap record it saved before the first launch (node.startRaft: newNode)
		if len(n.bootVoters) > 0 {
			s.boot(n.id, n.bootVoters)
		} else {
			s.join(n.id, n.kind)
		}
		return
	}
	ss := db.snapshot
	if ss.Index > db.markerIndex {
		// the log reader starts at the recorded snapshot (node.replayLog)
		if ss.Index >= db.lastIndex() {
			db.entries = nil
		} else {
			db.entries = append([]pb.Entry{}, db.entries[ss.Index-db.markerIndex:]...)
		}
		db.markerIndex, db.markerTerm = ss.Index, ss.Term
	}
	n.applied = ss.Index
	n.mem = newVMem()
	for id := range ss.Membership.Addresses {
		n.mem.v[id] = true
	}
	for id := range ss.Membership.NonVotings {
		n.mem.nv[id] = true
	}
	for id := range ss.Membership.Witnesses {
		n.mem.w[id] = true
	}
	for id := range ss.Membership.Removed {
		n.mem.rm[id] = true
	}
	n.up = true
	n.lastRto = 0
	n.peer = Launch(s.cfg(n), n.db, nil, nil, false, false)
	s.fixRto(n)
	s.emit(jEvent{A: "Restart"}, n)
}

func memToPb(m vMem) pb.Membership {
	r := pb.Membership{Addresses: map[uint64]string{}, NonVotings: map[uint64]string{},
		Witnesses: map[uint64]string{}, Removed: map[uint64]bool{}}
	for id := range m.v {
		r.Addresses[id] = addrOf(id)
	}
	for id := range m.nv {
		r.NonVotings[id] = addrOf(id)
	}
	for id := range m.w {
		r.Witnesses[id] = addrOf(id)
	}
	for id := range m.rm {
		r.Removed[id] = true
	}
	return r
}

func (s *vSim) canSnapshot(n *vNode) bool {
	return n.up && n.aq == nil && n.applied > n.db.snapshot.Index &&
		n.applied > n.db.markerIndex && n.applied <= n.db.lastIndex() &&
		n.applied > n.peer.raft.log.firstIndex()-1
}

func (s *vSim) snapshot(n *vNode) {
	t, err := n.db.Term(n.applied)
	must(err)
	ss := pb.Snapshot{Index: n.applied, Term: t, Membership: memToPb(n.mem)}
	must(n.db.CreateSnapshot(ss))
	s.emit(jEvent{A: "Snapshot"}, n)
}

func (s *vSim) canCompact(n *vNode, i uint64) bool {
	return n.up && i > n.db.markerIndex && i <= n.db.snapshot.Index && i <= n.applied &&
		i <= n.db.lastIndex() && n.peer.raft.log.inmem.snapshot == nil &&
		i > n.peer.raft.log.firstIndex()-1
}

func (s *vSim) compact(n *vNode, i uint64) {
	must(n.db.Compact(i))
	s.emit(jEvent{A: "Compact", Val: i}, n)
}

// ---------------------------------------------------------------- random driver

func (s *vSim) sortedNet() []pb.Message {
	keys := make([]string, 0, len(s.net))
	for k := range s.net {
		keys = append(keys, k)
	}
	sort.Strings(keys)
	r := make([]pb.Message, 0, len(keys))
	for _, k := range keys {
		r = append(r, s.net[k])
	}
	return r
}

func (s *vSim) upNodes() []*vNode {
	r := []*vNode{}
	for _, id := range s.ids {
		if n := s.nodes[id]; n != nil && n.up {
			r = append(r, n)
		}
	}
	return r
}

func (s *vSim) leaders() []*vNode {
	r := []*vNode{}
	for _, n := range s.upNodes() {
		if n.peer.raft.state == leader {
			r = append(r, n)
		}
	}
	return r
}

type simOpts struct {
	scenarios bool
	steps     int
	maxN      int
	chaos     int // 0..100
	withCC    bool
	withSnap  bool
	crash     bool
}

// phase: a stretch of the schedule with a bias, so that the dangerous regions are
// reached much more often than under a uniform choice: an isolated (old) leader that
// keeps accepting proposals, a lagging follower that needs a snapshot, a replica that
// does not apply / does not save for a while, bursts of membership changes.
type phase struct {
	left     int
	isolated uint64 // replica cut off (0 = none)
	pairA    uint64 // a single link cut in both directions (0 = none): pairA <-> pairB
	pairB    uint64
	wDrop    int    // extra message loss during the phase
	delay    bool   // messages on cut links are kept (delivered after heal) rather than lost
	noApply  uint64 // replica whose apply worker is stalled
	noReady  uint64 // replica whose step worker does not get to save/send
	wPropose int
	wCC      int
	wSnap    int
	wTickOne uint64 // replica that is ticked preferentially
	wDeliver int
	wRead    int
	wXfer    int
}

func (s *vSim) newPhase(o simOpts) phase {
	ph := phase{left: 15 + s.rng.Intn(60), wPropose: 60, wCC: 15, wSnap: 8, wDeliver: 250, wRead: 40, wXfer: 6}
	ups := s.upNodes()
	pick := func() uint64 {
		if len(ups) == 0 {
			return 0
		}
		return ups[s.rng.Intn(len(ups))].id
	}
	pickLeader := func() uint64 {
		if ls := s.leaders(); len(ls) > 0 && s.rng.Intn(10) < 7 {
			return ls[s.rng.Intn(len(ls))].id
		}
		return pick()
	}
	if s.rng.Intn(100) >= o.chaos {
		return ph
	}
	switch s.rng.Intn(10) {
	case 8, 9: // only the link between the leader and one follower is cut; that follower can still
		// reach the others (pre-vote / vote traffic flows, part of it gets lost), the leader goes on
		ph.pairA = pickLeader()
		ph.pairB = pick()
		ph.wPropose = 120
		ph.wDrop = 60
		ph.wTickOne = ph.pairB
		ph.left += 20
	case 0, 1: // isolate (preferably the leader), it keeps getting proposals
		ph.isolated = pickLeader()
		ph.delay = s.rng.Intn(2) == 0
		ph.wPropose = 120
		ph.wTickOne = pick()
	case 2: // lagging follower: isolate a non-leader, push the log forward, snapshot + compact
		ph.isolated = pick()
		ph.delay = s.rng.Intn(3) == 0
		ph.wPropose = 150
		ph.wSnap = 60
		ph.left += 30
	case 3: // apply lag + membership changes + transfers
		ph.noApply = pick()
		ph.wCC = 80
		ph.wXfer = 40
	case 4: // batching: a replica handles many inputs before it saves/sends
		ph.noReady = pick()
		ph.wDeliver = 400
	case 5: // election storm
		ph.wTickOne = pick()
		ph.wDeliver = 120
	case 6: // read heavy with a cut-off leader
		ph.isolated = pickLeader()
		ph.delay = true
		ph.wRead = 200
	case 7: // membership burst
		ph.wCC = 120
		ph.noApply = pick()
	}
	return ph
}

func (s *vSim) linkCut(ph *phase, from, to uint64) bool {
	if ph.pairA != 0 && ph.pairA != ph.pairB &&
		((from == ph.pairA && to == ph.pairB) || (from == ph.pairB && to == ph.pairA)) {
		return true
	}
	return ph.isolated != 0 && (from == ph.isolated || to == ph.isolated)
}

// one randomized schedule
func (s *vSim) randomRun(o simOpts) {
	s.emit(jEvent{A: "Init"}, nil)
	nInit := 1 + s.rng.Intn(3)
	if s.rng.Intn(4) > 0 {
		nInit = 3
	}
	if s.rng.Intn(6) == 0 {
		nInit = 5
	}
	voters := []uint64{}
	for i := 1; i <= nInit; i++ {
		voters = append(voters, uint64(i))
	}
	scen := 0
	if o.scenarios && s.tid%8 >= 5 {
		// an adversarial prefix (attack schedule) instead of a random start, then random steps
		scen = s.tid%8 - 4
		nInit = 3
		voters = []uint64{1, 2, 3}
	}
	if o.scenarios && s.tid%16 == 4 {
		scen = 4
		nInit = 5
		voters = []uint64{1, 2, 3, 4, 5}
	}
	if o.scenarios && s.tid%16 == 12 {
		scen = 5
		if s.tid%32 == 28 {
			scen = 6
		}
		nInit = 3
		voters = []uint64{1, 2, 3}
	}
	if o.scenarios && (s.tid%64 == 47 || s.tid%64 == 63) {
		scen = 11
		nInit = 3
		voters = []uint64{1, 2, 3}
	}
	if o.scenarios && s.tid%64 == 55 {
		scen = 13
		nInit = 6
		voters = []uint64{1, 2, 3, 4, 5, 6}
		s.ids = []uint64{1, 2, 3, 4, 5, 6}
	}
	if o.scenarios && s.tid%128 == 71 {
		scen = 12
		nInit = 3
		voters = []uint64{1, 2, 3}
	}
	if o.scenarios && s.tid%64 == 23 {
		scen = 8
		nInit = 3
		voters = []uint64{1, 2, 3}
	}
	if o.scenarios && s.tid%64 == 15 {
		scen = 9
		nInit = 3
		voters = []uint64{1, 2, 3}
	}
	if o.scenarios && s.tid%64 == 31 {
		scen = 10
		nInit = 3
		voters = []uint64{1, 2, 3}
	}
	if o.scenarios && s.tid%64 == 38 {
		scen = 14
		nInit = 2
		voters = []uint64{1, 2}
	}
	if o.scenarios && s.tid%64 == 7 && s.tid%128 != 71 {
		scen = 7
		nInit = 3
		voters = []uint64{1, 2, 3}
	}
	for _, id := range voters {
		s.boot(id, voters)
	}
	nextID := uint64(nInit + 1)
	if scen > 0 {
		nextID = s.scenario(scen, nextID)
	}
	ph := phase{left: 20 + s.rng.Intn(40), wPropose: 60, wCC: 15, wSnap: 8, wDeliver: 250, wRead: 40, wXfer: 6}
	for s.step < o.steps {
		if ph.left <= 0 {
			ph = s.newPhase(o)
		}
		ph.left--
		ups := s.upNodes()
		if len(ups) == 0 {
			downs := []*vNode{}
			for _, id := range s.ids {
				if n := s.nodes[id]; n != nil && n.started && !n.up {
					downs = append(downs, n)
				}
			}
			if len(downs) == 0 {
				return
			}
			s.restart(downs[s.rng.Intn(len(downs))])
			continue
		}
		// messages on cut links: lost unless the phase delays them
		deliverable := []pb.Message{}
		for _, m := range s.sortedNet() {
			if s.linkCut(&ph, m.From, m.To) {
				if !ph.delay {
					s.drop(m)
				}
				continue
			}
			deliverable = append(deliverable, m)
		}
		wTick, wReady, wApply := 180, 230, 140
		wDrop, wCrash, wJoin, wStatus := 0, 0, 10, 6
		chaos := s.rng.Intn(100) < o.chaos
		wDrop += ph.wDrop
		if chaos {
			wDrop += 25
			if o.crash {
				wCrash = 15
			}
		}
		wCC, wSnap := 0, 0
		if o.withCC {
			wCC = ph.wCC
		}
		if o.withSnap {
			wSnap = ph.wSnap
		}
		ws := []int{ph.wDeliver, wReady, wApply, wTick, ph.wPropose, ph.wRead, wDrop, wCrash, wCC, wJoin, wSnap, ph.wXfer, wStatus}
		tot := 0
		for _, w := range ws {
			tot += w
		}
		c := s.rng.Intn(tot)
		k := 0
		for c >= ws[k] {
			c -= ws[k]
			k++
		}
		switch k {
		case 0: // deliver
			if len(deliverable) > 0 {
				m := deliverable[s.rng.Intn(len(deliverable))]
				dup := chaos && s.rng.Intn(6) == 0
				s.deliver(m, dup)
			}
		case 1: // ready
			cands := []*vNode{}
			for _, n := range ups {
				if n.id != ph.noReady && n.peer.HasUpdate(true) {
					cands = append(cands, n)
				}
			}
			if len(cands) > 0 {
				s.ready(cands[s.rng.Intn(len(cands))])
			}
		case 2: // apply
			cands := []*vNode{}
			for _, n := range ups {
				if n.id != ph.noApply && (n.aq != nil || len(n.alist) > 0) {
					cands = append(cands, n)
				}
			}
			if len(cands) > 0 {
				s.applyOne(cands[s.rng.Intn(len(cands))])
			}
		case 3: // tick
			n := ups[s.rng.Intn(len(ups))]
			if ph.wTickOne != 0 && s.rng.Intn(3) > 0 {
				if x := s.nodes[ph.wTickOne]; x != nil && x.up {
					n = x
				}
			}
			cnt := 1
			if s.rng.Intn(5) == 0 {
				cnt = 1 + s.rng.Intn(int(s.et))
			}
			for i := 0; i < cnt; i++ {
				s.tick(n)
			}
		case 4: // propose
			n := ups[s.rng.Intn(len(ups))]
			if ls := s.leaders(); len(ls) > 0 && s.rng.Intn(4) > 0 {
				n = ls[s.rng.Intn(len(ls))]
			}
			if x := s.nodes[ph.isolated]; x != nil && x.up && s.rng.Intn(2) == 0 {
				n = x
			}
			if n.peer.raft.state != witness {
				s.nextVal++
				s.propose(n, s.nextVal)
			}
		case 5: // read index
			n := ups[s.rng.Intn(len(ups))]
			if x := s.nodes[ph.isolated]; x != nil && x.up && s.rng.Intn(2) == 0 {
				n = x
			}
			if n.peer.raft.state != witness {
				s.nextCtx++
				s.readIndex(n, s.nextCtx)
			}
		case 6: // drop
			if len(deliverable) > 0 {
				s.drop(deliverable[s.rng.Intn(len(deliverable))])
			}
		case 7: // crash / restart
			downs := []*vNode{}
			for _, id := range s.ids {
				if n := s.nodes[id]; n != nil && n.started && !n.up {
					downs = append(downs, n)
				}
			}
			if len(downs) > 0 && s.rng.Intn(2) == 0 {
				s.restart(downs[s.rng.Intn(len(downs))])
			} else {
				s.crash(ups[s.rng.Intn(len(ups))])
			}
		case 8: // config change
			n := ups[s.rng.Intn(len(ups))]
			if ls := s.leaders(); len(ls) > 0 && s.rng.Intn(5) > 0 {
				n = ls[s.rng.Intn(len(ls))]
			}
			if n.peer.raft.state == witness {
				break
			}
			r := s.rng.Intn(10)
			switch {
			case r < 5 && int(nextID) <= o.maxN:
				op := []uint64{opAddNode, opAddNode, opAddNonVoting, opAddWitness}[s.rng.Intn(4)]
				id := nextID
				nextID++
				s.proposeCC(n, op, id)
			case r < 7:
				s.proposeCC(n, opAddNode, s.ids[s.rng.Intn(len(s.ids))])
			case r < 9:
				s.proposeCC(n, opRemove, s.ids[s.rng.Intn(len(s.ids))])
			default:
				s.proposeCC(n, []uint64{opAddNonVoting, opAddWitness}[s.rng.Intn(2)], s.ids[s.rng.Intn(len(s.ids))])
			}
		case 9: // a replica is started with the role under which the shard admitted it
			for _, id := range s.ids {
				if kd, ok := s.firstKind[id]; ok && s.nodes[id] == nil {
					s.join(id, kd)
					break
				}
			}
		case 10: // snapshot / compaction
			n := ups[s.rng.Intn(len(ups))]
			if ls := s.leaders(); len(ls) > 0 && s.rng.Intn(2) == 0 {
				n = ls[s.rng.Intn(len(ls))]
			}
			if s.canSnapshot(n) && s.rng.Intn(2) == 0 {
				s.snapshot(n)
			} else if n.db.snapshot.Index > n.db.markerIndex {
				i := n.db.snapshot.Index
				if s.rng.Intn(3) == 0 {
					i = n.db.markerIndex + 1 + uint64(s.rng.Intn(int(n.db.snapshot.Index-n.db.markerIndex)))
				}
				if s.canCompact(n, i) {
					s.compact(n, i)
				}
			}
		case 11: // leader transfer
			n := ups[s.rng.Intn(len(ups))]
			if ls := s.leaders(); len(ls) > 0 && s.rng.Intn(4) > 0 {
				n = ls[s.rng.Intn(len(ls))]
			}
			if n.peer.raft.state == leader || n.peer.raft.state == follower {
				s.transfer(n, s.ids[s.rng.Intn(len(s.ids))])
			}
		case 12: // snapshot status / unreachable reports at a leader
			if ls := s.leaders(); len(ls) > 0 {
				n := ls[s.rng.Intn(len(ls))]
				from := s.ids[s.rng.Intn(len(s.ids))]
				if from != n.id {
					if s.rng.Intn(3) > 0 {
						s.snapStatus(n, from, s.rng.Intn(3) == 0)
					} else {
						s.unreachable(n, from)
					}
				}
			}
		}
	}
}

// ---------------------------------------------------------------- attack schedules
//
// Scripted adversarial prefixes, one per safety / liveness mechanism that random schedules reach
// too rarely (DESIGN.md, attack replay). Each is a legal schedule: on correct code the guarded
// step is refused and the run goes on normally; on code where the mechanism is broken the
// property monitors of RaftSys.tla see the violation on the real state a few steps later.

// settle runs fair rounds (tick, deliver, save/send, apply) with a link filter and an apply filter
func (s *vSim) settle(rounds int, cut func(pb.Message) bool, noApply map[uint64]bool, noTick map[uint64]bool, until func() bool) {
	for i := 0; i < rounds; i++ {
		if until != nil && until() {
			return
		}
		for _, n := range s.upNodes() {
			if !noTick[n.id] {
				s.tick(n)
			}
		}
		for pass := 0; pass < 3; pass++ {
			for _, m := range s.sortedNet() {
				if _, ok := s.net[msgKey(m)]; !ok {
					continue
				}
				if s.hold != nil && s.hold(m) {
					continue // stays in flight
				}
				if cut != nil && cut(m) {
					s.drop(m)
					continue
				}
				s.deliver(m, false)
			}
			for _, n := range s.upNodes() {
				if n.peer.HasUpdate(true) {
					s.ready(n)
				}
				for !noApply[n.id] && (n.aq != nil || len(n.alist) > 0) {
					s.applyOne(n)
				}
			}
		}
	}
}

func (s *vSim) leaderNode() *vNode {
	var best *vNode
	for _, n := range s.leaders() {
		if best == nil || n.peer.raft.term > best.peer.raft.term {
			best = n
		}
	}
	return best
}

// scenario4 (five voters): a leader replicates a tail to one follower only (acknowledged, not
// committed), is cut off, the others elect a new leader that overwrites that tail everywhere,
// the old leader comes back, has its tail overwritten as well and is then elected again. Its
// progress records of the first reign must be gone: with one fresh acknowledgement it must not
// be able to commit its new entry (it would be on two of five replicas only, and the other
// three can commit something else at that index).
func (s *vSim) scenario4() {
	s.settle(40, nil, nil, nil, func() bool { return s.leaderNode() != nil && s.leaderNode().applied >= 6 })
	l := s.leaderNode()
	if l == nil || len(s.upNodes()) != 5 {
		return
	}
	rest := []*vNode{}
	for _, n := range s.upNodes() {
		if n.id != l.id {
			rest = append(rest, n)
		}
	}
	a, b, c, d := rest[0], rest[1], rest[2], rest[3]
	only := func(ids ...uint64) map[uint64]bool { // everybody except ids does not tick
		m := map[uint64]bool{}
		for _, n := range s.upNodes() {
			m[n.id] = true
		}
		for _, id := range ids {
			delete(m, id)
		}
		return m
	}
	// 1: only the link l <-> a works; a acknowledges a tail that is never committed
	cut1 := func(m pb.Message) bool {
		return !((m.From == l.id && m.To == a.id) || (m.From == a.id && m.To == l.id))
	}
	for i := 0; i < 4; i++ {
		if l.peer.raft.state != leader {
			return
		}
		s.nextVal++
		s.propose(l, s.nextVal)
		s.settle(1, cut1, nil, only(), nil)
	}
	// 2: l is cut off; b is elected by c and d (a's log is longer, it refuses) and overwrites a's tail
	cut2 := func(m pb.Message) bool { return m.From == l.id || m.To == l.id }
	s.settle(40, cut2, nil, only(b.id), func() bool { return b.peer.raft.state == leader })
	if b.peer.raft.state != leader {
		return
	}
	s.settle(4, cut2, nil, only(b.id), nil)
	// 3: l comes back, follows b, its tail is overwritten too
	s.settle(4, nil, nil, only(b.id), func() bool {
		return l.peer.raft.state == follower && l.peer.raft.log.lastIndex() == b.peer.raft.log.lastIndex()
	})
	// 4: b is cut off, l is elected again
	cut4 := func(m pb.Message) bool { return m.From == b.id || m.To == b.id }
	s.settle(40, cut4, nil, only(l.id), func() bool { return l.peer.raft.state == leader })
	if l.peer.raft.state != leader {
		return
	}
	// 5: only c hears from l: one fresh acknowledgement
	cut5 := func(m pb.Message) bool {
		return !((m.From == l.id && m.To == c.id) || (m.From == c.id && m.To == l.id))
	}
	s.settle(3, cut5, nil, only(), nil)
	// 6: l and c are cut off, the other three elect a leader and commit at the same index
	cut6 := func(m pb.Message) bool {
		return m.From == l.id || m.To == l.id || m.From == c.id || m.To == c.id
	}
	s.settle(40, cut6, nil, only(d.id), func() bool { return d.peer.raft.state == leader })
	s.settle(4, cut6, nil, only(d.id), nil)
}

// scenario5 (three voters, two non-voting members): the leader loses both other voters but
// keeps hearing from the non-voting members. With CheckQuorum it must step down at its next
// quorum check - non-voting members never count - while the two voters elect a new leader.
func (s *vSim) scenario5(nextID uint64) uint64 {
	s.settle(40, nil, nil, nil, func() bool { return s.leaderNode() != nil && s.leaderNode().applied >= 4 })
	l := s.leaderNode()
	if l == nil {
		return nextID
	}
	for _, add := range []uint64{nextID, nextID + 1} {
		s.proposeCC(l, opAddNonVoting, add)
		s.settle(6, nil, nil, nil, nil)
		if _, ok := s.firstKind[add]; ok && s.nodes[add] == nil {
			s.join(add, "N")
		}
		s.settle(6, nil, nil, nil, nil)
	}
	nv := map[uint64]bool{nextID: true, nextID + 1: true}
	nextID += 2
	if l.peer.raft.state != leader {
		return nextID
	}
	cut := func(m pb.Message) bool {
		// l only reaches (and is reached by) the non-voting members
		return (m.From == l.id && !nv[m.To]) || (m.To == l.id && !nv[m.From])
	}
	for i := 0; i < 6; i++ {
		if l.peer.raft.state == leader && i%2 == 0 {
			s.nextVal++
			s.propose(l, s.nextVal)
		}
		if l.peer.raft.state == leader && i%2 == 1 {
			// a linearizable read on the cut-off leader: without CheckQuorum it still believes it
			// leads, and only the non-voting members answer its heartbeats - the read must not complete
			s.nextCtx++
			s.readIndex(l, s.nextCtx)
		}
		// whoever leads the two other voters commits new entries meanwhile
		for _, n := range s.upNodes() {
			if n.id != l.id && n.peer.raft.state == leader {
				s.nextVal++
				s.propose(n, s.nextVal)
			}
		}
		s.settle(int(s.et), cut, nil, nil, nil)
	}
	return nextID
}

// scenario6 (three voters): the leader accepts a membership change that never leaves it, is
// deposed, has the entry overwritten and is elected again. It must then accept membership
// changes again (the "one change in flight" flag belongs to the lost entry).
func (s *vSim) scenario6(nextID uint64) uint64 {
	s.settle(40, nil, nil, nil, func() bool { return s.leaderNode() != nil && s.leaderNode().applied >= 4 })
	l := s.leaderNode()
	if l == nil {
		return nextID
	}
	var b *vNode
	for _, n := range s.upNodes() {
		if n.id != l.id {
			b = n
			break
		}
	}
	only := func(ids ...uint64) map[uint64]bool {
		m := map[uint64]bool{}
		for _, n := range s.upNodes() {
			m[n.id] = true
		}
		for _, id := range ids {
			delete(m, id)
		}
		return m
	}
	all := func(m pb.Message) bool { return m.From == l.id || m.To == l.id }
	s.proposeCC(l, opAddNonVoting, nextID)
	s.settle(1, all, nil, only(), nil)
	// the others elect b, which commits in its term
	s.settle(40, all, nil, only(b.id), func() bool { return b.peer.raft.state == leader })
	if b.peer.raft.state != leader {
		return nextID
	}
	s.nextVal++
	s.propose(b, s.nextVal)
	s.settle(4, all, nil, only(b.id), nil)
	// l comes back and follows b: the membership change entry is overwritten
	s.settle(4, nil, nil, only(b.id), func() bool {
		return l.peer.raft.state == follower && l.peer.raft.log.lastIndex() == b.peer.raft.log.lastIndex()
	})
	// b is cut off, l is elected again
	cutb := func(m pb.Message) bool { return m.From == b.id || m.To == b.id }
	s.settle(40, cutb, nil, only(l.id), func() bool { return l.peer.raft.state == leader })
	s.settle(3, nil, nil, only(l.id), nil)
	if l.peer.raft.state == leader {
		// a membership change submitted now must go through
		s.proposeCC(l, opAddNonVoting, nextID)
		s.settle(6, nil, nil, only(l.id), nil)
		if _, ok := s.firstKind[nextID]; ok && s.nodes[nextID] == nil {
			s.join(nextID, "N")
		}
	}
	return nextID + 1
}

// scenario7 (three voters): a witness joins, so that later a majority can consist of two voters
// and the witness (the heal phase of these traces keeps one voter down).
func (s *vSim) scenario7(nextID uint64) uint64 {
	s.settle(40, nil, nil, nil, func() bool { return s.leaderNode() != nil && s.leaderNode().applied >= 4 })
	l := s.leaderNode()
	if l == nil {
		return nextID
	}
	s.proposeCC(l, opAddWitness, nextID)
	s.settle(8, nil, nil, nil, nil)
	if _, ok := s.firstKind[nextID]; ok && s.nodes[nextID] == nil {
		s.join(nextID, "W")
	}
	s.settle(8, nil, nil, nil, nil)
	// a read on the leader while it reaches one other voter only: two of the four voting members (three voters
	// and the witness) are no quorum, the read must stay pending
	if l := s.leaderNode(); l != nil && len(l.peer.raft.witnesses) == 1 && len(l.peer.raft.remotes) == 3 {
		var a *vNode
		for _, n := range s.upNodes() {
			if n.id != l.id && n.kind == "V" {
				a = n
				break
			}
		}
		if a != nil {
			side := map[uint64]bool{l.id: true, a.id: true}
			split := func(m pb.Message) bool { return side[m.From] != side[m.To] }
			noTick := map[uint64]bool{}
			for _, n := range s.upNodes() {
				if n.id != l.id {
					noTick[n.id] = true
				}
			}
			s.nextCtx++
			s.readIndex(l, s.nextCtx)
			s.settle(3, split, nil, noTick, nil)
			s.settle(4, nil, nil, nil, nil)
		}
	}
	return nextID + 1
}

// scenario8 (three voters): a leadership transfer whose TimeoutNow message is delayed beyond the
// transfer time-out. Meanwhile the leader goes on and commits entries the target never sees. When
// the stale TimeoutNow finally arrives the target campaigns at once (transfer flavour of
// RequestVote); the others must still refuse it - its log lacks committed entries.
func (s *vSim) scenario8() {
	s.settle(40, nil, nil, nil, func() bool { return s.leaderNode() != nil && s.leaderNode().applied >= 4 })
	l := s.leaderNode()
	if l == nil {
		return
	}
	var tgt *vNode
	for _, n := range s.upNodes() {
		if n.id != l.id {
			tgt = n
			break
		}
	}
	if tgt == nil {
		return
	}
	quiet := map[uint64]bool{tgt.id: true} // the target's own timer does not fire meanwhile
	s.hold = func(m pb.Message) bool { return m.Type == pb.TimeoutNow && m.To == tgt.id }
	toTgt := func(m pb.Message) bool { return m.To == tgt.id || m.From == tgt.id }
	s.transfer(l, tgt.id)
	// the transfer times out on the leader, then it commits entries with the third replica
	for i := 0; i < 3*int(s.et); i++ {
		if l.peer.raft.state != leader {
			break
		}
		if i > int(s.et)+1 && i%2 == 0 {
			s.nextVal++
			s.propose(l, s.nextVal)
		}
		s.settle(1, toTgt, nil, quiet, nil)
	}
	// the delayed TimeoutNow arrives
	s.hold = nil
	s.settle(3, nil, nil, quiet, nil)
	s.settle(2*int(s.et), nil, nil, nil, nil)
}

// scenario9 (three voters): a read A on the leader, whose confirmation round is answered but the
// answer is delayed; the leader is cut off and replaced, the others commit a write; a second read
// B arrives on the old leader (its commit index has not moved, so B records the same index as A);
// then the delayed answer for A arrives. It confirms A - and nothing that was queued after A.
func (s *vSim) scenario9() {
	s.settle(40, nil, nil, nil, func() bool { return s.leaderNode() != nil && s.leaderNode().applied >= 4 })
	l := s.leaderNode()
	if l == nil {
		return
	}
	var b *vNode
	for _, n := range s.upNodes() {
		if n.id != l.id {
			b = n
			break
		}
	}
	only := func(ids ...uint64) map[uint64]bool {
		m := map[uint64]bool{}
		for _, n := range s.upNodes() {
			m[n.id] = true
		}
		for _, id := range ids {
			delete(m, id)
		}
		return m
	}
	s.hold = func(m pb.Message) bool { return m.Type == pb.HeartbeatResp && m.To == l.id && m.Hint != 0 }
	s.nextCtx++
	s.readIndex(l, s.nextCtx)
	s.settle(1, nil, nil, only(), nil) // the heartbeats with the hint are answered, the answers wait
	// l is cut off (it does not tick: it keeps believing it leads), b is elected and commits
	cutl := func(m pb.Message) bool { return m.From == l.id || m.To == l.id }
	s.settle(40, cutl, nil, only(b.id), func() bool { return b.peer.raft.state == leader })
	if b.peer.raft.state != leader {
		s.hold = nil
		return
	}
	s.nextVal++
	s.propose(b, s.nextVal)
	s.settle(4, cutl, nil, only(b.id), nil)
	// the second read on the old leader
	if l.peer.raft.state == leader {
		s.nextCtx++
		s.readIndex(l, s.nextCtx)
		s.settle(1, cutl, nil, only(), nil)
	}
	// the delayed answers arrive (nothing else reaches l yet)
	s.hold = nil
	notResp := func(m pb.Message) bool {
		return (m.From == l.id || m.To == l.id) && !(m.Type == pb.HeartbeatResp && m.To == l.id)
	}
	s.settle(2, notResp, nil, only(), nil)
	s.settle(2*int(s.et), nil, nil, nil, nil)
}

// scenario10 (three voters): a deposed leader holds a suffix that was never committed; the new
// leader commits other entries at those indexes, takes a snapshot that covers them and compacts its
// log. After the heal it can only send the snapshot. The old leader's log reaches the snapshot
// index - with entries of another term: it must drop them and restore, not commit them.
func (s *vSim) scenario10() {
	s.settle(40, nil, nil, nil, func() bool { return s.leaderNode() != nil && s.leaderNode().applied >= 4 })
	l := s.leaderNode()
	if l == nil {
		return
	}
	var b *vNode
	for _, n := range s.upNodes() {
		if n.id != l.id {
			b = n
			break
		}
	}
	only := func(ids ...uint64) map[uint64]bool {
		m := map[uint64]bool{}
		for _, n := range s.upNodes() {
			m[n.id] = true
		}
		for _, id := range ids {
			delete(m, id)
		}
		return m
	}
	cutl := func(m pb.Message) bool { return m.From == l.id || m.To == l.id }
	// the cut-off leader appends a suffix nobody else sees
	for i := 0; i < 5+s.rng.Intn(2); i++ { // longer than what the new leader will have at its snapshot
		s.nextVal++
		s.propose(l, s.nextVal)
		s.settle(1, cutl, nil, only(), nil)
	}
	// b is elected and commits at least as many entries with the third replica
	s.settle(40, cutl, nil, only(b.id), func() bool { return b.peer.raft.state == leader })
	if b.peer.raft.state != leader {
		return
	}
	for i := 0; i < 2; i++ {
		s.nextVal++
		s.propose(b, s.nextVal)
		s.settle(2, cutl, nil, only(b.id), nil)
	}
	// snapshot and compaction on the new leader, up to what it applied
	if s.canSnapshot(b) {
		s.snapshot(b)
		if i := b.db.snapshot.Index; s.canCompact(b, i) {
			s.compact(b, i)
		}
	}
	// heal: the old leader can only be brought up to date by the snapshot
	s.settle(3*int(s.et), nil, nil, only(b.id), nil)
	s.settle(int(s.et), nil, nil, nil, nil)
}

// scenario11 (three voters): a leader appends a membership change that reaches nobody, loses power and
// comes back; its log store still holds the entry (not committed, so not in the in-memory part of the log
// after the restart). It is the only replica whose timer runs, wins the election with its longer log and
// becomes leader with that change pending: a second membership change submitted at once must be dropped.
func (s *vSim) scenario11(nextID uint64) uint64 {
	s.settle(40, nil, nil, nil, func() bool { return s.leaderNode() != nil && s.leaderNode().applied >= 4 })
	l := s.leaderNode()
	if l == nil {
		return nextID
	}
	only := func(ids ...uint64) map[uint64]bool {
		m := map[uint64]bool{}
		for _, n := range s.upNodes() {
			m[n.id] = true
		}
		for _, id := range ids {
			delete(m, id)
		}
		return m
	}
	all := func(m pb.Message) bool { return m.From == l.id || m.To == l.id }
	s.proposeCC(l, opAddNonVoting, nextID)
	s.settle(1, all, nil, only(), nil)
	s.crash(l)
	s.restart(l)
	// nobody else campaigns; the restarted replica times out and is elected
	s.settle(4*int(s.et), nil, nil, only(l.id), func() bool { return l.peer.raft.state == leader })
	if l.peer.raft.state != leader {
		return nextID
	}
	s.proposeCC(l, opAddNonVoting, nextID+1)
	s.settle(8, nil, nil, nil, nil)
	for _, id := range []uint64{nextID, nextID + 1} {
		if _, ok := s.firstKind[id]; ok && s.nodes[id] == nil && len(s.nodes) < 5 {
			s.join(id, "N")
		}
	}
	s.settle(4, nil, nil, nil, nil)
	return nextID + 2
}

// scenario12 (three voters): a witness joins; one follower is cut off; the witness is removed again, the
// leader takes a snapshot of the new membership and compacts its log; after the heal the follower can only be
// brought up to date by that snapshot. The membership it uses afterwards must be the snapshot's: no witness
// (a witness it still counted would be part of its quorums although it is no member any more).
func (s *vSim) scenario12(nextID uint64) uint64 {
	s.settle(40, nil, nil, nil, func() bool { return s.leaderNode() != nil && s.leaderNode().applied >= 4 })
	l := s.leaderNode()
	if l == nil {
		return nextID
	}
	s.proposeCC(l, opAddWitness, nextID)
	s.settle(8, nil, nil, nil, nil)
	if _, ok := s.firstKind[nextID]; !ok || s.nodes[nextID] != nil {
		return nextID + 1
	}
	s.join(nextID, "W")
	s.settle(8, nil, nil, nil, nil)
	l = s.leaderNode()
	if l == nil {
		return nextID + 1
	}
	var f *vNode
	for _, n := range s.upNodes() {
		if n.id != l.id && n.kind == "V" {
			f = n
			break
		}
	}
	if f == nil {
		return nextID + 1
	}
	only := func(ids ...uint64) map[uint64]bool {
		m := map[uint64]bool{}
		for _, n := range s.upNodes() {
			m[n.id] = true
		}
		for _, id := range ids {
			delete(m, id)
		}
		return m
	}
	cutf := func(m pb.Message) bool { return m.From == f.id || m.To == f.id }
	s.proposeCC(l, opRemove, nextID)
	s.settle(6, cutf, nil, only(l.id), nil)
	for i := 0; i < 2; i++ {
		s.nextVal++
		s.propose(l, s.nextVal)
		s.settle(2, cutf, nil, only(l.id), nil)
	}
	if l.peer.raft.state == leader && s.canSnapshot(l) {
		s.snapshot(l)
		if i := l.db.snapshot.Index; s.canCompact(l, i) {
			s.compact(l, i)
		}
	}
	// heal: only the leader's timer runs, the follower is sent the snapshot
	s.settle(3*int(s.et), nil, nil, only(l.id), nil)
	s.settle(int(s.et), nil, nil, nil, nil)
	return nextID + 1
}

// scenario13 (six voters): the removal of a voter is committed and applied on three replicas while the leader
// and one follower lag behind with the apply; the shard splits into {leader, follower, removed replica} and
// the other three, which elect a leader among the five remaining members and complete a write. A read is then
// issued on the old leader: the removed replica and the follower confirm it, two of a quorum of four. When the
// old leader applies the removal its quorum shrinks to three - the confirmation of the replica that is no
// member any more must not count, the read has to stay pending (only two members of five vouch for the leader).
func (s *vSim) scenario13() {
	s.settle(60, nil, nil, nil, func() bool { return s.leaderNode() != nil && s.leaderNode().applied >= 7 })
	l := s.leaderNode()
	if l == nil || len(s.upNodes()) != 6 {
		return
	}
	rest := []*vNode{}
	for _, n := range s.upNodes() {
		if n.id != l.id {
			rest = append(rest, n)
		}
	}
	a, x := rest[0], rest[1]
	others := rest[2:]
	sideA := map[uint64]bool{l.id: true, a.id: true, x.id: true}
	only := func(ids ...uint64) map[uint64]bool {
		m := map[uint64]bool{}
		for _, n := range s.upNodes() {
			m[n.id] = true
		}
		for _, id := range ids {
			delete(m, id)
		}
		return m
	}
	lag := map[uint64]bool{l.id: true, a.id: true}
	s.proposeCC(l, opRemove, x.id)
	// committed everywhere, applied on the other three only
	s.settle(4, nil, lag, only(l.id), func() bool {
		for _, o := range others {
			if !o.mem.rm[x.id] {
				return false
			}
		}
		return true
	})
	for _, o := range others {
		if !o.mem.rm[x.id] {
			return
		}
	}
	if l.mem.rm[x.id] || a.mem.rm[x.id] {
		return
	}
	split := func(m pb.Message) bool { return sideA[m.From] != sideA[m.To] }
	// the other side elects a leader and completes a write
	b := others[0]
	s.settle(4*int(s.et), split, lag, only(b.id), func() bool { return b.peer.raft.state == leader })
	if b.peer.raft.state != leader {
		return
	}
	s.nextVal++
	s.propose(b, s.nextVal)
	s.settle(3, split, lag, only(b.id), nil)
	if l.peer.raft.state != leader {
		return
	}
	// a read on the cut-off leader: confirmed by the follower and the removed replica
	s.nextCtx++
	s.readIndex(l, s.nextCtx)
	s.settle(2, split, lag, only(), nil)
	// the old leader catches up with its apply: five members, quorum three
	s.settle(1, split, map[uint64]bool{a.id: true}, only(), nil)
	// the next heartbeat round
	s.settle(3, split, map[uint64]bool{a.id: true}, only(l.id), nil)
	s.settle(2, nil, nil, nil, nil)
}

// scenario14 (two voters and a non-voting member): a read is pending on the leader - the heartbeat responses that
// would confirm it are lost - when the removal of the other voter is applied: from then on the leader is the only
// voting member, nobody is left whose heartbeat response could confirm the read. Meanwhile the non-voting member
// is cut off, so that a probe sent to it is lost and its progress record waits. After the heal the non-voting
// member is reachable again and must be brought up to date (C17: every reachable lagging replica catches up).
func (s *vSim) scenario14(nextID uint64) uint64 {
	s.settle(40, nil, nil, nil, func() bool { return s.leaderNode() != nil && s.leaderNode().applied >= 3 })
	l := s.leaderNode()
	if l == nil {
		return nextID
	}
	s.proposeCC(l, opAddNonVoting, nextID)
	s.settle(8, nil, nil, nil, nil)
	if _, ok := s.firstKind[nextID]; !ok || s.nodes[nextID] != nil {
		return nextID + 1
	}
	s.join(nextID, "N")
	s.settle(8, nil, nil, nil, nil)
	l = s.leaderNode()
	if l == nil || len(s.upNodes()) != 3 {
		return nextID + 1
	}
	var f *vNode
	for _, n := range s.upNodes() {
		if n.id != l.id && n.kind == "V" {
			f = n
		}
	}
	if f == nil {
		return nextID + 1
	}
	nv := nextID
	only := func(ids ...uint64) map[uint64]bool {
		m := map[uint64]bool{}
		for _, n := range s.upNodes() {
			m[n.id] = true
		}
		for _, id := range ids {
			delete(m, id)
		}
		return m
	}
	// the confirmations of the read never arrive; nothing reaches the non-voting member
	lost := func(m pb.Message) bool {
		return (m.Type == pb.HeartbeatResp && m.From == f.id) || m.To == nv || m.From == nv
	}
	s.nextCtx++
	s.readIndex(l, s.nextCtx)
	s.settle(2, lost, nil, only(l.id), nil)
	s.proposeCC(l, opRemove, f.id)
	s.settle(6, lost, nil, only(l.id), func() bool { return l.mem.rm[f.id] })
	if !l.mem.rm[f.id] || l.peer.raft.state != leader {
		return nextID + 1
	}
	// the transport reports the non-voting member unreachable (its host restarts): the leader falls back to
	// probing it, and the probe is lost as well
	s.unreachable(l, nv)
	// the only voting member goes on; what it sends to the non-voting member is still lost
	for i := 0; i < 2; i++ {
		s.nextVal++
		s.propose(l, s.nextVal)
		s.settle(2, lost, nil, only(l.id), nil)
	}
	// heal
	s.settle(2*int(s.et), nil, nil, only(l.id), nil)
	return nextID + 1
}

func (s *vSim) scenario(k int, nextID uint64) uint64 {
	if k == 14 {
		return s.scenario14(nextID)
	}
	if k == 13 {
		s.scenario13()
		return nextID
	}
	if k == 12 {
		return s.scenario12(nextID)
	}
	if k == 11 {
		return s.scenario11(nextID)
	}
	if k == 10 {
		s.scenario10()
		return nextID
	}
	if k == 9 {
		s.scenario9()
		return nextID
	}
	if k == 8 {
		s.scenario8()
		return nextID
	}
	if k == 7 {
		return s.scenario7(nextID)
	}
	if k == 6 {
		return s.scenario6(nextID)
	}
	if k == 4 {
		s.scenario4()
		return nextID
	}
	if k == 5 {
		return s.scenario5(nextID)
	}
	s.settle(40, nil, nil, nil, func() bool { return s.leaderNode() != nil && s.leaderNode().applied >= 4 })
	l := s.leaderNode()
	if l == nil {
		return nextID
	}
	others := []*vNode{}
	for _, n := range s.upNodes() {
		if n.id != l.id {
			others = append(others, n)
		}
	}
	x, y := others[s.rng.Intn(2)], others[0]
	if x == y {
		y = others[1]
	}
	switch k {
	case 1:
		// a follower cut off from the leader only gets to a higher term without winning (its vote
		// requests are lost) while the leader goes on committing: when the link heals the stale
		// leader must be told about the higher term (NoOP reply) or the shard never converges
		cut := func(m pb.Message) bool {
			if (m.From == l.id && m.To == x.id) || (m.From == x.id && m.To == l.id) {
				return true
			}
			return m.From == x.id && m.Type == pb.RequestVote
		}
		for i := 0; i < 30 && x.peer.raft.term <= l.peer.raft.term; i++ {
			s.settle(1, cut, nil, map[uint64]bool{y.id: true}, nil)
		}
		for i := 0; i < 3; i++ {
			if l.peer.raft.state == leader {
				s.nextVal++
				s.propose(l, s.nextVal)
			}
			s.settle(1, cut, nil, map[uint64]bool{y.id: true, x.id: true}, nil)
		}
	case 2:
		// two membership changes committed but not applied on a follower, then a leadership
		// transfer to that follower: it must not campaign with its stale, smaller configuration
		stall := map[uint64]bool{x.id: true}
		for _, add := range []uint64{nextID, nextID + 1} {
			s.proposeCC(l, opAddNode, add)
			s.settle(6, nil, stall, nil, nil)
			if _, ok := s.firstKind[add]; ok && s.nodes[add] == nil {
				s.join(add, "V")
			}
			s.settle(6, nil, stall, nil, nil)
		}
		nextID += 2
		if l.peer.raft.state == leader {
			s.transfer(l, x.id)
		}
		// only the pair x <-> y communicates for a while, then the new replicas time out
		pair := func(m pb.Message) bool {
			return !((m.From == x.id && m.To == y.id) || (m.From == y.id && m.To == x.id) ||
				(m.Type == pb.TimeoutNow && m.To == x.id))
		}
		s.settle(3, pair, stall, map[uint64]bool{l.id: true, y.id: true, nextID - 1: true, nextID - 2: true}, nil)
		rest := func(m pb.Message) bool { return m.From == x.id || m.To == x.id || m.From == y.id || m.To == y.id }
		// the old leader stays silent (no heartbeats), so that one of the new replicas times out
		s.settle(14, rest, stall, map[uint64]bool{x.id: true, y.id: true, l.id: true}, nil)
	case 3:
		// a replica applies its own removal before the leader does; a leadership transfer to it
		// requested in that window must not make the removed replica campaign
		stall := map[uint64]bool{l.id: true}
		s.proposeCC(l, opRemove, x.id)
		s.settle(4, nil, stall, nil, func() bool { return x.mem.rm[x.id] })
		if l.peer.raft.state == leader && x.mem.rm[x.id] {
			s.transfer(l, x.id)
			s.settle(3, nil, stall, map[uint64]bool{l.id: true, y.id: true}, nil)
		}
	}
	return nextID
}

// healAndCheck: C17. After the fault prefix every replica that was ever started is running,
// every replica the shard admitted is started, no message is lost any more, and a fair
// scheduler runs rounds of "tick everybody, deliver everything, save/send, apply". A probe
// proposal and a probe read are submitted half way. The final "Progress" event lets the
// specification evaluate its progress predicate on the observed state.
func (s *vSim) healAndCheck(rounds int) {
	s.fair = true
	for _, id := range s.ids {
		if n := s.nodes[id]; n != nil && n.started && !n.up {
			s.restart(n)
		}
	}
	for _, id := range s.ids {
		if kd, ok := s.firstKind[id]; ok && s.nodes[id] == nil {
			s.join(id, kd)
		}
	}
	s.emit(jEvent{A: "Healed"}, nil)
	// the randomized timeouts currently armed are replaced as well (a draw the environment makes)
	for _, n := range s.upNodes() {
		n.peer.raft.randomizedElectionTimeout = s.et + (n.id-1)%s.et
		n.lastRto = n.peer.raft.randomizedElectionTimeout
		s.emit(jEvent{A: "SetRto"}, n)
	}
	// in some traces one plain voter stays down through the fair period although everything else
	// is healed: the property asks for progress whenever a *majority* of the voting members
	// (witnesses included) runs and is connected. Only done when the membership known to the most
	// advanced replica has a witness and a majority remains without that voter.
	if s.tid%4 == 3 {
		var ref *vNode
		for _, n := range s.upNodes() {
			if ref == nil || n.applied > ref.applied {
				ref = n
			}
		}
		// the membership must be settled: every running voter has applied the same voters and
		// witnesses as the most advanced one (a change that is committed but not yet applied by the
		// replicas that stay up still needs the old majority - membership takes effect on apply)
		settled := ref != nil
		if ref != nil {
			same := func(a, b map[uint64]bool) bool {
				if len(a) != len(b) {
					return false
				}
				for k := range a {
					if !b[k] {
						return false
					}
				}
				return true
			}
			for _, n := range s.upNodes() {
				if ref.mem.v[n.id] && !(same(n.mem.v, ref.mem.v) && same(n.mem.w, ref.mem.w)) {
					settled = false
				}
			}
		}
		if settled && len(ref.mem.w) >= 1 && len(ref.mem.v) >= 2 {
			voting := len(ref.mem.v) + len(ref.mem.w)
			upVoting := 0
			for _, n := range s.upNodes() {
				if ref.mem.v[n.id] || ref.mem.w[n.id] {
					upVoting++
				}
			}
			for _, id := range s.ids {
				if n := s.nodes[id]; n != nil && n.up && ref.mem.v[id] && upVoting-1 >= voting/2+1 {
					s.crash(n)
					n.started = false
					break
				}
			}
		}
	}
	// a snapshot that was sent during the fault prefix and lost: the transport reports the failed
	// transfer to the sender sooner or later (HandleSnapshotStatus), it never stays silent
	for _, n := range s.upNodes() {
		if n.peer.raft.state != leader {
			continue
		}
		waiting := []uint64{}
		for id, rm := range n.peer.raft.remotes {
			if rm.state == remoteSnapshot {
				waiting = append(waiting, id)
			}
		}
		for id, rm := range n.peer.raft.nonVotings {
			if rm.state == remoteSnapshot {
				waiting = append(waiting, id)
			}
		}
		for id, rm := range n.peer.raft.witnesses {
			if rm.state == remoteSnapshot {
				waiting = append(waiting, id)
			}
		}
		sort.Slice(waiting, func(i, j int) bool { return waiting[i] < waiting[j] })
		for _, id := range waiting {
			inflight := false
			for _, m := range s.sortedNet() {
				if m.Type == pb.InstallSnapshot && m.From == n.id && m.To == id {
					inflight = true
				}
			}
			if !inflight {
				s.snapStatus(n, id, true)
			}
		}
	}
	pendingStatus := [][2]uint64{}
	round := func() {
		// a replica whose removal has been applied somewhere is stopped by the operator (a removed
		// replica that keeps running and never learns about its removal disrupts elections when
		// neither PreVote nor CheckQuorum is on - known Raft behaviour, not part of the premise)
		// The operator stops it only when every other running replica has applied the removal:
		// a leader that removed itself must stay around until the remaining members have learned
		// that the change is committed (they still count it for their quorum until they apply it).
		for _, n := range s.upNodes() {
			others, all := 0, true
			for _, o := range s.upNodes() {
				if o.id == n.id {
					continue
				}
				others++
				if !o.mem.rm[n.id] {
					all = false
				}
			}
			if others > 0 && all && n.up {
				s.crash(n)
				n.started = false
			}
		}
		// a replica admitted by a change that only got applied now is started as well
		for _, id := range s.ids {
			if kd, ok := s.firstKind[id]; ok && s.nodes[id] == nil {
				s.join(id, kd)
				n := s.nodes[id]
				n.peer.raft.randomizedElectionTimeout = s.et + (n.id-1)%s.et
				n.lastRto = n.peer.raft.randomizedElectionTimeout
				s.emit(jEvent{A: "SetRto"}, n)
			}
		}
		for _, n := range s.upNodes() {
			s.tick(n)
		}
		for pass := 0; pass < 3; pass++ {
			for _, m := range s.sortedNet() {
				if _, ok := s.net[msgKey(m)]; !ok {
					continue
				}
				if m.Type == pb.InstallSnapshot {
					pendingStatus = append(pendingStatus, [2]uint64{m.From, m.To})
				}
				s.deliver(m, false)
			}
			for _, n := range s.upNodes() {
				if n.peer.HasUpdate(true) {
					s.ready(n)
				}
				for n.aq != nil || len(n.alist) > 0 {
					s.applyOne(n)
				}
			}
		}
		// the transport reports a delivered snapshot to the sender
		for _, p := range pendingStatus {
			if n := s.nodes[p[0]]; n != nil && n.up {
				s.snapStatus(n, p[1], false)
			}
		}
		pendingStatus = pendingStatus[:0]
	}
	for i := 0; i < rounds; i++ {
		round()
	}
	// probes: a proposal and a linearizable read at every running replica that may serve them
	probeVal := uint64(900000)
	probeCtx := uint64(900000)
	for _, n := range s.upNodes() {
		if n.peer.raft.state != witness {
			probeVal++
			s.propose(n, probeVal)
			probeCtx++
			s.readIndex(n, probeCtx)
		}
	}
	// a probe membership change at the leader: removing an id that is not a member is accepted by
	// the rules, changes nothing but the removed set, and must be applied like any other change
	if l := s.leaderNode(); l != nil {
		for x := uint64(1); x <= 5; x++ {
			_, v := l.mem.v[x]
			_, nv := l.mem.nv[x]
			_, w := l.mem.w[x]
			if !v && !nv && !w && !l.mem.rm[x] {
				s.proposeCC(l, opRemove, x)
				break
			}
		}
	}
	for i := 0; i < rounds; i++ {
		round()
	}
	s.emit(jEvent{A: "Progress", Val: uint64(rounds)}, nil)
}

func newSim(t *testing.T, seed int64, out *bufio.Writer, tid int, maxN int) *vSim {
	s := &vSim{t: t, rng: rand.New(rand.NewSource(seed)), nodes: map[uint64]*vNode{},
		net: map[string]pb.Message{}, et: 5, ht: 1, out: out, tid: tid,
		blocked: map[[2]uint64]bool{}, stats: map[string]int{}, firstKind: map[uint64]string{}}
	for i := 1; i <= maxN; i++ {
		s.ids = append(s.ids, uint64(i))
	}
	return s
}

func envInt(k string, d int) int {
	if v := os.Getenv(k); v != "" {
		if n, err := strconv.Atoi(v); err == nil {
			return n
		}
	}
	return d
}

// TestVerifRsim writes VERIF_TRACES randomized traces to VERIF_OUT (ndjson). A panic of
// the code under test ends the trace with a Panic event (the schedule is legal, so a
// panic is itself reported by the runner).
func TestVerifRsim(t *testing.T) {
	outPath := os.Getenv("VERIF_OUT")
	if outPath == "" {
		t.Skip("VERIF_OUT not set")
	}
	seed := int64(envInt("VERIF_SEED", 1))
	traces := envInt("VERIF_TRACES", 10)
	steps := envInt("VERIF_STEPS", 300)
	first := envInt("VERIF_FIRST", 0)
	preVote := os.Getenv("VERIF_PREVOTE") == "1"
	checkQ := os.Getenv("VERIF_CHECKQUORUM") == "1"
	progress := envInt("VERIF_PROGRESS", 0)
	f, err := os.Create(outPath)
	if err != nil {
		t.Fatal(err)
	}
	defer f.Close()
	w := bufio.NewWriterSize(f, 1<<20)
	defer w.Flush()
	total := map[string]int{}
	for i := 0; i < traces; i++ {
		tid := first + i
		seedGlobalRand(seed*7368787 + int64(tid))
		s := newSim(t, seed*1000003+int64(tid), w, tid, 5)
		s.preVote, s.checkQ = preVote, checkQ
		o := simOpts{steps: steps, maxN: 3 + s.rng.Intn(3), chaos: []int{0, 20, 50, 80}[s.rng.Intn(4)],
			withCC: s.rng.Intn(3) > 0, withSnap: s.rng.Intn(3) > 0, crash: s.rng.Intn(2) == 0,
			scenarios: os.Getenv("VERIF_SCENARIOS") != "0"}
		func() {
			defer func() {
				if r := recover(); r != nil {
					s.emit(jEvent{A: "Panic", Panic: fmt.Sprint(r)}, nil)
				}
			}()
			s.randomRun(o)
			if progress > 0 {
				s.healAndCheck(progress)
			}
		}()
		for k, v := range s.stats {
			total[k] += v
		}
	}
	keys := []string{}
	for k := range total {
		keys = append(keys, k)
	}
	sort.Strings(keys)
	parts := []string{}
	for _, k := range keys {
		parts = append(parts, fmt.Sprintf("%s=%d", k, total[k]))
	}
	fmt.Println("RSIM-STATS " + strings.Join(parts, " "))
}
