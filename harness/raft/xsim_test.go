//go:build verif

// xsim: exhaustive exploration of the REAL internal/raft code under the transition system of
// spec/MCRaft.tla.
//
// MCRaft.tla explores Raft.tla (the specification) exhaustively for small constants. xsim explores the
// implementation under exactly the same environment: the same actions with the same enabling conditions
// (Timeout, LeaseExpire, Deliver with/without duplication, Drop, Ready, Apply, Propose, ProposeCC,
// ReadIndex, Transfer, ReportSnapshotStatus, Crash, Restart, Join, Snapshot, Compact), the same budgets
// (cnt) and the same state constraint (Bounded). The search is breadth first over the projected states of
// the real replicas; a state is re-created by re-executing its action path on fresh raft objects
// (stateless search: nothing of the implementation has to be copied).
//
// Every transition taken - also the ones that lead to a state seen before or out of bounds - is written as
// one line per harness step (the rsim event format: action, arguments, projected state of the acting
// replica after the step) of a TREE: every line names its parent line and its children. RaftTree.tla makes
// TLC walk that tree, recompute each step with the operators of Raft.tla (conformance) and evaluate the
// predicates of RaftSys.tla on every observed state with the history of the path that leads to it.
// The number of distinct projected states is compared with the number TLC finds for MCRaft with the same
// constants (spec and code reach the same state space).
package raft

import (
	"bufio"
	"crypto/sha1"
	"encoding/json"
	"fmt"
	"math/rand"
	"os"
	"reflect"
	"sort"
	"strconv"
	"strings"
	"sync"
	"sync/atomic"
	"testing"
	"unsafe"

	"github.com/lni/dragonboat/v4/logger"
	pb "github.com/lni/dragonboat/v4/raftpb"
	"github.com/lni/goutils/random"
)

type xCfg struct {
	replicas  []uint64
	voters    []uint64
	maxTerm   uint64
	maxLen    uint64
	maxMsgs   int
	maxDup    int
	maxCrash  int
	maxProp   int
	maxRead   int
	maxCC     int
	maxSnap   int
	cc        []uint64
	joinKind  map[uint64]string
	eager     bool
	preVote   bool
	checkQ    bool
	maxStates int
}

type xCnt struct{ dup, crash, prop, read, cc, snap int }

type xAct struct {
	K    uint8
	N    uint8
	B    bool
	Idx  uint16 // index into the sorted network (Deliver / Drop)
	Val  uint16
	From uint8
}

const (
	xTimeout = iota
	xLease
	xDeliver
	xDrop
	xReady
	xApply
	xPropose
	xProposeCC
	xRead
	xTransfer
	xSnapStatus
	xCrash
	xRestart
	xJoin
	xSnapshot
	xCompact
)

var xNames = []string{"Timeout", "LeaseExpire", "Deliver", "Drop", "Ready", "Apply", "Propose", "ProposeCC",
	"ReadIndex", "Transfer", "SnapStatus", "Crash", "Restart", "Join", "Snapshot", "Compact"}

// constSource makes raft.setRandomizedElectionTimeout choose electionTimeout + 0 (the value is a non-zero
// multiple of the election timeout): MCRaft passes ET as the randomized timeout of every reset
type constSource struct{ v uint64 }

func (c constSource) Int63() int64   { return int64(c.v) }
func (c constSource) Uint64() uint64 { return c.v }
func (constSource) Seed(seed int64)  {}

func setGlobalRandSource(src rand.Source64) {
	v := reflect.ValueOf(random.LockGuardedRand).Elem().FieldByName("source")
	p := unsafe.Pointer(v.UnsafeAddr())
	*(*rand.Source64)(p) = src
}

type xState struct {
	parent int32
	act    xAct
	line   int32 // last line of the transition that discovered the state
	cnt    xCnt
	depth  int16
}

type xplorer struct {
	t       *testing.T
	c       xCfg
	states  []xState
	seen    map[[20]byte]int32
	w       *bufio.Writer
	nline   int32
	kids    [][]int32
	stats   map[string]int
	workers int
	debug   bool
	gen     int
	oob     int
	depth   int
}

func (x *xplorer) newSim() *vSim {
	s := newSim(x.t, 1, nil, 0, 0)
	s.ids = append([]uint64{}, x.c.replicas...)
	s.preVote, s.checkQ = x.c.preVote, x.c.checkQ
	s.mute = true
	return s
}

// one line of the tree: the event, and the projected state of the acting replica as the set of fields that
// differ from its state before the step (`d`), or in full (`post`) when the replica did not exist before
type xLine struct {
	A      string                     `json:"a"`
	N      uint64                     `json:"n"`
	M      *jMsg                      `json:"m,omitempty"`
	Dup    bool                       `json:"dup"`
	Val    uint64                     `json:"val"`
	From   uint64                     `json:"from"`
	Reject bool                       `json:"reject"`
	Kind   string                     `json:"kind,omitempty"`
	Voters []uint64                   `json:"voters,omitempty"`
	Post   map[string]json.RawMessage `json:"post,omitempty"`
	D      map[string]json.RawMessage `json:"d,omitempty"`
	Panic  string                     `json:"panic,omitempty"`
}

func projFields(p *jNode) map[string]json.RawMessage {
	b, err := json.Marshal(p)
	must(err)
	m := map[string]json.RawMessage{}
	must(json.Unmarshal(b, &m))
	return m
}

// xTask collects the lines of one explored transition (one worker, no shared state)
type xTask struct {
	cache map[uint64]map[string]json.RawMessage
	lines [][]byte
	names []string
}

// snapshot remembers the projection of every replica before an explored action
func (t *xTask) snapshot(s *vSim) {
	t.cache = map[uint64]map[string]json.RawMessage{}
	for id, n := range s.nodes {
		p := s.proj(n)
		t.cache[id] = projFields(&p)
	}
}

func (t *xTask) sink(e jEvent) {
	l := xLine{A: e.A, N: e.N, M: e.M, Dup: e.Dup, Val: e.Val, From: e.From, Reject: e.Reject,
		Kind: e.Kind, Voters: e.Voters, Panic: e.Panic}
	if e.Post != nil {
		now := projFields(e.Post)
		if pre, ok := t.cache[e.N]; ok {
			l.D = map[string]json.RawMessage{}
			for k, v := range now {
				if string(pre[k]) != string(v) {
					l.D[k] = v
				}
			}
		} else {
			l.Post = now
		}
		t.cache[e.N] = now
	}
	b, err := json.Marshal(l)
	must(err)
	t.lines = append(t.lines, b)
	t.names = append(t.names, e.A)
}

// write appends the lines of a transition to the tree below line `parent`; returns the last line
func (x *xplorer) write(t *xTask, parent int32) int32 {
	cur := parent
	for i, b := range t.lines {
		x.nline++
		id := x.nline
		x.w.Write(b)
		x.w.WriteByte('\n')
		for int(id) >= len(x.kids) {
			x.kids = append(x.kids, nil)
		}
		x.kids[cur] = append(x.kids[cur], id)
		cur = id
		x.stats[t.names[i]]++
	}
	return cur
}

func (x *xplorer) node(s *vSim, id uint64) *vNode { return s.nodes[id] }

func (x *xplorer) isUp(s *vSim, id uint64) bool {
	n := s.nodes[id]
	return n != nil && n.up
}

func canApply(n *vNode) bool { return n.aq != nil || len(n.alist) > 0 }

func (x *xplorer) nodeKey(s *vSim, id uint64) string {
	n := s.nodes[id]
	if n == nil {
		return "-"
	}
	b, err := json.Marshal(s.proj(n))
	must(err)
	return string(b)
}

// settle is MCRaft!Settle: Ready, apply everything handed out, at most three rounds
func (x *xplorer) settle(s *vSim, n *vNode) {
	for k := 3; k > 0; k-- {
		if !canApply(n) && !n.peer.HasUpdate(true) && n.peer.raft.applied == n.applied {
			// Ready(s) = s (Ready passes the applied index to raft first) and nothing to apply:
			// MCRaft!Settle stops without a step
			return
		}
		s.ready(n)
		for canApply(n) {
			s.applyOne(n)
		}
	}
}

func (x *xplorer) initSim(s *vSim) {
	if x.c.eager {
		for _, id := range x.c.voters {
			s.boot(id, x.c.voters)
			x.settle(s, s.nodes[id])
		}
	} else {
		for _, id := range x.c.voters {
			s.boot(id, x.c.voters)
		}
	}
}

func (x *xplorer) forceRto(n *vNode, v uint64) {
	n.peer.raft.randomizedElectionTimeout = v
	n.lastRto = v
}

// apply executes one MCRaft action on the real code
func (x *xplorer) apply(s *vSim, a xAct, cnt *xCnt) {
	var n *vNode
	if a.K != xDeliver && a.K != xDrop {
		n = s.nodes[uint64(a.N)]
	}
	switch a.K {
	case xTimeout:
		r := n.peer.raft
		s.notify(n)
		if r.state == leader {
			r.electionTick, r.heartbeatTick = s.et-1, s.ht-1
		} else if r.electionTick < r.randomizedElectionTimeout-1 {
			r.electionTick = r.randomizedElectionTimeout - 1
		}
		must(n.peer.Tick())
		s.fixRto(n)
		s.emit(jEvent{A: "Timeout"}, n)
	case xLease:
		r := n.peer.raft
		r.electionTick = s.et
		x.forceRto(n, 2*s.et-1)
		s.emit(jEvent{A: "Env"}, n)
	case xDeliver:
		m := s.sortedNet()[a.Idx]
		n = s.nodes[m.To]
		s.deliver(m, a.B)
		if a.B {
			cnt.dup++
		}
	case xDrop:
		s.drop(s.sortedNet()[a.Idx])
		return
	case xReady:
		s.ready(n)
		return
	case xApply:
		s.applyOne(n)
		return
	case xPropose:
		cnt.prop++
		s.propose(n, uint64(cnt.prop))
	case xProposeCC:
		cnt.cc++
		s.proposeCC(n, uint64(a.Val)/100, uint64(a.Val)%100)
	case xRead:
		cnt.read++
		s.readIndex(n, uint64(cnt.read))
	case xTransfer:
		s.transfer(n, uint64(a.Val))
	case xSnapStatus:
		s.snapStatus(n, uint64(a.From), a.B)
	case xCrash:
		cnt.crash++
		s.crash(n)
	case xRestart:
		s.restart(n)
	case xJoin:
		s.join(uint64(a.N), x.c.joinKind[uint64(a.N)])
		n = s.nodes[uint64(a.N)]
	case xSnapshot:
		cnt.snap++
		s.snapshot(n)
	case xCompact:
		s.compact(n, n.db.snapshot.Index)
	}
	if x.c.eager && n != nil && n.up {
		x.settle(s, n)
	}
}

func hasDurable(n *vNode) bool {
	db := n.db
	return db.state.Term > 0 || db.snapshot.Index > 0 || len(db.entries) > 0
}

// enabled lists the MCRaft actions enabled in the current state, in a fixed order
func (x *xplorer) enabled(s *vSim, cnt xCnt) []xAct {
	acts := []xAct{}
	c := x.c
	for _, id := range c.replicas {
		if !x.isUp(s, id) {
			continue
		}
		n := s.nodes[id]
		st := n.peer.raft.state
		if st != nonVoting && st != witness {
			acts = append(acts, xAct{K: xTimeout, N: uint8(id)})
		}
		if c.checkQ && st != leader && n.peer.raft.electionTick < s.et {
			acts = append(acts, xAct{K: xLease, N: uint8(id)})
		}
	}
	net := s.sortedNet()
	for i, m := range net {
		if x.isUp(s, m.To) {
			acts = append(acts, xAct{K: xDeliver, Idx: uint16(i)})
			if cnt.dup < c.maxDup {
				acts = append(acts, xAct{K: xDeliver, Idx: uint16(i), B: true})
			}
		}
	}
	for i := range net {
		acts = append(acts, xAct{K: xDrop, Idx: uint16(i)})
	}
	for _, id := range c.replicas {
		n := s.nodes[id]
		up := n != nil && n.up
		if up {
			r := n.peer.raft
			if !c.eager {
				acts = append(acts, xAct{K: xReady, N: uint8(id)})
				if canApply(n) {
					acts = append(acts, xAct{K: xApply, N: uint8(id)})
				}
			}
			if r.state != witness {
				if cnt.prop < c.maxProp {
					acts = append(acts, xAct{K: xPropose, N: uint8(id)})
				}
				if cnt.cc < c.maxCC {
					for _, v := range c.cc {
						acts = append(acts, xAct{K: xProposeCC, N: uint8(id), Val: uint16(v)})
					}
				}
				if cnt.read < c.maxRead {
					acts = append(acts, xAct{K: xRead, N: uint8(id)})
				}
			}
			if r.state == leader {
				if r.leaderTransferTarget == 0 {
					for _, t := range c.replicas {
						if _, ok := r.remotes[t]; ok && t != id {
							acts = append(acts, xAct{K: xTransfer, N: uint8(id), Val: uint16(t)})
						}
					}
				}
				for _, f := range c.replicas {
					var rp *remote
					if v, ok := r.remotes[f]; ok {
						rp = v
					} else if v, ok := r.nonVotings[f]; ok {
						rp = v
					} else if v, ok := r.witnesses[f]; ok {
						rp = v
					}
					if rp != nil && rp.state == remoteSnapshot {
						acts = append(acts, xAct{K: xSnapStatus, N: uint8(id), From: uint8(f)})
						acts = append(acts, xAct{K: xSnapStatus, N: uint8(id), From: uint8(f), B: true})
					}
				}
			}
			if cnt.crash < c.maxCrash {
				acts = append(acts, xAct{K: xCrash, N: uint8(id)})
			}
			if cnt.snap < c.maxSnap && s.canSnapshot(n) {
				acts = append(acts, xAct{K: xSnapshot, N: uint8(id)})
			}
			if i := n.db.snapshot.Index; i > r.log.firstIndex()-1 && s.canCompact(n, i) {
				acts = append(acts, xAct{K: xCompact, N: uint8(id)})
			}
		} else {
			if n != nil && hasDurable(n) {
				acts = append(acts, xAct{K: xRestart, N: uint8(id)})
			}
			if _, ok := c.joinKind[id]; ok && (n == nil || !hasDurable(n)) {
				known := false
				for _, k := range c.replicas {
					if x.isUp(s, k) {
						mm := s.nodes[k].mem
						if mm.v[id] || mm.nv[id] || mm.w[id] {
							known = true
						}
					}
				}
				if known {
					acts = append(acts, xAct{K: xJoin, N: uint8(id)})
				}
			}
		}
	}
	return acts
}

// bounded is MCRaft!Bounded
func (x *xplorer) bounded(s *vSim) bool {
	if len(s.net) > x.c.maxMsgs {
		return false
	}
	for _, id := range x.c.replicas {
		if !x.isUp(s, id) {
			continue
		}
		r := s.nodes[id].peer.raft
		if r.term > x.c.maxTerm || r.log.lastIndex() > x.c.maxLen {
			return false
		}
		seen := map[string]bool{}
		for _, m := range r.msgs {
			seen[msgKey(m)] = true
		}
		if len(seen) > x.c.maxMsgs+2 {
			return false
		}
	}
	return true
}

func (x *xplorer) key(s *vSim, cnt xCnt) [20]byte {
	h := sha1.New()
	for _, id := range x.c.replicas {
		h.Write([]byte(x.nodeKey(s, id)))
		h.Write([]byte{0})
	}
	for _, m := range s.sortedNet() {
		h.Write([]byte(msgKey(m)))
		h.Write([]byte{0})
	}
	fmt.Fprintf(h, "%v", cnt)
	var k [20]byte
	copy(k[:], h.Sum(nil))
	return k
}

// debugState prints a summary of a new state (development aid: comparison with a dump of MCRaft)
func (x *xplorer) debugState(s *vSim, cnt xCnt, d int, a xAct) string {
	parts := []string{}
	for _, id := range x.c.replicas {
		parts = append(parts, x.nodeKey(s, id))
	}
	nk := []string{}
	for _, m := range s.sortedNet() {
		nk = append(nk, msgKey(m))
	}
	return fmt.Sprintf("ST %d [%s] [%s] %d via %s n=%d idx=%d", d+1, strings.Join(parts, ","), strings.Join(nk, ","), cnt.prop, xNames[a.K], a.N, a.Idx)
}

func (x *xplorer) path(id int32) []xAct {
	p := []xAct{}
	for id > 0 {
		p = append(p, x.states[id].act)
		id = x.states[id].parent
	}
	for i, j := 0, len(p)-1; i < j; i, j = i+1, j-1 {
		p[i], p[j] = p[j], p[i]
	}
	return p
}

// rebuild re-creates state id on fresh raft objects
func (x *xplorer) rebuild(id int32) *vSim {
	s := x.newSim()
	x.initSim(s)
	cnt := xCnt{}
	for _, a := range x.path(id) {
		x.apply(s, a, &cnt)
	}
	return s
}

// xEdge is the outcome of one action taken in one state
type xEdge struct {
	act    xAct
	task   *xTask
	key    [20]byte
	cnt    xCnt
	noop   bool // Timeout that changed nothing: MCRaft requires post # node[n]
	oob    bool
	panicA string
}

// expand takes every enabled action of state id on freshly rebuilt replicas (no shared state is
// written: called from worker goroutines)
func (x *xplorer) expand(id int32) []xEdge {
	st := x.states[id]
	base := x.rebuild(id)
	acts := x.enabled(base, st.cnt)
	edges := make([]xEdge, 0, len(acts))
	for ai, a := range acts {
		sim := base
		if ai > 0 {
			sim = x.rebuild(id)
		}
		e := xEdge{act: a, task: &xTask{}, cnt: st.cnt}
		var pre string
		if a.K == xTimeout {
			pre = x.nodeKey(sim, uint64(a.N))
		}
		e.task.snapshot(sim)
		sim.sink = e.task.sink
		sim.mute = false
		func() {
			defer func() {
				if r := recover(); r != nil {
					sim.emit(jEvent{A: "Panic", Panic: fmt.Sprint(r)}, nil)
					e.panicA = xNames[a.K]
				}
			}()
			x.apply(sim, a, &e.cnt)
		}()
		if e.panicA == "" {
			if a.K == xTimeout && x.nodeKey(sim, uint64(a.N)) == pre {
				e.noop = true
			} else if !x.bounded(sim) {
				e.oob = true
			} else {
				e.key = x.key(sim, e.cnt)
				if x.debug {
					e.task.names = append(e.task.names, x.debugState(sim, e.cnt, int(st.depth)+1, a))
				}
			}
		}
		edges = append(edges, e)
	}
	return edges
}

func (x *xplorer) explore() bool {
	s := x.newSim()
	setGlobalRandSource(constSource{v: s.et})
	root := &xTask{cache: map[uint64]map[string]json.RawMessage{}}
	s.sink = root.sink
	s.mute = false
	x.kids = [][]int32{nil}
	x.initSim(s)
	x.states = []xState{{parent: -1, line: x.write(root, 0)}}
	x.seen = map[[20]byte]int32{x.key(s, xCnt{}): 0}
	complete := true
	const batch = 512
	for head := 0; head < len(x.states); {
		if len(x.states) >= x.c.maxStates {
			complete = false
			break
		}
		end := head + batch
		if end > len(x.states) {
			end = len(x.states)
		}
		res := make([][]xEdge, end-head)
		var wg sync.WaitGroup
		next := int32(head)
		for w := 0; w < x.workers; w++ {
			wg.Add(1)
			go func() {
				defer wg.Done()
				for {
					i := atomic.AddInt32(&next, 1) - 1
					if int(i) >= end {
						return
					}
					res[int(i)-head] = x.expand(i)
				}
			}()
		}
		wg.Wait()
		// merge in state order: the tree and the numbering do not depend on the number of workers
		for k, edges := range res {
			id := head + k
			st := x.states[id]
			for _, e := range edges {
				dbg := ""
				if x.debug && len(e.task.names) > len(e.task.lines) {
					dbg = e.task.names[len(e.task.names)-1]
					e.task.names = e.task.names[:len(e.task.lines)]
				}
				last := x.write(e.task, st.line)
				if e.panicA != "" {
					x.stats["panic:"+e.panicA]++
					continue
				}
				if e.noop {
					continue
				}
				x.gen++
				x.stats["act:"+xNames[e.act.K]]++
				if e.oob {
					x.oob++
					continue
				}
				if _, ok := x.seen[e.key]; ok {
					continue
				}
				x.seen[e.key] = int32(len(x.states))
				d := st.depth + 1
				if int(d) > x.depth {
					x.depth = int(d)
				}
				x.states = append(x.states, xState{parent: int32(id), act: e.act, line: last, cnt: e.cnt, depth: d})
				if dbg != "" {
					fmt.Println(dbg)
				}
			}
		}
		head = end
	}
	return complete
}

func envList(k string) []uint64 {
	r := []uint64{}
	for _, f := range strings.Split(os.Getenv(k), ",") {
		if f = strings.TrimSpace(f); f != "" {
			v, err := strconv.ParseUint(f, 10, 64)
			must(err)
			r = append(r, v)
		}
	}
	return r
}

// TestVerifXsim explores the configuration given by XSIM_* and writes the tree to VERIF_OUT
func TestVerifXsim(t *testing.T) {
	outPath := os.Getenv("VERIF_OUT")
	if outPath == "" {
		t.Skip("VERIF_OUT not set")
	}
	c := xCfg{replicas: envList("XSIM_REPLICAS"), voters: envList("XSIM_VOTERS"),
		maxTerm: uint64(envInt("XSIM_MAXTERM", 2)), maxLen: uint64(envInt("XSIM_MAXLEN", 2)),
		maxMsgs: envInt("XSIM_MAXMSGS", 2), maxDup: envInt("XSIM_MAXDUP", 0), maxCrash: envInt("XSIM_MAXCRASH", 0),
		maxProp: envInt("XSIM_MAXPROP", 0), maxRead: envInt("XSIM_MAXREAD", 0), maxCC: envInt("XSIM_MAXCC", 0),
		maxSnap: envInt("XSIM_MAXSNAP", 0), cc: envList("XSIM_CC"), joinKind: map[uint64]string{},
		eager: os.Getenv("XSIM_EAGER") == "1", preVote: os.Getenv("VERIF_PREVOTE") == "1",
		checkQ: os.Getenv("VERIF_CHECKQUORUM") == "1", maxStates: envInt("XSIM_MAXSTATES", 2000000)}
	for _, f := range strings.Split(os.Getenv("XSIM_JOIN"), ",") {
		if kv := strings.Split(strings.TrimSpace(f), ":"); len(kv) == 2 {
			id, err := strconv.ParseUint(kv[0], 10, 64)
			must(err)
			c.joinKind[id] = kv[1]
		}
	}
	sort.Slice(c.replicas, func(a, b int) bool { return c.replicas[a] < c.replicas[b] })
	sort.Slice(c.voters, func(a, b int) bool { return c.voters[a] < c.voters[b] })
	tmp := outPath + ".tmp"
	f, err := os.Create(tmp)
	if err != nil {
		t.Fatal(err)
	}
	logger.GetLogger("raft").SetLevel(logger.CRITICAL)
	x := &xplorer{t: t, c: c, w: bufio.NewWriterSize(f, 1<<20), stats: map[string]int{},
		workers: envInt("XSIM_WORKERS", 8), debug: os.Getenv("XSIM_DEBUG") != ""}
	complete := x.explore()
	must(x.w.Flush())
	must(f.Close())
	// second pass: every line learns its children; line 1 of the file is the root
	in, err := os.Open(tmp)
	must(err)
	out, err := os.Create(outPath)
	must(err)
	w := bufio.NewWriterSize(out, 1<<20)
	ln := 0
	writeKids := func(k []int32) {
		w.WriteString(`{"id":` + strconv.Itoa(ln) + `,"kids":[`)
		for i, v := range k {
			if i > 0 {
				w.WriteByte(',')
			}
			w.WriteString(strconv.Itoa(int(v) + 1))
		}
		w.WriteString(`],`)
	}
	writeKids(x.kids[0])
	w.WriteString(`"a":"Root","n":0,"dup":false,"val":0,"from":0,"reject":false}` + "\n")
	sc := bufio.NewScanner(in)
	sc.Buffer(make([]byte, 1<<20), 1<<26)
	for sc.Scan() {
		ln++
		var k []int32
		if ln < len(x.kids) {
			k = x.kids[ln]
		}
		writeKids(k)
		w.Write(sc.Bytes()[1:])
		w.WriteByte('\n')
	}
	must(sc.Err())
	must(w.Flush())
	must(out.Close())
	in.Close()
	os.Remove(tmp)
	keys := []string{}
	for k := range x.stats {
		keys = append(keys, k)
	}
	sort.Strings(keys)
	parts := []string{}
	for _, k := range keys {
		parts = append(parts, fmt.Sprintf("%s=%d", k, x.stats[k]))
	}
	fmt.Printf("XSIM-RESULT states=%d generated=%d out_of_bounds=%d lines=%d depth=%d complete=%v\n",
		len(x.states), x.gen, x.oob, x.nline+1, x.depth, complete)
	fmt.Println("XSIM-STATS " + strings.Join(parts, " "))
}

var _ = pb.NoOP
