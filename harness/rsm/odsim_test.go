//go:build verif

// odsim: the snapshot an on-disk replica records for itself, on the real rsm.StateMachine (concurrentSave:
// prepare, Sync, the dummy snapshot) while the apply worker has a batch waiting. The user state machine's
// Sync callback starts the apply of the next batch on another goroutine (it queues behind the state machine's
// lock the way the apply worker does when the snapshot worker holds it) and remembers what it made durable.
// The record says how far the state machine's own durable state reaches (OnDiskIndex) - the log is compacted on
// that promise - so it must not be ahead of what Sync persisted; then the machine loses power: a fresh instance
// opens at the persisted index, recovers from the recorded snapshot (init) and applies the rest of the stream -
// no panic, and the same state as the instance that never stopped. spec/OnDiskSnapshotTrace.tla judges.
package rsm

import (
	"bufio"
	"encoding/json"
	"fmt"
	"io"
	"math/rand"
	"os"
	"strconv"
	"sync"
	"testing"
	"time"

	"github.com/lni/dragonboat/v4/config"
	"github.com/lni/vfs"
	pb "github.com/lni/dragonboat/v4/raftpb"
	sm "github.com/lni/dragonboat/v4/statemachine"
)

type odDisk struct {
	mu        sync.Mutex
	kv        map[uint64]uint64
	applied   uint64
	persisted uint64            // what the last Sync made durable
	image     map[uint64]uint64 // the durable state
	openAt    uint64
	onSync    func()
}

func (d *odDisk) Open(<-chan struct{}) (uint64, error) { return d.openAt, nil }
func (d *odDisk) Update(es []sm.Entry) ([]sm.Entry, error) {
	d.mu.Lock()
	defer d.mu.Unlock()
	for i := range es {
		k := uint64(es[i].Cmd[0])
		d.kv[k] = es[i].Index
		d.applied = es[i].Index
		es[i].Result = sm.Result{Value: es[i].Index}
	}
	return es, nil
}
func (d *odDisk) Lookup(interface{}) (interface{}, error) { return nil, nil }
func (d *odDisk) Sync() error {
	d.mu.Lock()
	d.persisted = d.applied
	d.image = map[uint64]uint64{}
	for k, v := range d.kv {
		d.image[k] = v
	}
	f := d.onSync
	d.mu.Unlock()
	if f != nil {
		f()
	}
	return nil
}
func (d *odDisk) PrepareSnapshot() (interface{}, error)                    { return nil, nil }
func (d *odDisk) SaveSnapshot(interface{}, io.Writer, <-chan struct{}) error { return nil }
func (d *odDisk) RecoverFromSnapshot(io.Reader, <-chan struct{}) error      { return nil }
func (d *odDisk) Close() error                                              { return nil }

type odEv struct {
	T         int    `json:"t"`
	I         int    `json:"i"`
	Op        string `json:"op"`
	Index     uint64 `json:"index"`
	OnDisk    uint64 `json:"ondisk"`
	Persisted uint64 `json:"persisted"`
	Applied   uint64 `json:"applied"`
	Racing    bool   `json:"racing"`
	Same      bool   `json:"same"`
	Msg       string `json:"msg"`
}

func odEntry(i uint64, rng *rand.Rand) pb.Entry {
	if i <= 3 {
		cc := pb.ConfigChange{Type: pb.AddNode, ReplicaID: i, Address: "a" + strconv.Itoa(int(i)), Initialize: true}
		return pb.Entry{Index: i, Term: 1, Key: i, Type: pb.ConfigChangeEntry, Cmd: pb.MustMarshal(&cc)}
	}
	// a proposal of a NoOP session (on-disk state machines have no other)
	return pb.Entry{Index: i, Term: 1, Key: i, ClientID: 77, SeriesID: 0, Cmd: []byte{byte(rng.Intn(5))}}
}

func odNew(fs vfs.FS, d *odDisk) (*StateMachine, *vSnapshotter) {
	cfg := config.Config{ShardID: 1, ReplicaID: 1}
	snap := &vSnapshotter{fs: fs, all: map[uint64]pb.Snapshot{}}
	managed := NewNativeSM(cfg, NewOnDiskStateMachine(d), make(chan struct{}))
	s := NewStateMachine(managed, snap, cfg, &vNode{cbs: map[uint64]vCB{}}, fs)
	return s, snap
}

func odApply(s *StateMachine, ents []pb.Entry) {
	s.taskQ.Add(Task{Entries: ents})
	if _, err := s.Handle(make([]Task, 0), make([]sm.Entry, 0)); err != nil {
		panic(err)
	}
}

func TestVerifOdsim(t *testing.T) {
	out := os.Getenv("VERIF_OUT")
	if out == "" {
		t.Skip("VERIF_OUT not set")
	}
	seed, _ := strconv.Atoi(os.Getenv("VERIF_SEED"))
	traces, _ := strconv.Atoi(os.Getenv("VERIF_TRACES"))
	first, _ := strconv.Atoi(os.Getenv("VERIF_FIRST"))
	f, err := os.Create(out)
	if err != nil {
		t.Fatal(err)
	}
	defer f.Close()
	w := bufio.NewWriterSize(f, 1<<20)
	defer w.Flush()
	for k := 0; k < traces; k++ {
		tid := first + k
		rng := rand.New(rand.NewSource(int64(seed)*67867967 + int64(tid)))
		i := 0
		emit := func(ev odEv) {
			ev.T, ev.I = tid, i
			i++
			b, _ := json.Marshal(ev)
			w.Write(b)
			w.WriteByte('\n')
		}
		fs := vfs.NewMem()
		if err := fs.MkdirAll("/ss", 0755); err != nil {
			panic(err)
		}
		d := &odDisk{kv: map[uint64]uint64{}}
		s, snap := odNew(fs, d)
		if _, err := s.OpenOnDiskStateMachine(); err != nil {
			panic(err)
		}
		emit(odEv{Op: "Init"})
		next := uint64(1)
		var stream []pb.Entry
		batch := func(n int) []pb.Entry {
			es := []pb.Entry{}
			for j := 0; j < n; j++ {
				e := odEntry(next, rng)
				stream = append(stream, e)
				es = append(es, e)
				next++
			}
			return es
		}
		odApply(s, batch(3+rng.Intn(4)))
		// stress: the apply worker applies one small batch after the other while snapshot after snapshot is taken;
		// whichever of the two gets the state machine's lock between two statements of the save, the record may not
		// promise more than Sync persisted
		{
			var mu sync.Mutex
			stop := make(chan struct{})
			var awg sync.WaitGroup
			awg.Add(1)
			go func() {
				defer awg.Done()
				for {
					select {
					case <-stop:
						return
					default:
					}
					mu.Lock()
					es := batch(1)
					mu.Unlock()
					odApply(s, es)
				}
			}()
			last := uint64(0)
			for n := 0; n < 400; n++ {
				// the next save is requested by the apply worker itself (it handles the completion of the previous
				// one between two batches): its own bookkeeping of the batch that contained the previous snapshot
				// index is complete by then
				for s.GetLastApplied() < last {
					time.Sleep(time.Microsecond)
				}
				ss, _, err := s.concurrentSave(SSRequest{})
				if err != nil {
					continue // (nothing new to snapshot)
				}
				d.mu.Lock()
				persisted, applied := d.persisted, d.applied
				d.mu.Unlock()
				snap.cur = ss
				last = ss.Index
				emit(odEv{Op: "Record", Index: ss.Index, OnDisk: ss.OnDiskIndex, Persisted: persisted, Applied: applied, Racing: true})
			}
			close(stop)
			awg.Wait()
		}
		for round := 0; round < 4; round++ {
			odApply(s, batch(1+rng.Intn(4)))
			racing := rng.Intn(4) > 0
			var wg sync.WaitGroup
			if racing {
				es := batch(1 + rng.Intn(3))
				d.onSync = func() {
					d.onSync = nil
					wg.Add(1)
					go func() {
						defer wg.Done()
						odApply(s, es) // queues behind the state machine's lock like the apply worker
					}()
					time.Sleep(2 * time.Millisecond)
				}
			}
			var ss pb.Snapshot
			msg := ""
			func() {
				defer func() {
					if r := recover(); r != nil {
						msg = fmt.Sprintf("panic: %v", r)
					}
				}()
				var err error
				ss, _, err = s.concurrentSave(SSRequest{})
				if err != nil {
					msg = err.Error()
				}
			}()
			persisted := d.persisted
			image := d.image
			wg.Wait()
			d.onSync = nil
			if msg != "" {
				emit(odEv{Op: "SaveFailed", Msg: msg})
				continue
			}
			snap.cur = ss
			emit(odEv{Op: "Record", Index: ss.Index, OnDisk: ss.OnDiskIndex, Persisted: persisted, Applied: d.applied, Racing: racing})
			// the power is lost now: a fresh instance at the persisted state
			d2 := &odDisk{kv: map[uint64]uint64{}, openAt: persisted, applied: persisted}
			for kk, v := range image {
				d2.kv[kk] = v
			}
			s2, snap2 := odNew(fs, d2)
			snap2.cur = ss
			rmsg := ""
			same := false
			func() {
				defer func() {
					if r := recover(); r != nil {
						rmsg = fmt.Sprintf("panic: %v", r)
					}
				}()
				if _, err := s2.OpenOnDiskStateMachine(); err != nil {
					panic(err)
				}
				if _, err := s2.Recover(Task{Recover: true, Initial: true}); err != nil {
					panic(err)
				}
				// the log was compacted up to the snapshot: what is left is replayed
				rest := []pb.Entry{}
				for _, e := range stream {
					if e.Index > ss.Index {
						rest = append(rest, e)
					}
				}
				if len(rest) > 0 {
					odApply(s2, rest)
				}
				same = len(d2.kv) == len(d.kv)
				for kk, v := range d.kv {
					if d2.kv[kk] != v {
						same = false
					}
				}
			}()
			emit(odEv{Op: "Restarted", Index: ss.Index, Persisted: persisted, Same: same, Msg: rmsg})
		}
	}
}
