//go:build verif

// sfsim: snapshot file format. Part "blocks": the real BlockWriter / blockReader with a small
// block size, every payload length around the block boundaries, seeded write and read
// segmentations, every single-bit flip and every truncation point of the block stream.
// Part "file": the real SnapshotWriter / SnapshotReader / SnapshotValidator / ShrinkSnapshot with
// the production constants (1 KB header, 2 MB blocks), with and without compression, payload
// lengths 0, 1, around one and two blocks, seeded segmentations and chunkings, bit flips and
// truncations in every region of the file (header length / body / crc slot / padding, block
// payload, block checksum, tail total, tail magic). spec/SnapshotFileTrace.tla holds the layout,
// the size formula and the expected outcome of every perturbation.
package rsm

import (
	"bufio"
	"bytes"
	"encoding/binary"
	"encoding/json"
	"fmt"
	"hash/crc32"
	"io"
	"math/rand"
	"os"
	"sort"
	"strconv"
	"testing"

	"github.com/lni/dragonboat/v4/internal/utils/dio"
	pb "github.com/lni/dragonboat/v4/raftpb"
	"github.com/lni/vfs"
)

type sfPert struct {
	Off  int    `json:"off"`
	Res  string `json:"res"`  // reader: "fail", "same", "diff"
	VRes string `json:"vres"` // stream validator: "reject", "accept", "" (not run)
}

type sfEv struct {
	T            int      `json:"t"`
	I            int      `json:"i"`
	Op           string   `json:"op"`
	B            int      `json:"b"`
	N            int      `json:"n"`
	Ct           int      `json:"ct"`
	Ver          int      `json:"ver"`          // snapshot format version of the file (part "file")
	Zero         bool     `json:"zero"`         // crafted payload: one flipped bit makes its CRC32 the all-zero value
	OneWrite     bool     `json:"onewrite"`     // sessions and payload handed to the writer in a single Write call
	BufKept      bool     `json:"bufkept"`      // the caller's buffer is unchanged after the write
	ShrunkBefore bool     `json:"shrunkbefore"` // IsShrunkSnapshotFile on the freshly written file
	Size         int      `json:"size"`
	Hsz          int      `json:"hsz"`
	Blocks       []int    `json:"blocks"`
	ReadOK       bool     `json:"readok"`
	EOFZero      bool     `json:"eofzero"` // a read after EOF returned data
	VOK          bool     `json:"vok"`     // validator accepted the unmodified stream (all chunkings tried)
	Flips        []sfPert `json:"flips"`
	Truncs       []sfPert `json:"truncs"`
	ShrinkOK     bool     `json:"shrinkok"`
	Rec          uint64   `json:"rec"` // file size recorded by the writer (GetPayloadSize + header)
	Msg          string   `json:"msg,omitempty"`
}

type sfSim struct {
	tailAll  bool
	oneWrite bool
	rng      *rand.Rand
	out      *bufio.Writer
	tid      int
	step     int
}

func (s *sfSim) emit(ev sfEv) {
	ev.T, ev.I = s.tid, s.step
	s.step++
	if ev.Blocks == nil {
		ev.Blocks = []int{}
	}
	if ev.Flips == nil {
		ev.Flips = []sfPert{}
	}
	if ev.Truncs == nil {
		ev.Truncs = []sfPert{}
	}
	b, _ := json.Marshal(ev)
	s.out.Write(b)
	s.out.WriteByte('\n')
}

func (s *sfSim) segWrite(w io.Writer, data []byte) {
	for len(data) > 0 {
		k := 1 + s.rng.Intn(len(data))
		if s.rng.Intn(3) == 0 && len(data) > 3 {
			k = 1 + s.rng.Intn(3)
		}
		if _, err := w.Write(data[:k]); err != nil {
			panic(err)
		}
		data = data[k:]
	}
}

// read everything with a seeded buffer size; returns data, error-or-panic
func (s *sfSim) segRead(r io.Reader, bufsz int) (out []byte, failed bool) {
	defer func() {
		if x := recover(); x != nil {
			failed = true
		}
	}()
	buf := make([]byte, bufsz)
	for {
		n, err := r.Read(buf)
		out = append(out, buf[:n]...)
		if err == io.EOF || err == io.ErrUnexpectedEOF {
			return out, err == io.ErrUnexpectedEOF
		}
		if err != nil {
			return out, true
		}
		if n == 0 && bufsz > 0 {
			return out, false
		}
	}
}

// ---- part "blocks": small block size
func (s *sfSim) blocks(B int, n int) {
	payload := make([]byte, n)
	s.rng.Read(payload)
	var stream []byte
	blocks := []int{}
	bw := NewBlockWriter(uint64(B), func(data []byte, crc []byte) error {
		stream = append(stream, data...)
		stream = append(stream, crc...)
		blocks = append(blocks, len(data))
		return nil
	}, DefaultChecksumType)
	s.segWrite(bw, payload)
	if err := bw.Close(); err != nil {
		panic(err)
	}
	// Close() emits the 16 byte tail (total | magic) as a last pseudo block; the file reader cuts it
	// off before the block reader sees the stream
	if len(stream) < 16 || len(blocks) == 0 || blocks[len(blocks)-1] != 16 {
		panic("no tail")
	}
	tail := stream[len(stream)-16:]
	stream = stream[:len(stream)-16]
	blocks = blocks[:len(blocks)-1]
	ev := sfEv{Op: "Blocks", B: B, N: n, Size: len(stream), Blocks: blocks, ReadOK: true}
	if binary.LittleEndian.Uint64(tail) != uint64(len(stream)) || !bytes.Equal(tail[8:], writerMagicNumber) {
		ev.ReadOK = false
	}
	for _, bufsz := range []int{1, 2, B - 1, B, B + 1, 2*B + 3, 1 + s.rng.Intn(3*B)} {
		if bufsz <= 0 {
			continue
		}
		br := newBlockReader(bytes.NewReader(stream), uint64(B), DefaultChecksumType)
		got, failed := s.segRead(br, bufsz)
		if failed || !bytes.Equal(got, payload) {
			ev.ReadOK = false
		}
		// a read after the end must not invent data
		extra := make([]byte, B)
		func() {
			defer func() { recover() }()
			if k, _ := br.Read(extra); k > 0 {
				ev.EOFZero = true
			}
		}()
	}
	for off := 0; off < len(stream); off++ {
		for bit := 0; bit < 8; bit++ {
			d := append([]byte{}, stream...)
			d[off] ^= 1 << uint(bit)
			br := newBlockReader(bytes.NewReader(d), uint64(B), DefaultChecksumType)
			got, failed := s.segRead(br, 1+s.rng.Intn(2*B))
			res := "fail"
			if !failed {
				if bytes.Equal(got, payload) {
					res = "same"
				} else {
					res = "diff"
				}
			}
			if res != "fail" {
				ev.Flips = append(ev.Flips, sfPert{Off: off, Res: res})
			}
		}
	}
	for at := 0; at < len(stream); at++ {
		br := newBlockReader(bytes.NewReader(stream[:at]), uint64(B), DefaultChecksumType)
		got, failed := s.segRead(br, 1+s.rng.Intn(2*B))
		if !failed {
			res := "diff"
			if bytes.Equal(got, payload) {
				res = "same"
			}
			ev.Truncs = append(ev.Truncs, sfPert{Off: at, Res: res})
		}
	}
	s.emit(ev)
}

// ---- part "file": production constants
func (s *sfSim) loadFile(fs vfs.FS, fp string, bufsz int) (sess []byte, payload []byte, failed bool) {
	defer func() {
		if x := recover(); x != nil {
			failed = true
		}
	}()
	r, header, err := NewSnapshotReader(fp, fs)
	if err != nil {
		return nil, nil, true
	}
	cr := dio.NewDecompressor(header.CompressionType, r)
	defer func() {
		if err := cr.Close(); err != nil {
			failed = true
		}
	}()
	all, f := s.segRead(cr, bufsz)
	if f || len(all) < 16 {
		return nil, nil, true
	}
	return all[:16], all[16:], false
}

// loadFileExact is a consumer that knows how much it wants (length-prefixed decoding, io.ReadFull): it reads
// exactly `total` bytes of the stored stream, never asks for more - so it never sees io.EOF - and closes the reader
func (s *sfSim) loadFileExact(fs vfs.FS, fp string, total int) (sess []byte, payload []byte, failed bool) {
	defer func() {
		if x := recover(); x != nil {
			failed = true
		}
	}()
	r, header, err := NewSnapshotReader(fp, fs)
	if err != nil {
		return nil, nil, true
	}
	cr := dio.NewDecompressor(header.CompressionType, r)
	defer func() {
		if err := cr.Close(); err != nil {
			failed = true
		}
	}()
	all := make([]byte, total)
	if _, err := io.ReadFull(cr, all); err != nil || total < 16 {
		return nil, nil, true
	}
	return all[:16], all[16:], false
}

func validate(data []byte, chunk int) (ok bool) {
	defer func() {
		if x := recover(); x != nil {
			ok = false
		}
	}()
	v := NewSnapshotValidator()
	id := uint64(0)
	first := chunk
	if first < int(HeaderSize) {
		first = int(HeaderSize)
	}
	if first > len(data) {
		first = len(data)
	}
	if first < int(HeaderSize) {
		return false // shorter than a header block: nothing the receiver could accept
	}
	if !v.AddChunk(data[:first], id) {
		return false
	}
	for p := first; p < len(data); p += chunk {
		e := p + chunk
		if e > len(data) {
			e = len(data)
		}
		id++
		if !v.AddChunk(data[p:e], id) {
			return false
		}
	}
	return v.Validate()
}

// crc32Forge returns four bytes x such that crc32(prefix || x) == want (CRC32 is affine in x).
func crc32Forge(prefix []byte, want uint32) []byte {
	base := crc32.ChecksumIEEE(append(append([]byte{}, prefix...), 0, 0, 0, 0))
	pc := crc32.ChecksumIEEE(prefix)
	var col [32]uint32
	for i := 0; i < 32; i++ {
		var x [4]byte
		x[i/8] = 1 << uint(i%8)
		col[i] = crc32.Update(pc, crc32.IEEETable, x[:]) ^ base
	}
	// gaussian elimination over GF(2): find the set of columns whose xor is want ^ base
	target := want ^ base
	var rows [32]uint64 // bit j of the crc: low 32 bits = coefficients, bit 32 = right hand side
	for j := 0; j < 32; j++ {
		for i := 0; i < 32; i++ {
			if col[i]&(1<<uint(j)) != 0 {
				rows[j] |= 1 << uint(i)
			}
		}
		if target&(1<<uint(j)) != 0 {
			rows[j] |= 1 << 32
		}
	}
	r := 0
	var pivot [32]int
	for c := 0; c < 32 && r < 32; c++ {
		p := -1
		for j := r; j < 32; j++ {
			if rows[j]&(1<<uint(c)) != 0 {
				p = j
				break
			}
		}
		if p < 0 {
			continue
		}
		rows[r], rows[p] = rows[p], rows[r]
		for j := 0; j < 32; j++ {
			if j != r && rows[j]&(1<<uint(c)) != 0 {
				rows[j] ^= rows[r]
			}
		}
		pivot[r] = c
		r++
	}
	var x [4]byte
	for j := 0; j < r; j++ {
		if rows[j]&(1<<32) != 0 {
			c := pivot[j]
			x[c/8] |= 1 << uint(c%8)
		}
	}
	out := append(append([]byte{}, prefix...), x[:]...)
	if crc32.ChecksumIEEE(out) != want {
		panic("crc32Forge failed")
	}
	return x[:]
}

func (s *sfSim) file(n int, ct pb.CompressionType) {
	s.fileV(V2, n, ct, false)
}

// fileV: zero (NoCompression, n >= 5): the payload is crafted so that flipping one chosen bit of the
// stored stream gives a stream whose CRC32 is 00000000, the value the code base uses as "no checksum"
// sentinel elsewhere; that flip is tried on top of the usual ones.
func (s *sfSim) fileV(ver SSVersion, n int, ct pb.CompressionType, zero bool) {
	fs := vfs.NewMem()
	if err := fs.MkdirAll("/d", 0755); err != nil {
		panic(err)
	}
	fp := "/d/snapshot-0000000000000001.gbsnap"
	payload := make([]byte, n)
	s.rng.Read(payload)
	if ct != pb.NoCompression {
		// compressible but not trivial
		for i := range payload {
			payload[i] &= 3
		}
	}
	sess := GetEmptyLRUSession()
	exact := [][2]int{}
	if zero {
		// stored stream = sess || payload; choose the flipped bit, then the last four bytes
		pos := s.rng.Intn(len(sess) + n - 4)
		bit := s.rng.Intn(8)
		stream := append(append([]byte{}, sess...), payload[:n-4]...)
		stream[pos] ^= 1 << uint(bit)
		x := crc32Forge(stream, 0)
		copy(payload[n-4:], x)
		exact = append(exact, [2]int{int(HeaderSize) + pos, bit})
	}
	w, err := newVersionedSnapshotWriter(fp, ver, ct, fs)
	if err != nil {
		panic(err)
	}
	cw := dio.NewCountedWriter(w)
	sw := dio.NewCompressor(ct, cw)
	bufKept := true
	if s.oneWrite {
		// one Write call that spans several blocks (the writer may not keep or modify the caller's slice)
		buf := append(append([]byte{}, sess...), payload...)
		keep := append([]byte{}, buf...)
		if _, err := sw.Write(buf); err != nil {
			panic(err)
		}
		bufKept = bytes.Equal(buf, keep)
	} else {
		s.segWrite(sw, sess)
		s.segWrite(sw, payload)
	}
	if err := sw.Close(); err != nil {
		panic(err)
	}
	rec := w.GetPayloadSize(cw.BytesWritten()) + HeaderSize
	f, _ := fs.Open(fp)
	data, _ := io.ReadAll(f)
	f.Close()
	shrunkBefore := false
	if ver == V2 {
		func() {
			defer func() { _ = recover() }()
			shrunkBefore, _ = IsShrunkSnapshotFile(fp, fs)
		}()
	}
	ev := sfEv{Op: "File", Ver: int(ver), Zero: zero, OneWrite: s.oneWrite, BufKept: bufKept, ShrunkBefore: shrunkBefore, N: n, Ct: int(ct), Size: len(data), Hsz: int(binary.LittleEndian.Uint64(data)), Rec: rec, ReadOK: true, VOK: true}
	for _, bufsz := range []int{1 + s.rng.Intn(7), 4096, 1 + s.rng.Intn(3*1024*1024)} {
		gs, gp, failed := s.loadFile(fs, fp, bufsz)
		if failed || !bytes.Equal(gs, sess) || !bytes.Equal(gp, payload) {
			ev.ReadOK = false
		}
	}
	for _, chunk := range []int{1024, 1 + s.rng.Intn(5000), 2 * 1024 * 1024, len(data) + 1, 1 + s.rng.Intn(len(data))} {
		if !validate(data, chunk) {
			ev.VOK = false
		}
	}
	write := func(p string, d []byte) {
		f, err := fs.Create(p)
		if err != nil {
			panic(err)
		}
		f.Write(d)
		f.Close()
	}
	// perturbations: every region of the header block and of the tail, block boundaries, random places
	offs := map[int]bool{}
	hsz := ev.Hsz
	for _, o := range []int{0, 3, 7, 8, 9, 8 + hsz/2, 8 + hsz - 1, 8 + hsz, 8 + hsz + 3, 8 + hsz + 4, 600, 1023,
		1024, 1025, 1024 + 15, 1024 + 16, len(data) - 1, len(data) - 7, len(data) - 8, len(data) - 9, len(data) - 16,
		len(data) - 17, len(data) - 20, len(data) - 21, 1024 + 2*1024*1024 - 1, 1024 + 2*1024*1024, 1024 + 2*1024*1024 + 3,
		1024 + 2*1024*1024 + 4, 1024 + 2*1024*1024 + 5,
		// inside the second, third and fourth block of the stream (the validator is also handed several blocks at once)
		1024 + (2*1024*1024 + 4) + 100, 1024 + 2*(2*1024*1024+4) + 100, 1024 + 3*(2*1024*1024+4) + 100} {
		if o >= 0 && o < len(data) {
			offs[o] = true
		}
	}
	for i := 0; i < 12; i++ {
		offs[s.rng.Intn(len(data))] = true
	}
	fp2 := "/d/perturbed.gbsnap"
	sorted := make([]int, 0, len(offs))
	for o := range offs {
		sorted = append(sorted, o)
	}
	sort.Ints(sorted)
	for _, o := range sorted {
		exact = append(exact, [2]int{o, s.rng.Intn(8)})
	}
	for _, ob := range exact {
		o := ob[0]
		d := append([]byte{}, data...)
		d[o] ^= 1 << uint(ob[1])
		write(fp2, d)
		gs, gp, failed := s.loadFile(fs, fp2, 1+s.rng.Intn(100000))
		p := sfPert{Off: o, Res: "fail", VRes: "reject"}
		if !failed {
			if bytes.Equal(gs, sess) && bytes.Equal(gp, payload) {
				p.Res = "same"
			} else {
				p.Res = "diff"
			}
		} else if gs, gp, failed := s.loadFileExact(fs, fp2, len(sess)+len(payload)); !failed &&
			!(bytes.Equal(gs, sess) && bytes.Equal(gp, payload)) {
			// a reader that stops at the end of what it expects was handed altered bytes without an error
			p.Res = "diff"
		}
		if validate(d, 1+s.rng.Intn(len(d))) {
			p.VRes = "accept"
		}
		if len(d) > 4*1024*1024 && (validate(d, len(d)) || validate(d, 4*1024*1024+4096) || validate(d, 6*1024*1024+8192)) {
			// several blocks handed to the validator in one call (the whole image; two blocks and a bit)
			p.VRes = "accept"
		}
		ev.Flips = append(ev.Flips, p)
	}
	if s.tailAll && ver == V2 {
		// every bit of the 16 byte tail record (total size | magic number)
		for o := len(data) - 16; o < len(data); o++ {
			for bit := uint(0); bit < 8; bit++ {
				d := append([]byte{}, data...)
				d[o] ^= 1 << bit
				write(fp2, d)
				gs, gp, failed := s.loadFile(fs, fp2, 1+s.rng.Intn(100000))
				p := sfPert{Off: o, Res: "fail", VRes: "reject"}
				if !failed {
					if bytes.Equal(gs, sess) && bytes.Equal(gp, payload) {
						p.Res = "same"
					} else {
						p.Res = "diff"
					}
				}
				if validate(d, 1+s.rng.Intn(len(d))) {
					p.VRes = "accept"
				}
				ev.Flips = append(ev.Flips, p)
			}
		}
	}
	cuts := map[int]bool{0: true, 8: true, 1023: true, 1024: true, len(data) - 1: true, len(data) - 8: true,
		len(data) - 16: true, len(data) - 17: true, len(data) - 20: true}
	for i := 0; i < 6; i++ {
		cuts[s.rng.Intn(len(data))] = true
	}
	for at := range cuts {
		if at < 0 || at >= len(data) {
			continue
		}
		write(fp2, data[:at])
		gs, gp, failed := s.loadFile(fs, fp2, 1+s.rng.Intn(100000))
		p := sfPert{Off: at, Res: "fail", VRes: "reject"}
		if !failed {
			if bytes.Equal(gs, sess) && bytes.Equal(gp, payload) {
				p.Res = "same"
			} else {
				p.Res = "diff"
			}
		}
		if at >= int(HeaderSize) && validate(data[:at], 1+s.rng.Intn(len(data))) {
			p.VRes = "accept"
		}
		ev.Truncs = append(ev.Truncs, p)
	}
	// a shrunk snapshot stays loadable as an empty-payload snapshot and passes the validator.
	// Only for the current format: version 1 files predate on-disk state machines, they are never
	// shrunk (ShrinkSnapshot on one panics in the reader's Close, noted in DESIGN.md, not judged).
	if ver != V2 {
		ev.ShrinkOK = true
		s.emit(ev)
		return
	}
	func() {
		defer func() {
			if x := recover(); x != nil {
				ev.ShrinkOK = false
			}
		}()
		tmp := "/d/shrunk.tmp"
		if err := ShrinkSnapshot(fp, tmp, fs); err != nil {
			return
		}
		if err := ReplaceSnapshot(tmp, fp, fs); err != nil {
			return
		}
		shrunk, err := IsShrunkSnapshotFile(fp, fs)
		if err != nil || !shrunk {
			return
		}
		gs, gp, failed := s.loadFile(fs, fp, 1+s.rng.Intn(1000))
		f, _ := fs.Open(fp)
		sd, _ := io.ReadAll(f)
		f.Close()
		ev.ShrinkOK = !failed && bytes.Equal(gs, sess) && len(gp) == 0 && validate(sd, 1+s.rng.Intn(len(sd)))
	}()
	s.emit(ev)
}

func TestVerifSfsim(t *testing.T) {
	outPath := os.Getenv("VERIF_OUT")
	if outPath == "" {
		t.Skip("VERIF_OUT not set")
	}
	geti := func(k string, d int) int {
		if v := os.Getenv(k); v != "" {
			if n, err := strconv.Atoi(v); err == nil {
				return n
			}
		}
		return d
	}
	seed := int64(geti("VERIF_SEED", 1))
	traces := geti("VERIF_TRACES", 2)
	first := geti("VERIF_FIRST", 0)
	big := geti("VERIF_BIG", 0)
	f, err := os.Create(outPath)
	if err != nil {
		t.Fatal(err)
	}
	defer f.Close()
	w := bufio.NewWriterSize(f, 1<<20)
	defer w.Flush()
	cnt := map[string]int{}
	for i := 0; i < traces; i++ {
		tid := first + i
		s := &sfSim{rng: rand.New(rand.NewSource(seed*86028121 + int64(tid))), out: w, tid: tid}
		func() {
			defer func() {
				if r := recover(); r != nil {
					s.emit(sfEv{Op: "Panic", Msg: fmt.Sprint(r)})
					cnt["Panic"]++
				}
			}()
			B := []int{3, 4, 5, 8}[tid%4]
			for n := 0; n <= 2*B+2; n++ {
				s.blocks(B, n)
				cnt["Blocks"]++
			}
			bs := 2 * 1024 * 1024
			sizes := []int{0, 1, 100 + s.rng.Intn(5000)}
			if big > 0 {
				sizes = append(sizes, []int{bs - 17, bs - 16, bs - 15, 2*bs + 5 - 16}[tid%4])
			}
			sizes = append(sizes, 2+tid%6) // tiny payloads: shorter than every fixed-size field of the format
			for _, n := range sizes {
				for _, ct := range []pb.CompressionType{pb.NoCompression, pb.Snappy} {
					s.file(n, ct)
					cnt["File"]++
				}
			}
			// the whole stream in one Write call (several blocks when VERIF_BIG)
			s.oneWrite = true
			s.file(100+s.rng.Intn(5000), pb.NoCompression)
			cnt["File"]++
			if big > 0 {
				s.file(2*bs+1+s.rng.Intn(bs), []pb.CompressionType{pb.NoCompression, pb.Snappy}[tid%2])
				cnt["File"]++
			}
			if big > 0 && tid%4 == 1 {
				// five blocks: a validator that is handed the whole image (or three blocks at a time) has to
				// check every one of them
				s.file(4*bs+1+s.rng.Intn(bs), pb.NoCompression)
				cnt["File"]++
			}
			s.oneWrite = false
			// stored sizes of the form 2^k (payload + block checksum) or blocks + 2^k: one flipped
			// bit of the recorded total then names another block boundary (or nothing at all)
			ls := len(GetEmptyLRUSession())
			k := uint(4 + tid%9)
			s.tailAll = true
			if n := (1 << k) - 4 - ls; n >= 0 {
				s.file(n, pb.NoCompression)
				cnt["File"]++
			}
			if big > 0 {
				s.file(bs+(1<<k)-4-ls, pb.NoCompression)
				cnt["File"]++
			}
			s.tailAll = false
			// version 1 files (read side only in production: one CRC32 over the whole payload), and
			// crafted payloads for both versions
			for _, n := range []int{0, 1, 5 + s.rng.Intn(3000)} {
				s.fileV(V1, n, []pb.CompressionType{pb.NoCompression, pb.Snappy}[(tid+n)%2], false)
				cnt["FileV1"]++
			}
			s.fileV(V1, 5+s.rng.Intn(70000), pb.NoCompression, true)
			s.fileV(V2, 5+s.rng.Intn(70000), pb.NoCompression, true)
			cnt["FileZero"] += 2
		}()
	}
	fmt.Printf("SFSIM-STATS %v\n", cnt)
}
