//go:build verif

// smsim: drives real rsm.StateMachine instances (real session manager, real membership
// rules, real managed state machine adapters, real snapshot writer/reader) with seeded
// streams of committed entries: session register/unregister, proposals with retries
// (duplicates anywhere in the log), acknowledgements, NoOP-session proposals, empty
// entries, membership changes (valid and invalid), batched through the task queue.
// Snapshots are saved at random cuts and recovered into fresh instances which then apply
// the rest of the stream next to the uninterrupted instance. Every callback and the
// projected state are logged; spec/RSMTrace.tla recomputes them from spec/RSM.tla.
package rsm

import (
	"bufio"
	"encoding/binary"
	"encoding/json"
	"errors"
	"fmt"
	"io"
	"math/rand"
	"os"
	"sort"
	"strconv"
	"testing"
	"time"

	"github.com/lni/dragonboat/v4/client"
	"github.com/lni/dragonboat/v4/config"
	"github.com/lni/dragonboat/v4/internal/utils/dio"
	pb "github.com/lni/dragonboat/v4/raftpb"
	sm "github.com/lni/dragonboat/v4/statemachine"
	"github.com/lni/vfs"
)

// ---------------------------------------------------------------- user state machines

type vKV struct {
	kv    map[uint64]uint64
	cnt   uint64
	calls []uint64 // entry index of every Update call, in call order
}

func (k *vKV) apply(e sm.Entry) sm.Result {
	key := binary.LittleEndian.Uint64(e.Cmd)
	val := binary.LittleEndian.Uint64(e.Cmd[8:])
	k.kv[key] = val
	k.cnt++
	k.calls = append(k.calls, e.Index)
	if key%3 == 2 {
		// the empty result is a legitimate answer; it must be remembered like any other
		return sm.Result{}
	}
	return sm.Result{Value: k.cnt*1000 + val}
}

func (k *vKV) save(w io.Writer) error {
	keys := make([]uint64, 0, len(k.kv))
	for x := range k.kv {
		keys = append(keys, x)
	}
	sort.Slice(keys, func(i, j int) bool { return keys[i] < keys[j] })
	buf := make([]byte, 16)
	binary.LittleEndian.PutUint64(buf, k.cnt)
	binary.LittleEndian.PutUint64(buf[8:], uint64(len(keys)))
	if _, err := w.Write(buf); err != nil {
		return err
	}
	for _, x := range keys {
		binary.LittleEndian.PutUint64(buf, x)
		binary.LittleEndian.PutUint64(buf[8:], k.kv[x])
		if _, err := w.Write(buf); err != nil {
			return err
		}
	}
	return nil
}

func (k *vKV) load(r io.Reader) error {
	buf := make([]byte, 16)
	if _, err := io.ReadFull(r, buf); err != nil {
		return err
	}
	k.cnt = binary.LittleEndian.Uint64(buf)
	n := binary.LittleEndian.Uint64(buf[8:])
	k.kv = map[uint64]uint64{}
	for i := uint64(0); i < n; i++ {
		if _, err := io.ReadFull(r, buf); err != nil {
			return err
		}
		k.kv[binary.LittleEndian.Uint64(buf)] = binary.LittleEndian.Uint64(buf[8:])
	}
	return nil
}

type vRegularSM struct{ *vKV }

func (s *vRegularSM) Update(e sm.Entry) (sm.Result, error)      { return s.apply(e), nil }
func (s *vRegularSM) Lookup(q interface{}) (interface{}, error) { return s.kv[q.(uint64)], nil }
func (s *vRegularSM) SaveSnapshot(w io.Writer, _ sm.ISnapshotFileCollection, _ <-chan struct{}) error {
	return s.save(w)
}
func (s *vRegularSM) RecoverFromSnapshot(r io.Reader, _ []sm.SnapshotFile, _ <-chan struct{}) error {
	return s.load(r)
}
func (s *vRegularSM) Close() error { return nil }

type vConcurrentSM struct{ *vKV }

func (s *vConcurrentSM) Update(es []sm.Entry) ([]sm.Entry, error) {
	for i := range es {
		es[i].Result = s.apply(es[i])
	}
	return es, nil
}
func (s *vConcurrentSM) Lookup(q interface{}) (interface{}, error) { return s.kv[q.(uint64)], nil }
func (s *vConcurrentSM) PrepareSnapshot() (interface{}, error) {
	c := &vKV{kv: map[uint64]uint64{}, cnt: s.cnt}
	for k, v := range s.kv {
		c.kv[k] = v
	}
	return c, nil
}
func (s *vConcurrentSM) SaveSnapshot(ctx interface{}, w io.Writer, _ sm.ISnapshotFileCollection, _ <-chan struct{}) error {
	return ctx.(*vKV).save(w)
}
func (s *vConcurrentSM) RecoverFromSnapshot(r io.Reader, _ []sm.SnapshotFile, _ <-chan struct{}) error {
	return s.load(r)
}
func (s *vConcurrentSM) Close() error { return nil }

// ---------------------------------------------------------------- node + snapshotter

type vCB struct {
	Called   bool   `json:"called"`
	Value    uint64 `json:"value"`
	Rejected bool   `json:"rejected"`
	Ignored  bool   `json:"ignored"`
}

type vNode struct {
	cbs     map[uint64]vCB
	onApply func(index uint64) // set while a batch is applied whose notifications race a snapshot save
}

func (n *vNode) StepReady()                       {}
func (n *vNode) RestoreRemotes(pb.Snapshot) error { return nil }
func (n *vNode) ApplyUpdate(e pb.Entry, r sm.Result, rejected bool, ignored bool, last bool) {
	if _, ok := n.cbs[e.Index]; ok {
		panic(fmt.Sprintf("two callbacks for entry %d", e.Index))
	}
	n.cbs[e.Index] = vCB{Called: true, Value: r.Value, Rejected: rejected, Ignored: ignored}
	if n.onApply != nil {
		n.onApply(e.Index)
	}
}
func (n *vNode) ApplyConfigChange(cc pb.ConfigChange, key uint64, rejected bool) error {
	n.cbs[key] = vCB{Called: true, Rejected: rejected}
	return nil
}
func (n *vNode) ReplicaID() uint64           { return 1 }
func (n *vNode) ShardID() uint64             { return 1 }
func (n *vNode) ShouldStop() <-chan struct{} { return nil }

var errNoSS = errors.New("no snapshot available")

type vSnapshotter struct {
	fs  vfs.FS
	cur pb.Snapshot
	all map[uint64]pb.Snapshot
}

func (s *vSnapshotter) path(index uint64) string {
	return fmt.Sprintf("/ss/snapshot-%016X.gbsnap", index)
}
func (s *vSnapshotter) GetSnapshot() (pb.Snapshot, error) {
	if s.cur.Index == 0 {
		return pb.Snapshot{}, errNoSS
	}
	return s.cur, nil
}
func (s *vSnapshotter) IsNoSnapshotError(err error) bool { return err == errNoSS }
func (s *vSnapshotter) Shrunk(ss pb.Snapshot) (bool, error) {
	return IsShrunkSnapshotFile(s.path(ss.Index), s.fs)
}
func (s *vSnapshotter) Stream(IStreamable, SSMeta, pb.IChunkSink) error {
	return errors.New("not used here")
}
func (s *vSnapshotter) Save(savable ISavable, meta SSMeta) (ss pb.Snapshot, env SSEnv, err error) {
	fp := s.path(meta.Index)
	w, err := NewSnapshotWriter(fp, meta.CompressionType, s.fs)
	if err != nil {
		return pb.Snapshot{}, env, err
	}
	cw := dio.NewCountedWriter(w)
	sw := dio.NewCompressor(meta.CompressionType, cw)
	defer func() {
		err = firstError(err, sw.Close())
		if ss.Index > 0 {
			ss.Checksum = w.GetPayloadChecksum()
			ss.FileSize = w.GetPayloadSize(cw.BytesWritten()) + HeaderSize
		}
	}()
	dummy, err := savable.Save(meta, sw, meta.Session.Bytes(), NewFileCollection())
	if err != nil {
		return pb.Snapshot{}, env, err
	}
	return pb.Snapshot{ShardID: 1, Filepath: fp, Membership: meta.Membership, Index: meta.Index,
		Term: meta.Term, OnDiskIndex: meta.OnDiskIndex, Dummy: dummy, Type: meta.Type}, env, nil
}
func (s *vSnapshotter) Load(ss pb.Snapshot, sessions ILoadable, asm IRecoverable) (err error) {
	reader, header, err := NewSnapshotReader(s.path(ss.Index), s.fs)
	if err != nil {
		return err
	}
	cr := dio.NewDecompressor(header.CompressionType, reader)
	defer func() {
		err = firstError(err, cr.Close())
	}()
	if err := sessions.LoadSessions(cr, SSVersion(header.Version)); err != nil {
		return err
	}
	return asm.Recover(cr, nil)
}

// ---------------------------------------------------------------- instances, projection

type vInst struct {
	id   int
	s    *StateMachine
	kv   *vKV
	node *vNode
	snap *vSnapshotter
}

type jPair [2]uint64
type jAddr struct {
	ID   uint64 `json:"id"`
	Addr string `json:"addr"`
}
type jSess struct {
	Cid  uint64  `json:"cid"`
	Resp uint64  `json:"resp"`
	Hist []jPair `json:"hist"`
}
type jMemb struct {
	V    []jAddr  `json:"v"`
	NV   []jAddr  `json:"nv"`
	W    []jAddr  `json:"w"`
	RM   []uint64 `json:"rm"`
	Ccid uint64   `json:"ccid"`
}
type jState struct {
	KV   []jPair `json:"kv"`
	Cnt  uint64  `json:"cnt"`
	Sess []jSess `json:"sess"`
	Mem  jMemb   `json:"mem"`
	Idx  uint64  `json:"idx"`
	Term uint64  `json:"term"`
}

func addrs(m map[uint64]string) []jAddr {
	r := []jAddr{}
	for k, v := range m {
		r = append(r, jAddr{k, v})
	}
	sort.Slice(r, func(i, j int) bool { return r[i].ID < r[j].ID })
	return r
}

func (in *vInst) proj() *jState {
	st := &jState{KV: []jPair{}, Cnt: in.kv.cnt, Sess: []jSess{}, Idx: in.s.index, Term: in.s.term}
	for k, v := range in.kv.kv {
		st.KV = append(st.KV, jPair{k, v})
	}
	sort.Slice(st.KV, func(i, j int) bool { return st.KV[i][0] < st.KV[j][0] })
	// least recently used first; OrderedDo does not touch the entries
	in.s.sessions.lru.sessions.OrderedDo(func(k, v interface{}) {
		s := v.(*Session)
		js := jSess{Cid: uint64(s.ClientID), Resp: uint64(s.RespondedUpTo), Hist: []jPair{}}
		for id, r := range s.History {
			js.Hist = append(js.Hist, jPair{uint64(id), r.Value})
		}
		sort.Slice(js.Hist, func(i, j int) bool { return js.Hist[i][0] < js.Hist[j][0] })
		st.Sess = append(st.Sess, js)
	})
	m := in.s.members.members
	rm := []uint64{}
	for k := range m.Removed {
		rm = append(rm, k)
	}
	sort.Slice(rm, func(i, j int) bool { return rm[i] < rm[j] })
	st.Mem = jMemb{V: addrs(m.Addresses), NV: addrs(m.NonVotings), W: addrs(m.Witnesses), RM: rm, Ccid: m.ConfigChangeId}
	return st
}

// ---------------------------------------------------------------- entries

type jCC struct {
	Typ  string `json:"typ"`
	ID   uint64 `json:"id"`
	Addr string `json:"addr"`
	Ccid uint64 `json:"ccid"`
	Init bool   `json:"init"`
}
type jEntry struct {
	Idx    uint64 `json:"idx"`
	Term   uint64 `json:"term"`
	Kind   string `json:"kind"`
	Cid    uint64 `json:"cid"`
	Series uint64 `json:"series"`
	Resp   uint64 `json:"resp"`
	Key    uint64 `json:"key"`
	Val    uint64 `json:"val"`
	CC     jCC    `json:"cc"`
}

func mkEntry(j jEntry) pb.Entry {
	e := pb.Entry{Index: j.Idx, Term: j.Term, Key: j.Idx}
	switch j.Kind {
	case "noop":
	case "reg":
		e.ClientID, e.SeriesID = j.Cid, client.SeriesIDForRegister
	case "unreg":
		e.ClientID, e.SeriesID = j.Cid, client.SeriesIDForUnregister
	case "prop":
		e.ClientID, e.SeriesID, e.RespondedTo = j.Cid, j.Series, j.Resp
		e.Cmd = make([]byte, 16)
		binary.LittleEndian.PutUint64(e.Cmd, j.Key)
		binary.LittleEndian.PutUint64(e.Cmd[8:], j.Val)
	case "cc":
		t := map[string]pb.ConfigChangeType{"AddNode": pb.AddNode, "RemoveNode": pb.RemoveNode,
			"AddNonVoting": pb.AddNonVoting, "AddWitness": pb.AddWitness}[j.CC.Typ]
		cc := pb.ConfigChange{ConfigChangeId: j.CC.Ccid, Type: t, ReplicaID: j.CC.ID, Address: j.CC.Addr, Initialize: j.CC.Init}
		e.Type = pb.ConfigChangeEntry
		e.Cmd = pb.MustMarshal(&cc)
	}
	return e
}

// ---------------------------------------------------------------- the driver

type jSmEv struct {
	T       int     `json:"t"`
	I       int     `json:"i"`
	Op      string  `json:"op"`
	SM      int     `json:"sm"`
	Lru     uint64  `json:"lru"`
	Ordered bool    `json:"ordered"`
	Kind    string  `json:"kind"`
	Sid     int     `json:"sid"`
	E       *jEntry `json:"e,omitempty"`
	CB      *vCB    `json:"cb,omitempty"`
	HasSt   bool    `json:"hasst"`
	St      *jState `json:"st,omitempty"`
	Msg     string  `json:"msg,omitempty"`
}

type smSim struct {
	rng      *rand.Rand
	out      *bufio.Writer
	tid      int
	step     int
	fs       vfs.FS
	insts    []*vInst
	nextInst int
	lru      uint64
	ordered  bool
	kind     string
	ct       config.CompressionType
	stream   []jEntry
	counts   map[string]int
	// client side bookkeeping used to generate realistic retries / acknowledgements
	series map[uint64]uint64 // next series id per client
	acked  map[uint64]uint64 // highest acknowledged series per client
	sent   map[uint64][]jEntry
	ccid   uint64
	term   uint64
}

func (s *smSim) emit(ev jSmEv) {
	ev.T, ev.I = s.tid, s.step
	s.step++
	b, err := json.Marshal(ev)
	if err != nil {
		panic(err)
	}
	s.out.Write(b)
	s.out.WriteByte('\n')
	s.counts[ev.Op]++
}

func (s *smSim) newInst() *vInst {
	kv := &vKV{kv: map[uint64]uint64{}}
	node := &vNode{cbs: map[uint64]vCB{}}
	snap := &vSnapshotter{fs: s.fs, all: map[uint64]pb.Snapshot{}}
	cfg := config.Config{ShardID: 1, ReplicaID: 1, OrderedConfigChange: s.ordered, SnapshotCompressionType: s.ct}
	var ism IStateMachine
	if s.kind == "concurrent" {
		ism = NewConcurrentStateMachine(&vConcurrentSM{kv})
	} else {
		ism = NewInMemStateMachine(&vRegularSM{kv})
	}
	managed := NewNativeSM(cfg, ism, make(chan struct{}))
	in := &vInst{id: s.nextInst, kv: kv, node: node, snap: snap}
	in.s = NewStateMachine(managed, snap, cfg, node, s.fs)
	s.nextInst++
	s.insts = append(s.insts, in)
	s.emit(jSmEv{Op: "New", SM: in.id, Lru: s.lru, Ordered: s.ordered, Kind: s.kind})
	return in
}

// next committed entry of the stream
func (s *smSim) genEntry(idx uint64) jEntry {
	if s.rng.Intn(12) == 0 {
		s.term++
	}
	e := jEntry{Idx: idx, Term: s.term}
	nClients := int(s.lru) + 2
	cid := uint64(1 + s.rng.Intn(nClients))
	switch c := s.rng.Intn(100); {
	case c < 6:
		e.Kind = "noop"
	case c < 18:
		e.Kind, e.Cid = "reg", cid
	case c < 23:
		e.Kind, e.Cid = "unreg", cid
	case c < 35:
		e.Kind = "cc"
		typ := []string{"AddNode", "AddNode", "RemoveNode", "AddNonVoting", "AddWitness"}[s.rng.Intn(5)]
		id := uint64(1 + s.rng.Intn(5))
		addr := "a" + strconv.Itoa(int(id))
		if s.rng.Intn(6) == 0 {
			addr = "a" + strconv.Itoa(1+s.rng.Intn(5)) // somebody else's address / changed address
		}
		ccid := s.ccid
		if s.rng.Intn(5) == 0 && s.ccid > 0 {
			ccid = uint64(s.rng.Intn(int(s.ccid) + 1)) // stale id
		}
		e.CC = jCC{Typ: typ, ID: id, Addr: addr, Ccid: ccid}
		if idx <= 3 {
			e.CC = jCC{Typ: "AddNode", ID: idx, Addr: "a" + strconv.Itoa(int(idx)), Init: true}
		}
	case c < 42:
		// NoOP session proposal
		e.Kind, e.Cid, e.Series = "prop", cid, client.NoOPSeriesID
		e.Key, e.Val = uint64(s.rng.Intn(3)), uint64(1+s.rng.Intn(900))
	default:
		e.Kind, e.Cid = "prop", cid
		if old := s.sent[cid]; len(old) > 0 && s.rng.Intn(100) < 35 {
			// a retry of an earlier proposal of this client (same series id, same payload),
			// possibly one that was acknowledged long ago
			o := old[s.rng.Intn(len(old))]
			e.Series, e.Key, e.Val = o.Series, o.Key, o.Val
			e.Resp = s.acked[cid]
			if s.rng.Intn(4) == 0 {
				e.Resp = o.Resp
			}
		} else {
			if s.series[cid] == 0 {
				s.series[cid] = client.SeriesIDFirstProposal
			}
			e.Series = s.series[cid]
			s.series[cid]++
			// the client acknowledges some prefix of what it has seen
			if s.rng.Intn(2) == 0 && e.Series > 1 {
				s.acked[cid] = s.acked[cid] + uint64(s.rng.Intn(int(e.Series-s.acked[cid])))
			}
			e.Resp = s.acked[cid]
			e.Key, e.Val = uint64(s.rng.Intn(3)), uint64(1+s.rng.Intn(900))
			s.sent[cid] = append(s.sent[cid], e)
		}
	}
	if e.Kind == "cc" {
		// the shard's ConfigChangeId moves when a change is accepted; track the reference instance
	}
	return e
}

// apply entries [from, to) of the stream to an instance, in random batches through the task queue
func (s *smSim) applyTo(in *vInst, to uint64) {
	for in.s.index < to {
		n := 1 + s.rng.Intn(4)
		first := in.s.index + 1
		if first+uint64(n)-1 > to {
			n = int(to - first + 1)
		}
		ents := make([]pb.Entry, 0, n)
		for k := 0; k < n; k++ {
			ents = append(ents, mkEntry(s.stream[first+uint64(k)-1]))
		}
		// sometimes an overlapping batch (already applied entries are skipped by the rsm)
		in.s.taskQ.Add(Task{Entries: ents})
		if _, err := in.s.Handle(make([]Task, 0), make([]sm.Entry, 0)); err != nil {
			panic(err)
		}
		for k := 0; k < n; k++ {
			je := s.stream[first+uint64(k)-1]
			cb, ok := in.node.cbs[je.Idx]
			if !ok {
				cb = vCB{}
			}
			delete(in.node.cbs, je.Idx)
			ev := jSmEv{Op: "Apply", SM: in.id, E: &je, CB: &cb}
			if k == n-1 {
				ev.HasSt, ev.St = true, in.proj()
			}
			s.emit(ev)
		}
	}
}

// applyWithRacingSave applies the next entries of the stream to a concurrent state machine as ONE batch while
// a snapshot save is started from inside the client notification of the first entry of the batch (the
// snapshot worker's request arrives while the apply worker is between the user's Update and the end of the
// batch). The save must wait for the end of the batch or see a consistent (index, content) pair; the snapshot
// is recovered on a fresh instance like any other and compared with RSM.tla.
func (s *smSim) applyWithRacingSave(in *vInst, sid int) *pb.Snapshot {
	to := uint64(len(s.stream))
	first := in.s.index + 1
	if to < first+1 || in.s.members.isEmpty() {
		return nil
	}
	if to > first+3 {
		to = first + 3
	}
	ents := []pb.Entry{}
	for i := first; i <= to; i++ {
		ents = append(ents, mkEntry(s.stream[i-1]))
	}
	type res struct {
		ss  pb.Snapshot
		err error
	}
	done := make(chan res, 1)
	started := false
	in.node.onApply = func(index uint64) {
		if started {
			return
		}
		started = true
		go func() {
			ss, _, err := in.s.concurrentSave(SSRequest{})
			done <- res{ss, err}
		}()
		time.Sleep(2 * time.Millisecond) // lets the save reach the state machine's lock
	}
	in.s.taskQ.Add(Task{Entries: ents})
	if _, err := in.s.Handle(make([]Task, 0), make([]sm.Entry, 0)); err != nil {
		panic(err)
	}
	in.node.onApply = nil
	var got *pb.Snapshot
	if started {
		if r := <-done; r.err == nil && r.ss.Index >= first-1 && r.ss.Index <= to {
			got = &r.ss
		}
	}
	// the snapshot belongs to the index it is labelled with: SaveAt is placed behind the Apply event of that
	// index (in front of the batch when it is labelled with the index before it)
	if got != nil && got.Index == first-1 {
		s.emit(jSmEv{Op: "SaveAt", SM: in.id, Sid: sid})
	}
	for i := first; i <= to; i++ {
		je := s.stream[i-1]
		cb, ok := in.node.cbs[je.Idx]
		if !ok {
			cb = vCB{}
		}
		delete(in.node.cbs, je.Idx)
		ev := jSmEv{Op: "Apply", SM: in.id, E: &je, CB: &cb}
		if i == to {
			ev.HasSt, ev.St = true, in.proj()
		}
		s.emit(ev)
		if got != nil && got.Index == i {
			s.emit(jSmEv{Op: "SaveAt", SM: in.id, Sid: sid})
		}
	}
	return got
}

func (s *smSim) run(nEntries int) {
	s.emit(jSmEv{Op: "Init"})
	if err := s.fs.MkdirAll("/ss", 0755); err != nil {
		panic(err)
	}
	ref := s.newInst()
	live := []*vInst{ref}
	sid := 0
	for uint64(len(s.stream)) < uint64(nEntries) {
		// extend the stream by a few entries; the reference instance tracks the shard's ccid
		k := 1 + s.rng.Intn(5)
		for i := 0; i < k; i++ {
			s.ccid = ref.s.members.members.ConfigChangeId
			s.stream = append(s.stream, s.genEntry(uint64(len(s.stream))+1))
			s.applyTo(ref, uint64(len(s.stream)))
		}
		for _, in := range live[1:] {
			if s.kind == "concurrent" && s.rng.Intn(4) == 0 {
				if ss := s.applyWithRacingSave(in, sid+1); ss != nil {
					sid++
					twin := s.newInst()
					twin.snap.cur = *ss
					if _, err := twin.s.Recover(Task{Index: ss.Index}); err != nil {
						panic(err)
					}
					s.emit(jSmEv{Op: "Recover", SM: twin.id, Sid: sid, HasSt: true, St: twin.proj()})
				}
				continue
			}
			if s.rng.Intn(3) > 0 {
				s.applyTo(in, uint64(len(s.stream)))
			}
		}
		// a snapshot cut: save on a random live instance, recover into a fresh one
		if s.rng.Intn(3) == 0 && !ref.s.members.isEmpty() {
			src := live[s.rng.Intn(len(live))]
			if src.s.members.isEmpty() {
				continue
			}
			var ss pb.Snapshot
			var err error
			if s.kind == "concurrent" {
				ss, _, err = src.s.concurrentSave(SSRequest{})
			} else {
				ss, _, err = src.s.save(SSRequest{})
			}
			if err != nil {
				if err.Error() == "snapshot out of date" {
					continue // the instance already saved a snapshot at this index
				}
				panic(err)
			}
			sid++
			s.emit(jSmEv{Op: "Save", SM: src.id, Sid: sid, HasSt: true, St: src.proj()})
			// the snapshot is installed either on a fresh instance (restart / new replica) or on a
			// live instance that lags behind it (a follower receiving a snapshot from the leader)
			var twin *vInst
			for _, c := range live[1:] {
				if c != src && c.s.index < ss.Index && s.rng.Intn(2) == 0 {
					twin = c
					break
				}
			}
			if twin != nil {
				twin.snap.cur = ss
				if _, err := twin.s.Recover(Task{Index: ss.Index}); err != nil {
					panic(err)
				}
				s.emit(jSmEv{Op: "Recover", SM: twin.id, Sid: sid, HasSt: true, St: twin.proj()})
				continue
			}
			twin = s.newInst()
			twin.snap.cur = ss
			if _, err := twin.s.Recover(Task{Index: ss.Index}); err != nil {
				panic(err)
			}
			s.emit(jSmEv{Op: "Recover", SM: twin.id, Sid: sid, HasSt: true, St: twin.proj()})
			live = append(live, twin)
			if len(live) > 4 {
				live = append(live[:1], live[2:]...)
			}
		}
	}
	for _, in := range live[1:] {
		s.applyTo(in, uint64(len(s.stream)))
	}
}

func smEnvInt(k string, d int) int {
	if v := os.Getenv(k); v != "" {
		if n, err := strconv.Atoi(v); err == nil {
			return n
		}
	}
	return d
}

func TestVerifSmsim(t *testing.T) {
	outPath := os.Getenv("VERIF_OUT")
	if outPath == "" {
		t.Skip("VERIF_OUT not set")
	}
	seed := int64(smEnvInt("VERIF_SEED", 1))
	traces := smEnvInt("VERIF_TRACES", 10)
	entries := smEnvInt("VERIF_STEPS", 80)
	first := smEnvInt("VERIF_FIRST", 0)
	f, err := os.Create(outPath)
	if err != nil {
		t.Fatal(err)
	}
	defer f.Close()
	w := bufio.NewWriterSize(f, 1<<20)
	defer w.Flush()
	total := map[string]int{}
	saved := LRUMaxSessionCount
	defer func() { LRUMaxSessionCount = saved }()
	for i := 0; i < traces; i++ {
		tid := first + i
		rng := rand.New(rand.NewSource(seed*104729 + int64(tid)))
		s := &smSim{rng: rng, out: w, tid: tid, fs: vfs.NewMem(), counts: map[string]int{},
			series: map[uint64]uint64{}, acked: map[uint64]uint64{}, sent: map[uint64][]jEntry{}, term: 1}
		s.lru = uint64(2 + rng.Intn(3))
		s.ordered = rng.Intn(2) == 0
		s.kind = []string{"regular", "concurrent"}[rng.Intn(2)]
		s.ct = []config.CompressionType{config.NoCompression, config.Snappy}[rng.Intn(2)]
		LRUMaxSessionCount = s.lru
		func() {
			defer func() {
				if r := recover(); r != nil {
					s.emit(jSmEv{Op: "Panic", Msg: fmt.Sprint(r)})
				}
			}()
			s.run(entries)
		}()
		for k, v := range s.counts {
			total[k] += v
		}
	}
	fmt.Printf("SMSIM-STATS %v\n", total)
}
