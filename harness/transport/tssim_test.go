//go:build verif

// tssim: the sending side of snapshot transfers on the real Transport (spec/SnapshotSend.tla) over the in-package
// NOOP transport (connect / send failures on request, a pre-send hook that refuses the k-th chunk). One operation =
// one request of raft: a witness snapshot through SendSnapshot (file path, no file needed) or a stream of n chunks
// through GetStreamSink + Sink.Receive, with a seeded fault: unknown target, connection refused, the k-th chunk fails,
// the producer gives up after k chunks (poison chunk), or none. The harness waits until the transport has no job left
// and logs how many chunks reached the connection and which reports the message handler received.
// spec/SnapshotSendTrace.tla requires exactly one report per request, successful iff every chunk got through, and a
// Receive that answers false once the job has failed (the producer is never left blocked: the harness would hang).
package transport

import (
	"bufio"
	"encoding/json"
	"math/rand"
	"os"
	"sync/atomic"
	"testing"
	"time"

	"github.com/lni/dragonboat/v4/internal/vfs"
	pb "github.com/lni/dragonboat/v4/raftpb"
)

type tsEv struct {
	T        int    `json:"t"`
	I        int    `json:"i"`
	Ev       string `json:"ev"`
	Kind     string `json:"kind"`  // "file" | "stream"
	Fault    string `json:"fault"` // "" | "unknown" | "connect" | "chunk" | "giveup"
	N        int    `json:"n"`     // chunks of the snapshot
	K        int    `json:"k"`     // where the fault strikes (1-based)
	Ret      bool   `json:"ret"`   // SendSnapshot's answer / the sink was obtained
	Accepted int    `json:"accepted"`
	Refused  bool   `json:"refused"` // a Receive answered false
	Sent     int    `json:"sent"`    // chunks that reached the connection
	Failed   int    `json:"failed"`  // failure reports
	Success  int    `json:"success"` // success reports
	Hung     bool   `json:"hung"`
	Released int    `json:"released"` // file path: the snapshot's reference was given back (Compact ran)
}

type tsCompactor struct{ n int64 }

func (c *tsCompactor) Compact(uint64) error {
	atomic.AddInt64(&c.n, 1)
	return nil
}

func TestVerifTssim(t *testing.T) {
	out := os.Getenv("VERIF_OUT")
	if out == "" {
		t.Skip("VERIF_OUT not set")
	}
	seed := int64(tqEnvInt("VERIF_SEED", 1))
	traces := tqEnvInt("VERIF_TRACES", 10)
	first := tqEnvInt("VERIF_FIRST", 0)
	steps := tqEnvInt("VERIF_STEPS", 30)
	f, err := os.Create(out)
	if err != nil {
		t.Fatal(err)
	}
	defer f.Close()
	w := bufio.NewWriterSize(f, 1<<20)
	defer w.Flush()
	for k := 0; k < traces; k++ {
		tid := first + k
		rng := rand.New(rand.NewSource(seed*86028121 + int64(tid)))
		i := 0
		emit := func(ev tsEv) {
			ev.T, ev.I = tid, i
			i++
			b, err := json.Marshal(ev)
			if err != nil {
				panic(err)
			}
			w.Write(b)
			w.WriteByte('\n')
		}
		fs := vfs.GetTestFS()
		handler := newTestMessageHandler()
		tt, nodes, _, req, connReq := newNOOPTestTransport(handler, fs)
		nodes.Add(100, 2, serverAddress)
		var sent int64
		var failAt int64 // the chunk (1-based, counted per operation) the connection refuses; 0 = none
		var seen int64
		tt.SetPreStreamChunkSendHook(func(c pb.Chunk) (pb.Chunk, bool) {
			n := atomic.AddInt64(&seen, 1)
			if fa := atomic.LoadInt64(&failAt); fa > 0 && n == fa {
				return c, false
			}
			atomic.AddInt64(&sent, 1)
			return c, true
		})
		emit(tsEv{Ev: "Init"})
		for s := 0; s < steps; s++ {
			connReq.SetToFail(false)
			req.SetToFail(false)
			atomic.StoreInt64(&sent, 0)
			atomic.StoreInt64(&seen, 0)
			atomic.StoreInt64(&failAt, 0)
			f0 := handler.getFailedSnapshotCount(100, 2) + handler.getFailedSnapshotCount(100, 9)
			s0 := handler.getSnapshotSuccessCount(100, 2) + handler.getSnapshotSuccessCount(100, 9)
			var released *tsCompactor
			ev := tsEv{Ev: "Op", Kind: []string{"file", "stream", "stream"}[rng.Intn(3)]}
			ev.Fault = []string{"", "", "unknown", "connect", "chunk", "giveup"}[rng.Intn(6)]
			to := uint64(2)
			if ev.Fault == "unknown" {
				to = 9
			}
			if ev.Fault == "connect" {
				connReq.SetToFail(true)
			}
			// a failed job opens the breaker for a while: wait until it lets a request through again, asking it
			// the way the transport does would consume its trial - sleep past the back-off instead
			if ev.Kind == "file" {
				ev.N = 1
				if ev.Fault == "giveup" {
					ev.Fault = ""
				}
				if ev.Fault == "chunk" {
					ev.K = 1
					atomic.StoreInt64(&failAt, 1)
				}
				m := pb.Message{Type: pb.InstallSnapshot, To: to, From: 1, ShardID: 100,
					Snapshot: pb.Snapshot{Index: uint64(100 + s), Term: 2, Witness: true, ShardID: 100,
						Membership: pb.Membership{Addresses: map[uint64]string{1: "a", 2: "b"}}}}
				comp := &tsCompactor{}
				m.Snapshot.Load(comp) // one reference: the transport's, to be given back however the transfer ends
				ev.Ret = tt.SendSnapshot(m)
				released = comp
				if ev.Ret {
					ev.Accepted = 1
				}
			} else {
				ev.N = 2 + rng.Intn(5)
				if ev.Fault == "chunk" || ev.Fault == "giveup" {
					ev.K = 1 + rng.Intn(ev.N)
				}
				if ev.Fault == "chunk" {
					atomic.StoreInt64(&failAt, int64(ev.K))
				}
				sink := tt.GetStreamSink(100, to)
				ev.Ret = sink != nil
				if sink != nil {
					done := make(chan struct{})
					go func() {
						defer close(done)
						for c := 1; c <= ev.N; c++ {
							if ev.Fault == "giveup" && c == ev.K {
								// the producer gives up (rsm.ChunkWriter on a failed SaveSnapshot): poison chunk
								_ = sink.Close()
								return
							}
							cc := pb.LastChunkCount
							if c < ev.N {
								cc = uint64(ev.N + 7)
							}
							ok, _ := sink.Receive(pb.Chunk{ShardID: 100, ReplicaID: to, From: 1, ChunkId: uint64(c - 1),
								ChunkCount: cc, Index: uint64(100 + s), Term: 2, Data: []byte{1, 2, 3}})
							if !ok {
								ev.Refused = true
								return
							}
							ev.Accepted++
						}
					}()
					select {
					case <-done:
					case <-time.After(10 * time.Second):
						ev.Hung = true
					}
				}
			}
			// the job is over when the transport counts no job any more
			end := time.Now().Add(10 * time.Second)
			for atomic.LoadUint64(&tt.jobs) != 0 && time.Now().Before(end) {
				time.Sleep(200 * time.Microsecond)
			}
			if atomic.LoadUint64(&tt.jobs) != 0 {
				ev.Hung = true
			}
			if released != nil {
				// (the job counter is decremented just before the reference is given back)
				end := time.Now().Add(5 * time.Second)
				for atomic.LoadInt64(&released.n) == 0 && time.Now().Before(end) {
					time.Sleep(200 * time.Microsecond)
				}
				time.Sleep(300 * time.Microsecond)
				ev.Released = int(atomic.LoadInt64(&released.n))
			}
			ev.Sent = int(atomic.LoadInt64(&sent))
			ev.Failed = int(handler.getFailedSnapshotCount(100, 2) + handler.getFailedSnapshotCount(100, 9) - f0)
			ev.Success = int(handler.getSnapshotSuccessCount(100, 2) + handler.getSnapshotSuccessCount(100, 9) - s0)
			emit(ev)
			if ev.Failed > 0 && ev.Fault != "unknown" {
				// the breaker of the target opened: let its back-off pass and reset it with a plain message
				tt.GetCircuitBreaker(serverAddress).Reset()
			}
		}
		// the last request of the trace: the transport is closed while a stream is under way - the job must end with
		// a failure report and the producer must be sent away (Receive answers false), nobody may hang
		{
			atomic.StoreInt64(&sent, 0)
			atomic.StoreInt64(&seen, 0)
			atomic.StoreInt64(&failAt, 0)
			connReq.SetToFail(false)
			req.SetToFail(false)
			tt.GetCircuitBreaker(serverAddress).Reset()
			f0 := handler.getFailedSnapshotCount(100, 2)
			s0 := handler.getSnapshotSuccessCount(100, 2)
			ev := tsEv{Ev: "Op", Kind: "stream", Fault: "stop", N: 40, K: 1 + rng.Intn(3)}
			sink := tt.GetStreamSink(100, 2)
			ev.Ret = sink != nil
			closed := make(chan struct{})
			if sink != nil {
				done := make(chan struct{})
				go func() {
					defer close(done)
					for c := 1; c <= ev.N; c++ {
						if c == ev.K+1 {
							go func() {
								_ = tt.Close()
								close(closed)
							}()
						}
						ok, _ := sink.Receive(pb.Chunk{ShardID: 100, ReplicaID: 2, From: 1, ChunkId: uint64(c - 1),
							ChunkCount: uint64(ev.N + 7), Index: 9000, Term: 2, Data: []byte{1, 2, 3}})
						if !ok {
							ev.Refused = true
							return
						}
						ev.Accepted++
						time.Sleep(300 * time.Microsecond)
					}
				}()
				select {
				case <-done:
				case <-time.After(10 * time.Second):
					ev.Hung = true
				}
				select {
				case <-closed:
				case <-time.After(10 * time.Second):
					ev.Hung = true
				}
			} else {
				_ = tt.Close()
			}
			ev.Sent = int(atomic.LoadInt64(&sent))
			ev.Failed = int(handler.getFailedSnapshotCount(100, 2) - f0)
			ev.Success = int(handler.getSnapshotSuccessCount(100, 2) - s0)
			emit(ev)
		}
	}
}
