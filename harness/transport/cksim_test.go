//go:build verif

// cksim: snapshot chunk transfer. Real snapshots (main file written by the real
// rsm.SnapshotWriter, plus external files) are split by the real sender code
// (splitSnapshotMessage + loadChunkData) and fed to a real transport.Chunk receiver on an
// in-memory file system under seeded perturbations: drop, swap, duplicate, restart from chunk
// 0, two senders / two indexes interleaved, corrupted bytes in the main file or in an external
// file, wrong deployment id / binary version, replica marked removed, GC ticks anywhere.
// After every step the return value of Add, the tracked streams, the directory layout and the
// notifications are logged; when a stream finalizes, every file is compared byte by byte with
// its source. spec/ChunksTrace.tla recomputes all of it from spec/Chunks.tla.
package transport

import (
	"bufio"
	"bytes"
	"encoding/binary"
	"encoding/json"
	"fmt"
	"io"
	"math/rand"
	"os"
	"sort"
	"strconv"
	"strings"
	"testing"
	"time"

	"github.com/lni/dragonboat/v4/internal/fileutil"
	"github.com/lni/dragonboat/v4/internal/rsm"
	"github.com/lni/dragonboat/v4/internal/server"
	"github.com/lni/dragonboat/v4/raftio"
	pb "github.com/lni/dragonboat/v4/raftpb"
	"github.com/lni/vfs"
)

type ckStream struct {
	id       int
	from     uint64
	index    uint64
	chunks   []pb.Chunk
	files    map[string][]byte // base name -> source bytes
	nMain    int               // number of chunks of the main file
	streamed bool              // produced by the real rsm.ChunkWriter (on-disk state machine streaming)
	hsz      int               // streamed: length of the marshalled header inside the header block
}

// ckSink collects what the real rsm.ChunkWriter hands to the transport
type ckSink struct {
	chunks []pb.Chunk
}

func (k *ckSink) Receive(c pb.Chunk) (bool, bool) { k.chunks = append(k.chunks, c); return true, false }
func (k *ckSink) Close() error                    { return nil }
func (k *ckSink) ShardID() uint64                 { return 1 }
func (k *ckSink) ToReplicaID() uint64             { return 2 }

// a snapshot streamed by an on-disk state machine: the real ChunkWriter produces the chunks
// (chunk 0 = header block with an effective checksum + first block, one checksummed block per
// chunk, the tail record, an empty last chunk marked LastChunkCount); there is no source file, the
// received file must be the concatenation of what was sent.
func (s *ckSim) mkStreamed(id int, from uint64, index uint64) *ckStream {
	st := &ckStream{id: id, from: from, index: index, files: map[string][]byte{}, streamed: true}
	sink := &ckSink{}
	cw := rsm.NewChunkWriter(sink, rsm.SSMeta{From: from, Index: index, Term: 3, OnDiskIndex: index,
		Membership: pb.Membership{Addresses: map[uint64]string{1: "a1", 2: "a2", 11: "a11"}}})
	payload := make([]byte, s.rng.Intn(2600))
	if s.big {
		payload = make([]byte, 3<<20+s.rng.Intn(4<<20))
	}
	s.rng.Read(payload)
	all := append(append([]byte{}, rsm.GetEmptyLRUSession()...), payload...)
	for len(all) > 0 {
		n := 1 + s.rng.Intn(len(all))
		if _, err := cw.Write(all[:n]); err != nil {
			panic(err)
		}
		all = all[n:]
	}
	if err := cw.Close(); err != nil {
		panic(err)
	}
	var file []byte
	for i := range sink.chunks {
		sink.chunks[i].DeploymentId = ckDid
		file = append(file, sink.chunks[i].Data...)
	}
	st.hsz = int(binary.LittleEndian.Uint64(sink.chunks[0].Data))
	st.files[fmt.Sprintf("snapshot-%016X.gbsnap", index)] = file
	st.chunks = sink.chunks
	st.nMain = len(sink.chunks)
	return st
}

type ckTracked struct {
	Key  uint64 `json:"key"` // snapshot index (shard and replica are fixed)
	Next uint64 `json:"next"`
	From uint64 `json:"from"`
	Tick uint64 `json:"tick"` // tick at which the stream last made progress (decides what the collector does)
}

type ckEv struct {
	T        int         `json:"t"`
	I        int         `json:"i"`
	Op       string      `json:"op"`
	S        int         `json:"s"`
	From     uint64      `json:"from"`
	Index    uint64      `json:"index"`
	Cid      uint64      `json:"cid"`
	Count    uint64      `json:"count"`
	Main     bool        `json:"main"`
	Last     bool        `json:"last"`
	Corrupt  string      `json:"corrupt"` // "", "main", "ext"
	Evil     bool        `json:"evil"`    // the chunk's file name is "..", "." or ends in one of them
	Pad      bool        `json:"pad"`     // the flipped bit is in the 1 KB header block (no effective checksum)
	BadDid   bool        `json:"baddid"`
	BadVer   bool        `json:"badver"`
	Ret      bool        `json:"ret"`
	Tracked  []ckTracked `json:"tracked"`
	Tmp      [][2]uint64 `json:"tmp"`   // temporary directories: [index, from]
	Final    []uint64    `json:"final"` // finalized snapshot directories: index
	Other    []string    `json:"other"` // anything else under the snapshot root
	Notes    int         `json:"notes"`
	Same     bool        `json:"same"` // files of the finalized directory equal the source
	Removed  bool        `json:"removed"`
	Slots    uint64      `json:"slots"`
	GcTick   uint64      `json:"gctick"`
	Timeout  uint64      `json:"timeout"`
	NMain    []int       `json:"nmain"`
	Msg      string      `json:"msg,omitempty"`
	Streamed bool        `json:"streamed"` // chunks produced by the real rsm.ChunkWriter
}

type ckSim struct {
	rng     *rand.Rand
	out     *bufio.Writer
	tid     int
	step    int
	fs      vfs.FS
	chunks  *Chunk
	streams []*ckStream
	notes   int
	lastMsg pb.MessageBatch
	counts  map[string]int
	removed bool
	big     bool // production chunk size (2 MB) and multi-block snapshot files
}

const ckDid = 77

func ckRoot(shardID uint64, replicaID uint64) string { return "/rcv/snapshot-1-2" }

func (s *ckSim) emit(ev ckEv) {
	ev.T, ev.I = s.tid, s.step
	s.step++
	if ev.Op != "Init" {
		ev.Tracked = []ckTracked{}
		for _, td := range s.chunks.tracked {
			ev.Tracked = append(ev.Tracked, ckTracked{Key: td.first.Index, Next: td.next, From: td.first.From, Tick: td.tick})
		}
		sort.Slice(ev.Tracked, func(i, j int) bool { return ev.Tracked[i].Key < ev.Tracked[j].Key })
		ev.Tmp, ev.Final, ev.Other = [][2]uint64{}, []uint64{}, []string{}
		names, _ := s.fs.List(ckRoot(1, 2))
		sort.Strings(names)
		for _, n := range names {
			var idx, from uint64
			if strings.HasSuffix(n, ".receiving") {
				if _, err := fmt.Sscanf(n, "snapshot-%016X-%d.receiving", &idx, &from); err == nil {
					ev.Tmp = append(ev.Tmp, [2]uint64{idx, from})
					continue
				}
			} else if _, err := fmt.Sscanf(n, "snapshot-%016X", &idx); err == nil && len(n) == 25 {
				ev.Final = append(ev.Final, idx)
				continue
			}
			if n != "DELETED.dragonboat" {
				ev.Other = append(ev.Other, n)
			}
		}
		ev.Notes = s.notes
	}
	if ev.NMain == nil {
		ev.NMain = []int{}
	}
	if ev.Tracked == nil {
		ev.Tracked, ev.Tmp, ev.Final, ev.Other = []ckTracked{}, [][2]uint64{}, []uint64{}, []string{}
	}
	b, err := json.Marshal(ev)
	if err != nil {
		panic(err)
	}
	s.out.Write(b)
	s.out.WriteByte('\n')
	s.counts[ev.Op]++
}

// a real snapshot on the sender side, split into real chunks
func (s *ckSim) mkStream(id int, from uint64, index uint64) *ckStream {
	dir := fmt.Sprintf("/snd/%d/snapshot-%016X", from, index)
	if err := s.fs.MkdirAll(dir, 0755); err != nil {
		panic(err)
	}
	st := &ckStream{id: id, from: from, index: index, files: map[string][]byte{}}
	mainName := fmt.Sprintf("snapshot-%016X.gbsnap", index)
	mainPath := s.fs.PathJoin(dir, mainName)
	w, err := rsm.NewSnapshotWriter(mainPath, pb.NoCompression, s.fs)
	if err != nil {
		panic(err)
	}
	payload := make([]byte, s.rng.Intn(2600))
	if s.big {
		// several checksummed blocks (2 MB each): the stream validator works while chunks arrive
		payload = make([]byte, 4<<20+s.rng.Intn(5<<20))
	}
	s.rng.Read(payload)
	sessions := rsm.GetEmptyLRUSession()
	if _, err := w.Write(sessions); err != nil {
		panic(err)
	}
	if _, err := w.Write(payload); err != nil {
		panic(err)
	}
	if err := w.Close(); err != nil {
		panic(err)
	}
	read := func(p string) []byte {
		f, err := s.fs.Open(p)
		if err != nil {
			panic(err)
		}
		defer f.Close()
		b, err := io.ReadAll(f)
		if err != nil {
			panic(err)
		}
		return b
	}
	mainBytes := read(mainPath)
	st.files[mainName] = mainBytes
	ss := pb.Snapshot{Filepath: mainPath, FileSize: uint64(len(mainBytes)), Index: index, Term: 3,
		Membership: pb.Membership{Addresses: map[uint64]string{1: "a1", 2: "a2", 11: "a11"}}}
	nExt := s.rng.Intn(3)
	for i := 0; i < nExt; i++ {
		name := fmt.Sprintf("external-file-%d", i+1)
		data := make([]byte, 1+s.rng.Intn(2500))
		s.rng.Read(data)
		p := s.fs.PathJoin(dir, name)
		f, err := s.fs.Create(p)
		if err != nil {
			panic(err)
		}
		f.Write(data)
		f.Close()
		st.files[name] = data
		ss.Files = append(ss.Files, &pb.SnapshotFile{Filepath: p, FileSize: uint64(len(data)), FileId: uint64(i + 1), Metadata: []byte{byte(i)}})
	}
	m := pb.Message{Type: pb.InstallSnapshot, From: from, To: 2, ShardID: 1, Snapshot: ss}
	cs, err := splitSnapshotMessage(m, s.fs)
	if err != nil {
		panic(err)
	}
	for i := range cs {
		cs[i].DeploymentId = ckDid
		data, err := loadChunkData(cs[i], nil, s.fs)
		if err != nil {
			panic(err)
		}
		cs[i].Data = data
		if !cs[i].HasFileInfo {
			st.nMain++
		}
	}
	st.chunks = cs
	return st
}

func (s *ckSim) finalizedSame(st *ckStream) bool {
	dir := s.fs.PathJoin(ckRoot(1, 2), fmt.Sprintf("snapshot-%016X", st.index))
	for name, want := range st.files {
		f, err := s.fs.Open(s.fs.PathJoin(dir, name))
		if err != nil {
			return false
		}
		got, err := io.ReadAll(f)
		f.Close()
		if err != nil || !bytes.Equal(got, want) {
			if os.Getenv("VERIF_DEBUG") != "" {
				d := -1
				for i := range want {
					if i >= len(got) || got[i] != want[i] {
						d = i
						break
					}
				}
				fmt.Printf("DIFF file %s len got %d want %d first diff at %d\n", name, len(got), len(want), d)
			}
			return false
		}
	}
	return true
}

func (s *ckSim) deliver(st *ckStream, k int, corrupt string, badDid bool, badVer bool) {
	s.deliverNamed(st, k, corrupt, badDid, badVer, "")
}

// deliverNamed: evil != "" replaces the chunk's file name (a name that would leave the snapshot's directory)
func (s *ckSim) deliverNamed(st *ckStream, k int, corrupt string, badDid bool, badVer bool, evil string) {
	c := st.chunks[k]
	if evil != "" {
		c.Filepath = evil
	}
	c.Data = append([]byte{}, c.Data...)
	pad := false
	if len(c.Data) == 0 {
		corrupt = "" // the empty last chunk of a streamed snapshot: nothing to flip
	}
	if corrupt == "main" && len(c.Data) > 1 && s.rng.Intn(4) == 0 {
		// cut short: the chunk arrives with only a prefix of its data (same class as a flipped bit: the
		// stream must never finalize with it)
		off := 1 + s.rng.Intn(len(c.Data)-1)
		c.Data = c.Data[:off]
	} else if corrupt != "" && len(c.Data) > 0 {
		off := s.rng.Intn(len(c.Data))
		c.Data[off] ^= byte(1 << uint(s.rng.Intn(8)))
		if os.Getenv("VERIF_DEBUG") != "" {
			fmt.Printf("CORRUPT stream %d chunk %d/%d off %d of %d filesize %d fileChunk %d/%d\n", st.id, c.ChunkId, c.ChunkCount, off, len(c.Data), c.FileSize, c.FileChunkId, c.FileChunkCount)
		}
		if st.streamed {
			// the header block of a streamed snapshot carries a real checksum: only its unused
			// padding is unprotected
			pad = corrupt == "main" && c.ChunkId == 0 && off >= 8+st.hsz+4 && off < 1024
		} else if corrupt == "main" && c.ChunkId == 0 {
			// the first chunk is the 1 KB header block: length | header | crc32 slot | unused padding.
			// SnapshotWriter leaves the crc32 slot zero, which makes the validator skip the header
			// check: no flip in this block is guaranteed to be noticed (known finding)
			_ = binary.LittleEndian
			pad = off < 1024
		}
	}
	if badDid {
		c.DeploymentId = ckDid + 1
	}
	if badVer {
		c.BinVer = raftio.TransportBinVersion + 1
	}
	before := s.notes
	if os.Getenv("VERIF_DEBUG") != "" && corrupt != "" {
		fmt.Printf("PRE-ADD equal-to-source=%v\n", bytes.Equal(c.Data, st.chunks[k].Data))
	}
	ret := s.chunks.Add(c)
	cnt := c.ChunkCount
	if cnt == pb.LastChunkCount {
		cnt = 0 // not representable for TLC; Last says it
	}
	ev := ckEv{Op: "Add", S: st.id, From: st.from, Index: st.index, Cid: c.ChunkId, Count: cnt,
		Main: !c.HasFileInfo, Last: c.IsLastChunk(), Corrupt: corrupt, BadDid: badDid, BadVer: badVer, Ret: ret, Pad: pad, Evil: evil != ""}
	ev.Streamed = st.streamed
	if s.notes > before {
		if st.streamed {
			s.counts["StreamedFinalized"]++
		} else {
			s.counts["FileFinalized"]++
		}
		ev.Same = s.finalizedSame(st)
		// the notification must describe the finalized snapshot
		ss := s.lastMsg.Requests[0].Snapshot
		if ss.Index != st.index || s.lastMsg.Requests[0].From != st.from || len(ss.Files) != len(st.files)-1 ||
			s.fs.PathBase(ss.Filepath) != fmt.Sprintf("snapshot-%016X.gbsnap", st.index) {
			ev.Same = false
		}
	}
	s.emit(ev)
}

func (s *ckSim) run(steps int) {
	s.fs = vfs.NewStrictMem()
	must := func(err error) {
		if err != nil {
			panic(err)
		}
	}
	must(fileutil.MkdirAll(ckRoot(1, 2), s.fs))
	slots := uint64(1 + s.rng.Intn(2))
	gct := uint64(1 + s.rng.Intn(2))
	to := uint64(2 + s.rng.Intn(3))
	maxConcurrentSlot = slots
	s.chunks = NewChunk(func(m pb.MessageBatch) { s.notes++; s.lastMsg = m }, func(uint64, uint64, uint64) {}, ckRoot, ckDid, s.fs)
	s.chunks.gcTick = gct
	s.chunks.timeout = to
	// streams: two senders for one index, one sender for another index
	mk := func(id int, from uint64, index uint64) *ckStream {
		if (s.tid+id)%3 == 0 {
			return s.mkStreamed(id, from, index)
		}
		return s.mkStream(id, from, index)
	}
	s.streams = []*ckStream{mk(0, 1, 100), mk(1, 11, 100), mk(2, 1, 200)} // a sender id above 9: decimal in directory names
	nm := []int{}
	for _, st := range s.streams {
		nm = append(nm, st.nMain)
	}
	s.emit(ckEv{Op: "Init", Slots: slots, GcTick: gct, Timeout: to, NMain: nm})
	pos := []int{0, 0, 0}
	for s.step < steps {
		k := s.rng.Intn(3)
		st := s.streams[k]
		c := s.rng.Intn(100)
		switch {
		case c < 62: // next chunk in order
			if pos[k] < len(st.chunks) {
				s.deliver(st, pos[k], "", false, false)
				pos[k]++
			} else {
				pos[k] = 0
			}
		case c < 67: // drop one
			if pos[k] < len(st.chunks) {
				pos[k]++
			}
		case c < 72: // duplicate the previous one
			if pos[k] > 0 {
				s.deliver(st, pos[k]-1, "", false, false)
			}
		case c < 76: // a later one first (swap)
			if pos[k]+1 < len(st.chunks) {
				s.deliver(st, pos[k]+1, "", false, false)
			}
		case c < 80: // restart from chunk 0
			pos[k] = 0
		case c < 86: // corrupt
			if pos[k] < len(st.chunks) {
				kind := "main"
				if st.chunks[pos[k]].HasFileInfo {
					kind = "ext"
				}
				s.deliver(st, pos[k], kind, false, false)
				pos[k]++
			}
		case c < 87 && pos[k] < len(st.chunks) && pos[k] > 0 && st.chunks[pos[k]].HasFileInfo && st.chunks[pos[k]].FileChunkId == 0 && !st.chunks[pos[k]].IsLastChunk():
			// the first chunk of an external file under a name that points out of the snapshot's directory: it must
			// be refused (the stream may be dropped with it), nothing may be written elsewhere, nobody may crash
			s.deliverNamed(st, pos[k], "", false, false, []string{"/data/x/..", "..", ".", "a/b/."}[s.rng.Intn(4)])
		case c < 89: // foreign deployment / binary version
			if pos[k] < len(st.chunks) {
				s.deliver(st, pos[k], "", s.rng.Intn(2) == 0, true)
			}
		case c < 97:
			s.chunks.Tick()
			s.emit(ckEv{Op: "Tick"})
		default:
			if !s.removed && s.rng.Intn(4) == 0 {
				must(fileutil.MarkDirAsDeleted(ckRoot(1, 2), &pb.Membership{}, s.fs))
				s.removed = true
				s.emit(ckEv{Op: "MarkRemoved", Removed: true})
			}
		}
	}
	if s.tid%4 == 2 {
		s.gcRace()
	}
	for i := 0; i < 12; i++ {
		s.chunks.Tick()
		s.emit(ckEv{Op: "Tick"})
	}
	s.durable()
}

// gcRace: the timeout collector (Chunk.Tick on the NodeHost's tick goroutine) overlaps the Add of a first
// chunk for the same snapshot from another sender (a transport goroutine). The Add holds the snapshot's lock
// when the collector arrives: the collector has already copied the table of tracked streams, waits for the
// lock and then judges the stalled stream it saw. Whatever the order, the new stream must be tracked
// afterwards (or have been refused): AddDuringTick in ChunksTrace.tla allows both orders, nothing else.
func (s *ckSim) gcRace() {
	a, b := s.streams[0], s.streams[1]
	if s.removed || len(a.chunks) < 2 || len(b.chunks) < 2 {
		return
	}
	s.deliver(a, 0, "", false, false)
	key := chunkKey(a.chunks[0])
	s.chunks.mu.Lock()
	td, ok := s.chunks.tracked[key]
	n := len(s.chunks.tracked)
	s.chunks.mu.Unlock()
	if !ok || td.first.From != a.from || uint64(n-1) >= maxConcurrentSlot {
		return
	}
	t0 := td.tick
	for {
		next := s.chunks.getTick() + 1
		if next%s.chunks.gcTick == 0 && next-t0 >= s.chunks.timeout {
			break
		}
		s.chunks.Tick()
		s.emit(ckEv{Op: "Tick"})
	}
	l := s.chunks.getSnapshotLock(key)
	l.lock()
	done := make(chan struct{})
	go func() {
		s.chunks.Tick()
		close(done)
	}()
	time.Sleep(20 * time.Millisecond) // lets the collector reach the lock; the verdict does not depend on it
	c := b.chunks[0]
	c.Data = append([]byte{}, c.Data...)
	before := s.notes
	ret := s.chunks.addLocked(c)
	l.unlock()
	<-done
	cnt := c.ChunkCount
	if cnt == pb.LastChunkCount {
		cnt = 0
	}
	ev := ckEv{Op: "AddDuringTick", S: b.id, From: b.from, Index: b.index, Cid: c.ChunkId, Count: cnt,
		Main: !c.HasFileInfo, Last: c.IsLastChunk(), Ret: ret, Streamed: b.streamed}
	if s.notes > before {
		ev.Same = s.finalizedSame(b)
	}
	s.emit(ev)
	s.deliver(b, 1, "", false, false)
}

// durable: power loss at the end of the trace. Every directory that carried a final name
// before the power loss (the receiver had handed the snapshot to raft) must still be there
// afterwards with every file - snapshot file, flag file and external files - unchanged.
func (s *ckSim) durable() {
	read := func() map[string]map[string]string {
		r := map[string]map[string]string{}
		names, _ := s.fs.List(ckRoot(1, 2))
		for _, n := range names {
			var idx uint64
			if _, err := fmt.Sscanf(n, "snapshot-%016X", &idx); err != nil || len(n) != 25 {
				continue
			}
			dir := s.fs.PathJoin(ckRoot(1, 2), n)
			files, _ := s.fs.List(dir)
			m := map[string]string{}
			for _, fn := range files {
				f, err := s.fs.Open(s.fs.PathJoin(dir, fn))
				if err != nil {
					continue
				}
				b, _ := io.ReadAll(f)
				f.Close()
				m[fn] = string(b)
			}
			r[n] = m
		}
		return r
	}
	pre := read()
	s.fs.(*vfs.MemFS).ResetToSyncedState()
	post := read()
	names := make([]string, 0, len(pre))
	for n := range pre {
		names = append(names, n)
	}
	sort.Strings(names)
	for _, n := range names {
		var idx uint64
		fmt.Sscanf(n, "snapshot-%016X", &idx)
		ok, why := true, ""
		pm, found := post[n]
		if !found {
			ok, why = false, "directory gone"
		} else {
			for fn, data := range pre[n] {
				if pm[fn] != data {
					ok = false
					why = fn + " lost or changed"
				}
			}
		}
		s.emit(ckEv{Op: "Durable", Index: idx, Same: ok, Msg: why})
	}
}

var _ = server.ReceivingMode

func TestVerifCksim(t *testing.T) {
	outPath := os.Getenv("VERIF_OUT")
	if outPath == "" {
		t.Skip("VERIF_OUT not set")
	}
	geti := func(k string, d int) int {
		if v := os.Getenv(k); v != "" {
			if n, err := strconv.Atoi(v); err == nil {
				return n
			}
		}
		return d
	}
	seed := int64(geti("VERIF_SEED", 1))
	traces := geti("VERIF_TRACES", 10)
	steps := geti("VERIF_STEPS", 60)
	first := geti("VERIF_FIRST", 0)
	f, err := os.Create(outPath)
	if err != nil {
		t.Fatal(err)
	}
	defer f.Close()
	w := bufio.NewWriterSize(f, 1<<20)
	defer w.Flush()
	total := map[string]int{}
	savedChunk, savedSlots := snapshotChunkSize, maxConcurrentSlot
	defer func() { snapshotChunkSize, maxConcurrentSlot = savedChunk, savedSlots }()
	snapshotChunkSize = 1024
	for i := 0; i < traces; i++ {
		tid := first + i
		s := &ckSim{rng: rand.New(rand.NewSource(seed*49979687 + int64(tid))), out: w, tid: tid, counts: map[string]int{}}
		snapshotChunkSize = 1024
		if tid%16 == 7 {
			s.big = true
			snapshotChunkSize = savedChunk
		}
		func() {
			defer func() {
				if r := recover(); r != nil {
					msg := strings.SplitN(fmt.Sprint(r), "\n", 2)[0]
					b, _ := json.Marshal(map[string]interface{}{"t": tid, "i": s.step, "op": "Panic", "msg": msg})
					w.Write(b)
					w.WriteByte('\n')
					total["Panic"]++
				}
			}()
			s.run(steps)
		}()
		for k, v := range s.counts {
			total[k] += v
		}
	}
	fmt.Printf("CKSIM-STATS %v\n", total)
}
