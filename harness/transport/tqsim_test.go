//go:build verif

// tqsim: the sending side of the real Transport for one remote NodeHost (spec/SendQueue.tla) over the in-package
// NOOP connection whose connect / send calls can be made to fail. Seeded prefix of sends, pauses longer and
// shorter than the idle timeout (lowered to 25 ms), connection failures; then the heal: the connection works,
// and the harness sends one message every 2 ms for at most 20 s (the breaker may be open for a while) - a handful of
// them must get through (bounded progress, C17). Every message carries its number; what reaches the connection
// is recorded by the pre-send hook in the role of the wire. spec/SendQueueTrace.tla judges: nothing delivered
// that was not accepted, nothing twice, nothing out of order, an accepted Send only with a ready breaker, and
// progress in the fair period.
package transport

import (
	"bufio"
	"encoding/json"
	"math/rand"
	"os"
	"strconv"
	"sync"
	"testing"
	"time"

	"github.com/lni/dragonboat/v4/internal/vfs"
	pb "github.com/lni/dragonboat/v4/raftpb"
)

type tqEv struct {
	T     int      `json:"t"`
	I     int      `json:"i"`
	Ev    string   `json:"ev"`
	ID    uint64   `json:"id"`
	Ret   bool     `json:"ret"`
	Ready bool     `json:"ready"`
	Reg   bool     `json:"reg"`
	Ms    int      `json:"ms"`
	Got   []uint64 `json:"got"`
	Sent  int      `json:"sent"`
	Note  string   `json:"note"`
}

func tqEnvInt(k string, d int) int {
	if v, err := strconv.Atoi(os.Getenv(k)); err == nil {
		return v
	}
	return d
}

func TestVerifTqsim(t *testing.T) {
	out := os.Getenv("VERIF_OUT")
	if out == "" {
		t.Skip("VERIF_OUT not set")
	}
	seed := int64(tqEnvInt("VERIF_SEED", 1))
	traces := tqEnvInt("VERIF_TRACES", 10)
	first := tqEnvInt("VERIF_FIRST", 0)
	steps := tqEnvInt("VERIF_STEPS", 40)
	f, err := os.Create(out)
	if err != nil {
		t.Fatal(err)
	}
	defer f.Close()
	w := bufio.NewWriterSize(f, 1<<20)
	defer w.Flush()
	oldIdle := idleTimeout
	idleTimeout = 25 * time.Millisecond
	defer func() { idleTimeout = oldIdle }()
	for k := 0; k < traces; k++ {
		tid := first + k
		rng := rand.New(rand.NewSource(seed*49979687 + int64(tid)))
		i := 0
		emit := func(ev tqEv) {
			ev.T, ev.I = tid, i
			i++
			if ev.Got == nil {
				ev.Got = []uint64{}
			}
			b, err := json.Marshal(ev)
			if err != nil {
				panic(err)
			}
			w.Write(b)
			w.WriteByte('\n')
		}
		fs := vfs.GetTestFS()
		handler := newTestMessageHandler()
		tt, nodes, _, req, connReq := newNOOPTestTransport(handler, fs)
		var mu sync.Mutex
		var got []uint64
		tt.SetPreSendBatchHook(func(b pb.MessageBatch) (pb.MessageBatch, bool) {
			if req.Fail() {
				// the connection is broken: SendMessageBatch of the NOOP connection will say so
				return b, true
			}
			mu.Lock()
			for _, m := range b.Requests {
				got = append(got, m.LogIndex)
			}
			mu.Unlock()
			return b, true
		})
		nodes.Add(100, 2, serverAddress)
		connReq.SetToFail(false)
		req.SetToFail(false)
		take := func() []uint64 {
			mu.Lock()
			defer mu.Unlock()
			r := got
			got = nil
			return r
		}
		registered := func() bool {
			tt.mu.Lock()
			defer tt.mu.Unlock()
			return len(tt.mu.queues) > 0
		}
		next := uint64(0)
		send := func() {
			next++
			// (the breaker is not asked: Ready() of a half-open breaker hands out its one trial)
			ret := tt.Send(pb.Message{Type: pb.Heartbeat, To: 2, From: 1, ShardID: 100, LogIndex: next})
			emit(tqEv{Ev: "Send", ID: next, Ret: ret})
		}
		emit(tqEv{Ev: "Init"})
		for s := 0; s < steps; s++ {
			switch x := rng.Intn(100); {
			case x < 55:
				send()
			case x < 80:
				ms := 1 + rng.Intn(8)
				if rng.Intn(3) == 0 {
					ms = 30 + rng.Intn(40) // longer than the idle timeout
				}
				time.Sleep(time.Duration(ms) * time.Millisecond)
				emit(tqEv{Ev: "Wait", Ms: ms, Got: take(), Reg: registered()})
			case x < 88:
				connReq.SetToFail(true)
				emit(tqEv{Ev: "ConnFail"})
			case x < 94:
				req.SetToFail(true)
				emit(tqEv{Ev: "SendFail"})
			default:
				connReq.SetToFail(false)
				req.SetToFail(false)
				emit(tqEv{Ev: "Heal"})
			}
		}
		// the heal
		connReq.SetToFail(false)
		req.SetToFail(false)
		time.Sleep(40 * time.Millisecond)
		emit(tqEv{Ev: "Wait", Ms: 40, Got: take(), Reg: registered()})
		emit(tqEv{Ev: "Heal"})
		{
			// the breaker opens for a while after a failure (exponential back-off, at most a few seconds)
			firstFair := next + 1
			sent := 0
			var all []uint64
			end := time.Now().Add(20 * time.Second)
			for time.Now().Before(end) {
				send()
				sent++
				time.Sleep(2 * time.Millisecond)
				all = append(all, take()...)
				n := 0
				for _, id := range all {
					if id >= firstFair {
						n++
					}
				}
				if n >= 5 {
					break
				}
			}
			emit(tqEv{Ev: "Fair", ID: firstFair, Sent: sent, Got: all})
		}
		if err := tt.Close(); err != nil {
			panic(err)
		}
		emit(tqEv{Ev: "End", Got: take()})
	}
}
