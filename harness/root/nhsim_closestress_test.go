//go:build verif

// closestress (C12, "NodeHost close" interleavings): many goroutines call Propose / ReadIndex on a
// single-replica NodeHost in a tight loop while it is closed. Every call must return, none may
// panic. This is the schedule that exposed the nil engine pointer fixed by d1bbf58 (the request
// methods use nh.engine after their closed check; Close used to clear it): about two of three
// rounds hit it on the unrepaired code. Runs as every sixth trace of nhsim mode "hang".
package dragonboat

import (
	"encoding/json"
	"fmt"
	"runtime"
	"sort"
	"sync"
	"sync/atomic"
	"time"
)

func nhCloseStress(rec *nhRec, tid int, seed int64, rounds int) {
	rec.t = tid
	rec.emit("Init", nhEv{"hosts": 1, "sm": "regular", "store": "pebble", "seed": seed, "mode": "closestress"})
	for round := 0; round < rounds; round++ {
		c := newNhCluster(rec, 1, "regular", "pebble", seed+int64(round))
		r := &nhRun{c: c, p: nhParams{hosts: 1, opTimeout: 200 * time.Millisecond}, hmu: make([]sync.RWMutex, 1), done: map[int]bool{}}
		h := c.hosts[0]
		c.members[1] = h.addr
		if err := r.startHostAndReplica(h, true); err != nil {
			panic(err)
		}
		r.waitLeader(5 * time.Second)
		nh := h.nh
		var stop int32
		var wg sync.WaitGroup
		var mu sync.Mutex
		panics := map[string]bool{}
		calls := int64(0)
		for g := 0; g < 8*runtime.GOMAXPROCS(0); g++ {
			wg.Add(1)
			go func(g int) {
				defer wg.Done()
				cmd, _ := json.Marshal(nhCmd{Op: "w", K: "z", V: "x", ID: 0})
				for atomic.LoadInt32(&stop) == 0 {
					func() {
						defer func() {
							if x := recover(); x != nil {
								mu.Lock()
								panics[fmt.Sprint(x)] = true
								mu.Unlock()
							}
						}()
						if g%2 == 0 {
							if rs, err := nh.Propose(nh.GetNoOPSession(c.shard), cmd, 100*time.Millisecond); err == nil {
								rs.Release()
							}
						} else if rs, err := nh.ReadIndex(c.shard, 100*time.Millisecond); err == nil {
							rs.Release()
						}
						atomic.AddInt64(&calls, 1)
					}()
				}
			}(g)
		}
		time.Sleep(3 * time.Millisecond)
		nh.Close()
		atomic.StoreInt32(&stop, 1)
		wg.Wait()
		h.alive = false
		nhTakePanics()
		msgs := []string{}
		for m := range panics {
			msgs = append(msgs, m)
		}
		sort.Strings(msgs)
		rec.emit("CloseRace", nhEv{"h": 1, "calls": int(calls % (1 << 30)), "accepted": 0, "results": 0, "hung": 0, "panics": msgs})
	}
}
