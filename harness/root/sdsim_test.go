//go:build verif

// sdsim: the real snapshotter (snapshotter.go: Save / Commit / Compact / Shrink / processOrphans over
// internal/server SSEnv and internal/rsm snapshot files) on a strict in-memory file system, for replica ids
// below and above 9 and 15 (the directory names carry the ids in more than one notation). One scenario =
// a first snapshot saved and committed with the power on, then a second one saved, committed, the first one
// compacted (on-disk flavour: the second one shrunk) - and the power is lost at the N-th file-system operation
// of that second part, for EVERY N (the scenario is first run without power loss to count them). After the
// power cycle the directory is listed (CrashLayout), the start-up cleanup runs (processOrphans), and it is
// listed again (Layout). spec/SnapshotDirTrace.tla evaluates the predicates of SnapshotDir.tla on the listings,
// exactly as for the listings taken from real NodeHosts (nhsim mode snap).
package dragonboat

import (
	"bytes"
	"fmt"
	"io"
	"os"
	"strconv"
	"strings"
	"sync/atomic"
	"testing"

	gvfs "github.com/lni/vfs"

	"github.com/lni/dragonboat/v4/internal/fileutil"
	"github.com/lni/dragonboat/v4/internal/logdb"
	"github.com/lni/dragonboat/v4/internal/rsm"
	"github.com/lni/dragonboat/v4/internal/server"
	"github.com/lni/dragonboat/v4/internal/vfs"
	"github.com/lni/dragonboat/v4/raftio"
	pb "github.com/lni/dragonboat/v4/raftpb"
	sm "github.com/lni/dragonboat/v4/statemachine"
)

type sdPowerLost struct{}

// sdInj counts file-system operations; at operation `at` durability is cut and the running call is abandoned
type sdInj struct {
	mem   *gvfs.MemFS
	count int64
	at    int64
	lost  int32
}

func (i *sdInj) MaybeError(op gvfs.Op) error {
	if atomic.LoadInt32(&i.lost) != 0 {
		return nil
	}
	n := atomic.AddInt64(&i.count, 1)
	if i.at > 0 && n == i.at {
		atomic.StoreInt32(&i.lost, 1)
		i.mem.SetIgnoreSyncs(true)
		panic(sdPowerLost{})
	}
	return nil
}

// the snapshot record of the log store: durable when the power was on when it was saved
type sdLogDB struct {
	raftio.ILogDB
	inj     *sdInj
	current pb.Snapshot
	durable pb.Snapshot
}

func (l *sdLogDB) GetSnapshot(shardID uint64, replicaID uint64) (pb.Snapshot, error) {
	return l.current, nil
}
func (l *sdLogDB) SaveSnapshots(updates []pb.Update) error {
	for _, ud := range updates {
		if ud.Snapshot.Index > l.current.Index {
			_ = l.inj.MaybeError(gvfs.OpSync) // the store's own write is a step of its own
			l.current = ud.Snapshot
			if atomic.LoadInt32(&l.inj.lost) == 0 {
				l.durable = ud.Snapshot
			}
		}
	}
	return nil
}

type sdSavable struct{ data []byte }

func (s *sdSavable) Save(meta rsm.SSMeta, w io.Writer, session []byte, fc sm.ISnapshotFileCollection) (bool, error) {
	if _, err := w.Write(session); err != nil {
		return false, err
	}
	_, err := w.Write(s.data)
	return false, err
}

type sdRun struct {
	rec     *nhRec
	replica uint64
	ondisk  bool
	root    string
	mem     *gvfs.MemFS
	fs      vfs.IFS
	inj     *sdInj
	ldb     *sdLogDB
}

func (r *sdRun) snapshotter() *snapshotter {
	f := func(uint64, uint64) string { return r.root }
	return newSnapshotter(1, r.replica, f, r.ldb, logdb.NewLogReader(1, r.replica, r.ldb), r.fs)
}

func (r *sdRun) saveAndCommit(s *snapshotter, index uint64, data []byte) error {
	t := pb.RegularStateMachine
	if r.ondisk {
		t = pb.OnDiskStateMachine
	}
	meta := rsm.SSMeta{Index: index, Term: 5, Session: bytes.NewBuffer(rsm.GetEmptyLRUSession()),
		Membership: pb.Membership{Addresses: map[uint64]string{1: "a1", 2: "a2", r.replica: "a3"}}, Type: t}
	ss, _, err := s.Save(&sdSavable{data: data}, meta)
	if err != nil {
		return err
	}
	return s.Commit(ss, rsm.SSRequest{})
}

func (r *sdRun) fileState(fp string) (state string) {
	if _, err := r.mem.Stat(fp); err != nil {
		return "none"
	}
	defer func() {
		if x := recover(); x != nil {
			state = "bad"
		}
	}()
	if shrunk, err := rsm.IsShrunkSnapshotFile(fp, r.mem); err == nil && shrunk {
		return "shrunk"
	}
	f, err := r.mem.Open(fp)
	if err != nil {
		return "bad"
	}
	defer f.Close()
	data, err := io.ReadAll(f)
	if err != nil {
		return "bad"
	}
	v := rsm.NewSnapshotValidator()
	if !v.AddChunk(data, 0) || !v.Validate() {
		return "bad"
	}
	return "ok"
}

func (r *sdRun) layout() []nhEv {
	entries := []nhEv{}
	names, err := r.mem.List(r.root)
	if err != nil {
		return entries
	}
	for _, n := range names {
		dir := r.mem.PathJoin(r.root, n)
		fi, err := r.mem.Stat(dir)
		if err != nil || !fi.IsDir() {
			continue
		}
		kind := "other"
		switch {
		case server.SnapshotDirNameRe.MatchString(n):
			kind = "final"
		case server.GenSnapshotDirNameRe.MatchString(n):
			kind = "gen"
		case server.RecvSnapshotDirNameRe.MatchString(n):
			kind = "recv"
		}
		idx := uint64(0)
		parts := strings.Split(strings.TrimSuffix(strings.TrimSuffix(n, ".generating"), ".receiving"), "-")
		if len(parts) >= 2 {
			idx, _ = strconv.ParseUint(parts[1], 16, 64)
		}
		_, merr := r.mem.Stat(r.mem.PathJoin(dir, server.MetadataFilename))
		entries = append(entries, nhEv{"name": n, "kind": kind, "index": idx,
			"flag": fileutil.HasFlagFile(dir, fileutil.SnapshotFlagFilename, r.mem), "meta": merr == nil,
			"file": r.fileState(r.mem.PathJoin(dir, server.GetSnapshotFilename(idx)))})
	}
	return entries
}

// one scenario with the power lost at file-system operation `at` of its second part (0: never); returns the
// number of operations of the second part
func (r *sdRun) scenario(at int64, receiveFrom uint64) int64 {
	r.mem = gvfs.NewStrictMem()
	r.inj = &sdInj{mem: r.mem}
	r.fs = gvfs.Wrap(r.mem, r.inj)
	r.ldb = &sdLogDB{inj: r.inj}
	r.root = fmt.Sprintf("/nh/snapshot-part-1/snapshot-1-%d", r.replica)
	if err := fileutil.MkdirAll(r.root, r.mem); err != nil {
		panic(err)
	}
	s := r.snapshotter()
	data := bytes.Repeat([]byte("0123456789abcdef"), 512)
	if err := r.saveAndCommit(s, 100, data); err != nil {
		panic(err)
	}
	if r.ondisk {
		if err := s.Shrink(100); err != nil {
			panic(err)
		}
	}
	atomic.StoreInt64(&r.inj.count, 0)
	r.inj.at = at
	func() {
		defer func() {
			if x := recover(); x != nil {
				if _, ok := x.(sdPowerLost); !ok {
					panic(x)
				}
			}
		}()
		if receiveFrom > 0 {
			// a snapshot streamed by replica receiveFrom is being received: its temporary directory with the
			// first file in it (the part of the receive path that lives in internal/server)
			env := server.NewSSEnv(func(uint64, uint64) string { return r.root }, 1, r.replica, 300, receiveFrom, server.ReceivingMode, r.fs)
			if err := env.CreateTempDir(); err != nil {
				panic(err)
			}
			f, err := r.fs.Create(env.GetTempFilepath())
			if err != nil {
				panic(err)
			}
			if _, err := f.Write(data); err != nil {
				panic(err)
			}
			if err := f.Sync(); err != nil {
				panic(err)
			}
			if err := f.Close(); err != nil {
				panic(err)
			}
			if err := fileutil.SyncDir(env.GetTempDir(), r.fs); err != nil {
				panic(err)
			}
			return
		}
		if err := r.saveAndCommit(s, 200, append(data, data...)); err != nil {
			panic(err)
		}
		if r.ondisk {
			if err := s.Shrink(200); err != nil {
				panic(err)
			}
		}
		if err := s.Compact(100); err != nil {
			panic(err)
		}
	}()
	ops := atomic.LoadInt64(&r.inj.count)
	fired := atomic.LoadInt32(&r.inj.lost) != 0
	// the power cycle
	r.mem.SetIgnoreSyncs(true)
	r.mem.ResetToSyncedState()
	r.mem.SetIgnoreSyncs(false)
	nhFixNames(r.mem)
	r.ldb.current = r.ldb.durable
	atomic.StoreInt32(&r.inj.lost, 1) // no more counting
	r.fs = r.mem
	rec := r.ldb.current.Index
	r.rec.emit("Round", nhEv{"fired": fired, "at": at, "replica": r.replica, "ondisk": r.ondisk, "from": receiveFrom})
	r.rec.emit("CrashLayout", nhEv{"h": 1, "rec": rec, "entries": r.layout()})
	func() {
		defer func() {
			if x := recover(); x != nil {
				r.rec.emit("Panic", nhEv{"msg": fmt.Sprintf("start-up cleanup: %v", x)})
			}
		}()
		s2 := r.snapshotter()
		if err := s2.processOrphans(); err != nil {
			r.rec.emit("Panic", nhEv{"msg": "processOrphans: " + err.Error()})
		}
	}()
	r.rec.emit("Layout", nhEv{"h": 1, "rec": rec, "entries": r.layout()})
	return ops
}

func TestVerifSdsim(t *testing.T) {
	out := os.Getenv("VERIF_OUT")
	if out == "" {
		t.Skip("VERIF_OUT not set")
	}
	first := nhEnvInt("VERIF_FIRST", 0)
	traces := nhEnvInt("VERIF_TRACES", 4)
	nhInstallLogger()
	rec := newNhRec(out)
	nhCurRec = rec
	defer rec.close()
	replicas := []uint64{3, 12, 27, 200}
	for k := 0; k < traces; k++ {
		tid := first + k
		rec.t = tid
		r := &sdRun{rec: rec, replica: replicas[tid%len(replicas)], ondisk: (tid/len(replicas))%2 == 1}
		rec.emit("Init", nhEv{"replica": r.replica, "ondisk": r.ondisk, "mode": "sdsim"})
		n := r.scenario(0, 0)
		for at := int64(1); at <= n; at++ {
			r.scenario(at, 0)
		}
		for _, from := range []uint64{2, 11, 26} {
			m := r.scenario(0, from)
			for at := int64(1); at <= m; at++ {
				r.scenario(at, from)
			}
		}
	}
}
