//go:build verif

// qssim: the real quiesceState (quiesce.go) under seeded sequences of ticks, recorded messages,
// Quiesce messages and flag reads; every step logs the complete state. spec/QuiesceTrace.tla
// recomputes every step with spec/Quiesce.tla and evaluates the resume / go-idle lemmas of
// MCQuiesce on the observed steps.
package dragonboat

import (
	"bufio"
	"fmt"
	"math/rand"
	"os"
	"testing"

	pb "github.com/lni/dragonboat/v4/raftpb"
)

func TestVerifQssim(t *testing.T) {
	out := os.Getenv("VERIF_OUT")
	if out == "" {
		t.Skip("VERIF_OUT not set")
	}
	seed := int64(nhEnvInt("VERIF_SEED", 1))
	traces := nhEnvInt("VERIF_TRACES", 50)
	first := nhEnvInt("VERIF_FIRST", 0)
	steps := nhEnvInt("VERIF_STEPS", 400)
	f, err := os.Create(out)
	if err != nil {
		t.Fatal(err)
	}
	defer f.Close()
	w := bufio.NewWriterSize(f, 1<<20)
	defer w.Flush()
	types := []pb.MessageType{pb.Propose, pb.Replicate, pb.ReplicateResp, pb.RequestVote, pb.ReadIndex,
		pb.ConfigChangeEvent, pb.InstallSnapshot, pb.LeaderTransfer}
	for k := 0; k < traces; k++ {
		tid := first + k
		rng := rand.New(rand.NewSource(seed*7919 + int64(tid)))
		el := uint64(1 + rng.Intn(4))
		q := &quiesceState{electionTick: el, enabled: tid%7 != 6}
		i := 0
		emit := func(op string, hb bool, ret bool) {
			i++
			fmt.Fprintf(w, `{"t":%d,"i":%d,"op":"%s","hb":%t,"ret":%t,"st":{"tick":%d,"election":%d,"since":%d,"idle":%d,"exit":%d,"enabled":%t,"flag":%t}}`+"\n",
				tid, i, op, hb, ret, q.currentTick, q.electionTick, q.quiescedSince, q.idleSince, q.exitQuiesceTick, q.enabled, q.newQuiesceStateFlag == 1)
		}
		emit("Init", false, false)
		// phases: busy, idle (only ticks, sometimes heartbeats), mixed
		for s := 0; s < steps; s++ {
			phase := (s / 60) % 3
			x := rng.Intn(100)
			switch {
			case phase == 1 && x < 80, phase != 1 && x < 45:
				q.tick()
				emit("Tick", false, false)
			case x < 88 && phase == 1, x < 60 && phase != 1:
				ty := pb.Heartbeat
				if rng.Intn(2) == 0 {
					ty = pb.HeartbeatResp
				}
				q.record(ty)
				emit("Record", true, false)
			case x < 92 && phase == 1, x < 85 && phase != 1:
				q.record(types[rng.Intn(len(types))])
				emit("Record", false, false)
			case x < 96:
				q.tryEnterQuiesce()
				emit("TryEnter", false, false)
			default:
				r := q.newQuiesceState()
				emit("TakeFlag", false, r)
			}
		}
	}
}
