//go:build verif

// qqsim: the real entryQueue, readIndexQueue and readyShard (queue.go) under seeded call sequences. Every
// item carries a unique number; every call is logged with its result, get() with what it handed over.
// spec/QueuesTrace.tla recomputes every result with spec/Queues.tla (MCQueues checks that specification
// exhaustively: accepted items are handed over exactly once and in order).
package dragonboat

import (
	"bufio"
	"encoding/json"
	"math/rand"
	"os"
	"sort"
	"testing"

	pb "github.com/lni/dragonboat/v4/raftpb"
)

type qqEv struct {
	T      int      `json:"t"`
	I      int      `json:"i"`
	Op     string   `json:"op"`
	Kind   string   `json:"kind"`
	Size   uint64   `json:"size"`
	X      uint64   `json:"x"`
	Ret    bool     `json:"ret"`
	Ret2   bool     `json:"ret2"`
	Paused bool     `json:"paused"`
	Got    []uint64 `json:"got"`
	Frozen bool     `json:"frozen"`
}

func TestVerifQqsim(t *testing.T) {
	out := os.Getenv("VERIF_OUT")
	if out == "" {
		t.Skip("VERIF_OUT not set")
	}
	seed := int64(nhEnvInt("VERIF_SEED", 1))
	traces := nhEnvInt("VERIF_TRACES", 50)
	first := nhEnvInt("VERIF_FIRST", 0)
	steps := nhEnvInt("VERIF_STEPS", 300)
	f, err := os.Create(out)
	if err != nil {
		t.Fatal(err)
	}
	defer f.Close()
	w := bufio.NewWriterSize(f, 1<<20)
	defer w.Flush()
	for k := 0; k < traces; k++ {
		tid := first + k
		rng := rand.New(rand.NewSource(seed*32452843 + int64(tid)))
		i := 0
		emit := func(ev qqEv) {
			ev.T, ev.I = tid, i
			i++
			if ev.Got == nil {
				ev.Got = []uint64{}
			}
			b, err := json.Marshal(ev)
			if err != nil {
				panic(err)
			}
			w.Write(b)
			w.WriteByte('\n')
		}
		size := uint64(1 + rng.Intn(5))
		kind := []string{"entry", "read"}[tid%2]
		emit(qqEv{Op: "Init", Kind: kind, Size: size})
		eq := newEntryQueue(size, uint64(rng.Intn(4)))
		rq := newReadIndexQueue(size)
		rs := newReadyShard()
		next := uint64(0)
		objs := map[*RequestState]uint64{}
		var prevE []pb.Entry
		var prevR []*RequestState
		var prevIDs []uint64
		var prevSet map[uint64]struct{}
		var prevSetCopy []uint64
		closed := false
		for s := 0; s < steps; s++ {
			x := rng.Intn(100)
			switch {
			case x < 50:
				next++
				var a, st bool
				if kind == "entry" {
					a, st = eq.add(pb.Entry{Key: next, Cmd: []byte{1}})
				} else {
					r := &RequestState{}
					objs[r] = next
					a, st = rq.add(r)
				}
				emit(qqEv{Op: "Add", X: next, Ret: a, Ret2: st})
			case x < 52 && !closed && s > steps/2:
				if kind == "entry" {
					eq.close()
				} else {
					rq.close()
				}
				closed = true
				emit(qqEv{Op: "Close"})
			case x < 80:
				frozen := true
				ids := []uint64{}
				paused := false
				if kind == "entry" {
					frozen = len(prevE) == len(prevIDs)
					for j := range prevIDs {
						if prevE[j].Key != prevIDs[j] || len(prevE[j].Cmd) != 1 {
							frozen = false
						}
					}
					paused = rng.Intn(5) == 0
					got := eq.get(paused)
					for _, e := range got {
						ids = append(ids, e.Key)
					}
					prevE, prevIDs = got, ids
				} else {
					frozen = len(prevR) == len(prevIDs)
					for j := range prevIDs {
						if objs[prevR[j]] != prevIDs[j] {
							frozen = false
						}
					}
					got := rq.get()
					for _, r := range got {
						ids = append(ids, objs[r])
					}
					prevR, prevIDs = got, ids
				}
				emit(qqEv{Op: "Get", Paused: paused, Got: ids, Frozen: frozen})
			case x < 92:
				id := uint64(1 + rng.Intn(6))
				rs.setShardReady(id)
				emit(qqEv{Op: "SetReady", X: id})
			default:
				frozen := len(prevSet) == len(prevSetCopy)
				for _, id := range prevSetCopy {
					if _, ok := prevSet[id]; !ok {
						frozen = false
					}
				}
				m := rs.getReadyShards()
				ids := []uint64{}
				for id := range m {
					ids = append(ids, id)
				}
				sort.Slice(ids, func(a, b int) bool { return ids[a] < ids[b] })
				prevSet, prevSetCopy = m, ids
				emit(qqEv{Op: "GetReady", Got: ids, Frozen: frozen})
			}
		}
	}
}
