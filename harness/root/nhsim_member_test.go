//go:build verif

// nhsim, membership scenarios (C07 on real NodeHosts): a shard grows, shrinks and changes the
// kind of its members through the public API while clients write; the driver also issues the
// requests that must be refused (re-adding a removed replica, changing the kind of a member
// other than by promotion, re-using an address, a stale ConfigChangeIndex under
// OrderedConfigChange, removing the last voter). Every request is recorded with its outcome and
// followed by the membership every running host reports. spec/MemberTrace.tla applies the rule
// table of spec/RSM.tla.
package dragonboat

import (
	"context"
	"encoding/json"
	"fmt"
	"math/rand"
	"sort"
	"sync"
	"sync/atomic"
	"time"

	"github.com/lni/dragonboat/v4/config"
)

func nhScenarioMember(rec *nhRec, tid int, seed int64, smType string, store string, steps int) {
	rec.t = tid
	rng := rand.New(rand.NewSource(seed*23 + 11))
	ordered := tid%2 == 0
	c := newNhCluster(rec, 8, smType, store, seed)
	kinds := map[int]string{} // host id -> "voter" | "nonvoting" | "witness" as started
	c.cfgOf = func(replica uint64) config.Config {
		return config.Config{ReplicaID: replica, ShardID: c.shard, ElectionRTT: 10, HeartbeatRTT: 2,
			CheckQuorum: true, OrderedConfigChange: ordered,
			IsNonVoting: kinds[int(replica)] == "nonvoting", IsWitness: kinds[int(replica)] == "witness"}
	}
	r := &nhRun{c: c, p: nhParams{hosts: 8, opTimeout: 500 * time.Millisecond}, hmu: make([]sync.RWMutex, 8), done: map[int]bool{}}
	rec.emit("Init", nhEv{"hosts": 3, "sm": smType, "store": store, "seed": seed, "mode": "member", "ordered": ordered})
	for _, h := range c.hosts[:3] {
		c.members[uint64(h.id)] = h.addr
		kinds[h.id] = "voter"
	}
	for _, h := range c.hosts[:3] {
		if err := r.startHostAndReplica(h, true); err != nil {
			panic(err)
		}
	}
	defer func() {
		c.closeAll()
		nhTakePanics()
	}()
	if !r.waitLeader(5 * time.Second) {
		return
	}
	var wg sync.WaitGroup
	var opid int64
	var quiet int32 // the background writer pauses (quiet join below)
	// on-disk state machines, one trace per batch: nothing at all is written before the first member joins - the
	// snapshot it is streamed is the (possibly empty) image of a state machine that has applied no update
	// (the last trace of a batch: the finding recorded for it takes the process down)
	virgin := smType == "ondisk" && nhEnvInt("VERIF_NH_VIRGIN", 0) == 1 && tid == nhEnvInt("VERIF_FIRST", 0)+nhEnvInt("VERIF_TRACES", 4)-1
	if virgin {
		quiet = 1
		c.emptyImage = true
	}
	wg.Add(1)
	go func() {
		defer wg.Done()
		wr := rand.New(rand.NewSource(seed*29 + 1))
		for atomic.LoadInt32(&r.stop) == 0 {
			time.Sleep(time.Duration(500+wr.Intn(4000)) * time.Microsecond)
			if atomic.LoadInt32(&quiet) != 0 {
				continue
			}
			nh := r.nhOf(1 + wr.Intn(8))
			if nh == nil {
				continue
			}
			id := atomic.AddInt64(&opid, 1)
			cmd, _ := json.Marshal(nhCmd{Op: "w", K: "a", V: fmt.Sprintf("v%d", id), ID: int(id)})
			func() {
				defer func() { _ = recover() }()
				rs, err := nh.Propose(nh.GetNoOPSession(c.shard), cmd, 200*time.Millisecond)
				if err == nil {
					select {
					case <-rs.ResultC():
					case <-time.After(time.Second):
					}
					rs.Release()
				}
			}()
		}
	}()
	// driver's own view (only used to choose requests; the verdict is TLC's)
	voters := map[int]bool{1: true, 2: true, 3: true}
	nonvot := map[int]bool{}
	removed := map[int]bool{}
	spare := []int{4, 5, 6, 7, 8}
	observe := func() uint64 {
		ccid := uint64(0)
		for _, h := range c.hosts {
			nh := r.nhOf(h.id)
			if nh == nil || removed[h.id] {
				continue
			}
			ctx, cancel := context.WithTimeout(context.Background(), time.Second)
			m, err := nh.SyncGetShardMembership(ctx, c.shard)
			cancel()
			if err != nil {
				continue
			}
			ccid = m.ConfigChangeID
			rec.emit("Members", nhEv{"h": h.id, "ccid": m.ConfigChangeID, "nodes": nhPairs(m.Nodes),
				"nonvotings": nhPairs(m.NonVotings), "witnesses": nhPairs(m.Witnesses), "removed": nhIDs(m.Removed)})
		}
		return ccid
	}
	ccid := observe()
	request := func(typ string, id int, addr string, idx uint64) string {
		out := "noleader"
		for try := 0; try < 30 && out == "noleader"; try++ {
			l := r.leaderHost()
			var nh *NodeHost
			if l != 0 {
				nh = r.nhOf(l)
			}
			if l == 0 || nh == nil {
				time.Sleep(10 * time.Millisecond)
				continue
			}
			var rs *RequestState
			var err error
			switch typ {
			case "AddNode":
				rs, err = nh.RequestAddReplica(c.shard, uint64(id), addr, idx, 500*time.Millisecond)
			case "AddNonVoting":
				rs, err = nh.RequestAddNonVoting(c.shard, uint64(id), addr, idx, 500*time.Millisecond)
			case "AddWitness":
				rs, err = nh.RequestAddWitness(c.shard, uint64(id), addr, idx, 500*time.Millisecond)
			case "RemoveNode":
				rs, err = nh.RequestDeleteReplica(c.shard, uint64(id), idx, 500*time.Millisecond)
			}
			if err != nil {
				out = "refused"
				break
			}
			select {
			case rr := <-rs.ResultC():
				out = nhCode(rr)
			case <-time.After(3 * time.Second):
				out = "timeout"
			}
			rs.Release()
			if out == "dropped" {
				out = "noleader"
				time.Sleep(10 * time.Millisecond)
			}
		}
		rec.emit("CC", nhEv{"typ": typ, "id": id, "addr": addr, "ccid": idx, "ordered": ordered, "out": out})
		return out
	}
	startJoin := func(id int, kind string) {
		h := c.host(id)
		kinds[id] = kind
		r.hmu[id-1].Lock()
		defer r.hmu[id-1].Unlock()
		if err := c.startHost(h); err != nil {
			panic(err)
		}
		if err := c.startReplica(h, nil, true); err != nil {
			panic(err)
		}
		h.joined = true
	}
	c.slowUs = 15000 // slow SaveSnapshot: membership changes are applied while snapshots are being written
	for s := 0; s < steps; s++ {
		time.Sleep(time.Duration(5+rng.Intn(30)) * time.Millisecond)
		// snapshots in the background (concurrent / on-disk state machines keep applying meanwhile)
		if rng.Intn(100) < 50 {
			for _, h := range c.hosts {
				if nh := r.nhOf(h.id); nh != nil && !removed[h.id] && rng.Intn(2) == 0 {
					func() {
						defer func() { _ = recover() }()
						_, _ = nh.RequestSnapshot(c.shard, SnapshotOption{OverrideCompactionOverhead: true,
							CompactionOverhead: uint64(rng.Intn(3))}, 500*time.Millisecond)
					}()
				}
			}
		}
		// a member is restarted now and then: it recovers from its latest snapshot and replays
		if rng.Intn(100) < 18 {
			ids := []int{}
			for id := range voters {
				ids = append(ids, id)
			}
			for id := range nonvot {
				ids = append(ids, id)
			}
			sort.Ints(ids)
			id := ids[rng.Intn(len(ids))]
			if r.nhOf(id) != nil {
				if rng.Intn(2) == 0 {
					r.stopGracefully(id)
				} else {
					r.crash(id, false, rng)
				}
				time.Sleep(time.Duration(10+rng.Intn(30)) * time.Millisecond)
				r.restart(id)
			}
		}
		idx := ccid
		x := rng.Intn(100)
		if virgin {
			x = 0
		}
		switch {
		case x < 18 && len(spare) > 0: // new voter
			id := spare[0]
			quietJoin := rng.Intn(2) == 0 || virgin
			virgin = false
			if quietJoin {
				// nothing is written while the new member joins: the last applied entry is the
				// membership change itself, the joiner is brought up to date by a snapshot whose index
				// is ahead of the last user update (on-disk state machines: Index > OnDiskIndex), takes
				// a snapshot of its own before it applies any update, and restarts
				atomic.StoreInt32(&quiet, 1)
				time.Sleep(30 * time.Millisecond)
			}
			if request("AddNode", id, c.host(id).addr, idx) == "ok" {
				spare = spare[1:]
				voters[id] = true
				if quietJoin {
					for _, h := range c.hosts {
						if nh := r.nhOf(h.id); nh != nil && !removed[h.id] {
							func() {
								defer func() { _ = recover() }()
								ctx, cancel := context.WithTimeout(context.Background(), time.Second)
								_, _ = nh.SyncRequestSnapshot(ctx, c.shard, SnapshotOption{OverrideCompactionOverhead: true, CompactionOverhead: 0})
								cancel()
							}()
						}
					}
				}
				startJoin(id, "voter")
				if quietJoin {
					// one more entry that is not a user update: a membership request that is refused by
					// the rules (the new member again, at another address) is still an applied entry
					time.Sleep(20 * time.Millisecond)
					request("AddNode", id, "elsewhere:1", observe())
					target := uint64(0)
					if l := r.leaderHost(); l != 0 {
						if nh := r.nhOf(l); nh != nil {
							if n, ok := nh.getShard(c.shard); ok {
								target = n.sm.GetLastApplied()
							}
						}
					}
					end := time.Now().Add(3 * time.Second)
					for time.Now().Before(end) {
						if nh := r.nhOf(id); nh != nil {
							if n, ok := nh.getShard(c.shard); ok && target > 0 && n.sm.GetLastApplied() >= target {
								break
							}
						}
						time.Sleep(5 * time.Millisecond)
					}
					if nh := r.nhOf(id); nh != nil {
						func() {
							defer func() { _ = recover() }()
							ctx, cancel := context.WithTimeout(context.Background(), time.Second)
							_, _ = nh.SyncRequestSnapshot(ctx, c.shard, SnapshotOption{})
							cancel()
						}()
						r.stopGracefully(id)
						time.Sleep(10 * time.Millisecond)
						r.restart(id)
					}
				}
			}
			atomic.StoreInt32(&quiet, 0)
		case x < 32 && len(spare) > 0: // new non-voting
			id := spare[0]
			if request("AddNonVoting", id, c.host(id).addr, idx) == "ok" {
				spare = spare[1:]
				nonvot[id] = true
				startJoin(id, "nonvoting")
			}
		case x < 44 && len(nonvot) > 0: // promotion
			for id := range nonvot {
				if request("AddNode", id, c.host(id).addr, idx) == "ok" {
					delete(nonvot, id)
					voters[id] = true
				}
				break
			}
		case x < 58 && len(voters) > 2: // remove a member (not below two voters)
			ids := []int{}
			for id := range voters {
				ids = append(ids, id)
			}
			for id := range nonvot {
				ids = append(ids, id)
			}
			id := ids[rng.Intn(len(ids))]
			if voters[id] && len(voters) <= 2 {
				break
			}
			if request("RemoveNode", id, "", idx) == "ok" {
				delete(voters, id)
				delete(nonvot, id)
				removed[id] = true
				h := c.host(id)
				r.hmu[id-1].Lock()
				if h.nh != nil {
					h.nh.Close()
					h.nh = nil
					h.alive = false
				}
				r.hmu[id-1].Unlock()
			}
		case x < 66 && len(removed) > 0: // re-admit a removed replica: must be refused
			for id := range removed {
				request([]string{"AddNode", "AddNonVoting"}[rng.Intn(2)], id, c.host(id).addr, idx)
				break
			}
		case x < 74 && len(voters) > 0: // demote a voter: must be refused
			for id := range voters {
				request([]string{"AddNonVoting", "AddWitness"}[rng.Intn(2)], id, c.host(id).addr, idx)
				break
			}
		case x < 80 && len(spare) > 0 && len(voters) > 0: // address already in use: must be refused
			for id := range voters {
				request("AddNode", spare[0], c.host(id).addr, idx)
				break
			}
		case x < 88 && ordered && idx > 0: // stale index under ordered config change: must be refused
			if len(spare) > 0 {
				request("AddNonVoting", spare[0], c.host(spare[0]).addr, idx-1)
			}
		case x < 94 && len(nonvot) > 0: // promotion with another address: must be refused
			for id := range nonvot {
				request("AddNode", id, "elsewhere:1", idx)
				break
			}
		default: // leader transfer
			if l := r.leaderHost(); l != 0 && r.nhOf(l) != nil {
				for id := range voters {
					_ = r.nhOf(l).RequestLeaderTransfer(c.shard, uint64(id))
					break
				}
			}
		}
		ccid = observe()
	}
	atomic.StoreInt32(&r.stop, 1)
	wg.Wait()
}
