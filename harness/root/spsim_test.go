//go:build verif

// spsim: the snapshot job protocol of one replica (spec/SnapshotJobs.tla) on the real code: a real
// *node (snapshotState, handleSnapshotTask, processStatusTransition, saveDone / recoverDone / streamDone)
// around a real rsm.StateMachine, and a real workerPool whose main loop runs on its own goroutine. The
// harness plays the apply worker (engine.processApplies for this replica), the snapshot workers (it takes the
// job a worker was handed, and later reports its end the way ssWorker does) and the NodeHost (nodeLoader).
// The nodeLoader doubles as scheduler gate: while the gate is closed the pool's main loop stands in its
// loadNodes call, stimuli pile up, and when it is opened the loop handles them in an order of its own
// choosing - SnapshotJobsTrace.tla accepts exactly the outcomes of the possible orders. After every step the
// complete state (flags and mailboxes of the node; pending jobs, books and busy workers of the pool) is
// logged; TLC recomputes it and evaluates the predicates of SnapshotJobs.tla on what was observed.
package dragonboat

import (
	"io"
	"math/rand"
	"os"
	"sync"
	"sync/atomic"
	"testing"
	"time"

	"github.com/lni/goutils/syncutil"

	"github.com/lni/dragonboat/v4/config"
	"github.com/lni/dragonboat/v4/internal/rsm"
	"github.com/lni/dragonboat/v4/internal/server"
	pb "github.com/lni/dragonboat/v4/raftpb"
	sm "github.com/lni/dragonboat/v4/statemachine"
)

type spUser struct{}

func (*spUser) Update(e sm.Entry) (sm.Result, error)       { return sm.Result{}, nil }
func (*spUser) Lookup(q interface{}) (interface{}, error)  { return nil, nil }
func (*spUser) Close() error                               { return nil }
func (*spUser) SaveSnapshot(io.Writer, sm.ISnapshotFileCollection, <-chan struct{}) error {
	return nil
}
func (*spUser) RecoverFromSnapshot(io.Reader, []sm.SnapshotFile, <-chan struct{}) error { return nil }

type spConc struct{}

func (*spConc) Update(e []sm.Entry) ([]sm.Entry, error)       { return e, nil }
func (*spConc) Lookup(q interface{}) (interface{}, error)     { return nil, nil }
func (*spConc) PrepareSnapshot() (interface{}, error)         { return nil, nil }
func (*spConc) Close() error                                  { return nil }
func (*spConc) SaveSnapshot(interface{}, io.Writer, sm.ISnapshotFileCollection, <-chan struct{}) error {
	return nil
}
func (*spConc) RecoverFromSnapshot(io.Reader, []sm.SnapshotFile, <-chan struct{}) error { return nil }

type spDisk struct{}

func (*spDisk) Open(<-chan struct{}) (uint64, error)           { return 0, nil }
func (*spDisk) Update(e []sm.Entry) ([]sm.Entry, error)        { return e, nil }
func (*spDisk) Lookup(q interface{}) (interface{}, error)      { return nil, nil }
func (*spDisk) Sync() error                                    { return nil }
func (*spDisk) PrepareSnapshot() (interface{}, error)          { return nil, nil }
func (*spDisk) SaveSnapshot(interface{}, io.Writer, <-chan struct{}) error { return nil }
func (*spDisk) RecoverFromSnapshot(io.Reader, <-chan struct{}) error       { return nil }
func (*spDisk) Close() error                                   { return nil }

// spLoader is the NodeHost as the pool sees it, and the gate
type spLoader struct {
	mu    sync.Mutex
	cci   uint64
	node  *node
	calls int64
	gate  chan struct{} // nil: open
}

func (l *spLoader) describe() string { return "spsim" }
func (l *spLoader) getShardSetIndex() uint64 {
	l.mu.Lock()
	g := l.gate
	l.mu.Unlock()
	if g != nil {
		<-g
	}
	l.mu.Lock()
	defer l.mu.Unlock()
	atomic.AddInt64(&l.calls, 1)
	return l.cci
}
func (l *spLoader) forEachShard(f func(uint64, *node) bool) uint64 {
	l.mu.Lock()
	defer l.mu.Unlock()
	if l.node != nil {
		f(l.node.shardID, l.node)
	}
	return l.cci
}

// spPipe is the engine as the node sees it
type spPipe struct {
	p    *workerPool
	mu   sync.Mutex
	bits []string
}

func (e *spPipe) note(k string) {
	e.mu.Lock()
	e.bits = append(e.bits, k)
	e.mu.Unlock()
}
func (e *spPipe) take() []string {
	e.mu.Lock()
	defer e.mu.Unlock()
	r := e.bits
	e.bits = nil
	if r == nil {
		r = []string{}
	}
	return r
}
func (e *spPipe) setCloseReady(*node)            {}
func (e *spPipe) setStepReady(shardID uint64)    {}
func (e *spPipe) setCommitReady(shardID uint64)  {}
func (e *spPipe) setApplyReady(shardID uint64)   {}
func (e *spPipe) setStreamReady(shardID uint64)  { e.note("stream"); e.p.streamReady.shardReady(shardID) }
func (e *spPipe) setSaveReady(shardID uint64)    { e.note("save"); e.p.saveReady.shardReady(shardID) }
func (e *spPipe) setRecoverReady(shardID uint64) { e.note("recover"); e.p.recoverReady.shardReady(shardID) }

func spKind(t rsm.Task) string {
	switch {
	case t.Save:
		return "save"
	case t.Recover:
		return "recover"
	case t.Stream:
		return "stream"
	}
	return "?"
}

func spHas(t *snapshotTask) bool {
	t.mu.Lock()
	defer t.mu.Unlock()
	return t.hasTask
}

type spRun struct {
	rec     *nhRec
	n       *node
	p       *workerPool
	l       *spLoader
	pipe    *spPipe
	jobs    map[uint64]*job // what a worker holds (taken off its request channel)
	done    map[uint64]bool // the job's end was reported to the node, not yet to the pool
	refused int
}

func spWait(cond func() bool) bool {
	end := time.Now().Add(5 * time.Second)
	for i := 0; ; i++ {
		if cond() {
			return true
		}
		if time.Now().After(end) {
			return false
		}
		if i < 200 {
			time.Sleep(5 * time.Microsecond)
		} else {
			time.Sleep(100 * time.Microsecond)
		}
	}
}

// state of the node (always) and of the pool (only when its main loop is known to be idle)
func (r *spRun) state(withPool bool) nhEv {
	ss := &r.n.ss
	b2 := func(s, rc, st bool) map[string]bool { return map[string]bool{"save": s, "recover": rc, "stream": st} }
	dinit := false
	ss.recoverCompleted.mu.Lock()
	if ss.recoverCompleted.hasTask {
		dinit = ss.recoverCompleted.t.Initial
	}
	ss.recoverCompleted.mu.Unlock()
	ev := nhEv{
		"flag": b2(ss.saving(), ss.recovering(), ss.streaming()),
		"req":  b2(spHas(&ss.saveReady), spHas(&ss.recoverReady), spHas(&ss.streamReady)),
		"done": b2(spHas(&ss.saveCompleted), spHas(&ss.recoverCompleted), spHas(&ss.streamCompleted)),
		"dinit": dinit, "initialized": r.n.initialized(),
	}
	if withPool {
		p := r.p
		pend := []string{}
		for _, j := range p.pending {
			pend = append(pend, spKind(j.task))
		}
		busy := []string{}
		for w := range p.workers {
			k := "none"
			if _, ok := p.busy[uint64(w)]; ok {
				k = "?"
				if j := r.jobs[uint64(w)]; j != nil {
					k = spKind(j.task)
				}
			}
			busy = append(busy, k)
		}
		_, sv := p.saving[1]
		_, rc := p.recovering[1]
		ev["pend"], ev["busy"], ev["sv"], ev["rc"], ev["st"] = pend, busy, sv, rc, p.streaming[1]
	}
	return ev
}

// the pool's main loop has handled everything it was given: see the comment at settle
func (r *spRun) settle(kinds []string, workers []uint64) bool {
	ok := spWait(func() bool {
		for _, k := range kinds {
			var t *snapshotTask
			switch k {
			case "save":
				t = &r.n.ss.saveReady
			case "recover":
				t = &r.n.ss.recoverReady
			default:
				t = &r.n.ss.streamReady
			}
			if spHas(t) {
				return false
			}
		}
		for _, w := range workers {
			if len(r.p.workers[w].completedC) != 0 {
				return false
			}
		}
		return true
	})
	if !ok {
		return false
	}
	// every arm that took something calls the loader once more before it schedules; the loop is sequential, so
	// after two further loader calls (the second is the answer to the ping at the latest) that arm is over
	base := atomic.LoadInt64(&r.l.calls)
	return spWait(func() bool {
		if atomic.LoadInt64(&r.l.calls) >= base+2 {
			return true
		}
		r.p.cciReady.shardReady(1)
		return false
	})
}

// jobs the pool handed to workers
func (r *spRun) collect() {
	for w, sw := range r.p.workers {
		select {
		case j := <-sw.requestC:
			jj := j
			r.jobs[uint64(w)] = &jj
		default:
		}
	}
}

func spTrace(rec *nhRec, tid int, rng *rand.Rand, steps int) {
	rec.t = tid
	rec.seq = 0
	kind := tid % 3 // 0 regular, 1 concurrent, 2 on-disk
	nworkers := 1 + rng.Intn(3)
	cfg := config.Config{ShardID: 1, ReplicaID: 1}
	stopC := make(chan struct{})
	l := &spLoader{cci: 1}
	p := &workerPool{
		nh: l, loaded: newLoadedNodes(),
		cciReady: newWorkReady(1), saveReady: newWorkReady(1), recoverReady: newWorkReady(1), streamReady: newWorkReady(1),
		nodes: make(map[uint64]*node), workers: make([]*ssWorker, nworkers), busy: make(map[uint64]*node),
		saving: make(map[uint64]struct{}), recovering: make(map[uint64]struct{}), streaming: make(map[uint64]uint64),
		pending: make([]job, 0), workerStopper: syncutil.NewStopper(), poolStopper: syncutil.NewStopper(),
	}
	for w := 0; w < nworkers; w++ {
		// the worker's goroutine is the harness
		p.workers[w] = &ssWorker{workerID: uint64(w), requestC: make(chan job, 1), completedC: make(chan struct{}, 1)}
	}
	pipe := &spPipe{p: p}
	r := &spRun{rec: rec, p: p, l: l, pipe: pipe, jobs: map[uint64]*job{}, done: map[uint64]bool{}}
	snapshotC := make(chan rsm.SSRequest, 64)
	n := &node{shardID: 1, replicaID: 1, instanceID: 1, config: cfg, stopC: stopC, pipeline: pipe,
		initializedC: make(chan struct{}), sysEvents: newSysEventListener(nil, make(chan struct{})),
		pendingSnapshot: newPendingSnapshot(snapshotC),
		mq:              server.NewMessageQueue(64, false, 4, 1024)}
	n.handleSnapshotStatus = func(uint64, uint64, bool) { r.refused++ }
	var ms rsm.IManagedStateMachine
	switch kind {
	case 0:
		ms = rsm.NewNativeSM(cfg, rsm.NewInMemStateMachine(&spUser{}), stopC)
	case 1:
		ms = rsm.NewNativeSM(cfg, rsm.NewConcurrentStateMachine(&spConc{}), stopC)
	default:
		ms = rsm.NewNativeSM(cfg, rsm.NewOnDiskStateMachine(&spDisk{}), stopC)
	}
	n.sm = rsm.NewStateMachine(ms, nil, cfg, n, nil)
	r.n = n
	n.loaded() // the NodeHost's reference
	l.node = n
	l.cci = 2
	p.poolStopper.RunWorker(func() { p.workerPoolMain() })
	// the pool loads the node
	p.cciReady.shardReady(1)
	if !spWait(func() bool { return atomic.LoadInt64(&l.calls) >= 1 }) || !r.settle(nil, nil) {
		rec.emit("Stuck", nhEv{"what": "pool did not load the node"})
		return
	}
	rec.emit("Init", nhEv{"concurrent": n.concurrentSnapshot(), "ondisk": n.OnDiskStateMachine(), "workers": nworkers})
	l.mu.Lock()
	l.gate = make(chan struct{})
	l.mu.Unlock()
	holding := 0
	var heldKinds []string
	defer func() {
		l.mu.Lock()
		g := l.gate
		l.gate = nil
		l.mu.Unlock()
		if g != nil {
			close(g)
		}
	}()
	var heldWorkers []uint64
	closeGate := func() {
		l.mu.Lock()
		l.gate = make(chan struct{})
		l.mu.Unlock()
	}
	openGate := func() {
		l.mu.Lock()
		g := l.gate
		l.gate = nil
		l.mu.Unlock()
		if g != nil {
			close(g)
		}
	}
	// the gate is open only while the harness waits for the pool: what the harness logs after a step of the
	// apply worker or of a snapshot worker is never touched by the pool's main loop at the same time
	flush := func() bool {
		if len(heldKinds) == 0 && len(heldWorkers) == 0 {
			return true
		}
		openGate()
		defer closeGate()
		if !r.settle(heldKinds, heldWorkers) {
			rec.emit("Stuck", nhEv{"what": "pool did not handle its stimuli", "kinds": heldKinds, "workers": heldWorkers})
			return false
		}
		for _, w := range heldWorkers {
			delete(r.jobs, w)
			delete(r.done, w)
		}
		r.collect()
		ev := r.state(true)
		if heldKinds == nil {
			heldKinds = []string{}
		}
		if heldWorkers == nil {
			heldWorkers = []uint64{}
		}
		ev["kinds"], ev["workers"] = heldKinds, heldWorkers
		rec.emit("Pool", ev)
		heldKinds, heldWorkers = nil, nil
		return true
	}
	var pendingReq *RequestState
	for s := 0; s < steps; s++ {
		if holding == 0 && rng.Intn(5) == 0 {
			holding = 1 + rng.Intn(4)
		}
		x := rng.Intn(100)
		switch {
		case x < 55:
			// one round of processApplies for this replica, with or without a snapshot task from the state machine
			task := ""
			if y := rng.Intn(10); y < 6 {
				task = []string{"save", "save", "recover", "stream", "stream", "save"}[y]
				if task == "stream" && kind != 2 {
					task = "save"
				}
			}
			skip := n.processStatusTransition()
			told := ""
			rts := n.sm.ReadyToStream()
			if !skip && task != "" {
				t := rsm.Task{ShardID: 1, ReplicaID: 2}
				switch task {
				case "save":
					t.Save = true
					// a user request, so that an ignored one can say so
					if pendingReq == nil {
						if rs, err := n.pendingSnapshot.request(rsm.UserRequested, "", false, 0, 0, 1000); err == nil {
							pendingReq = rs
							req := <-snapshotC
							t.SSRequest = req
						}
					}
				case "recover":
					t.Recover = true
				case "stream":
					t.Stream = true
				}
				before := r.refused
				n.handleSnapshotTask(t)
				if r.refused != before {
					told = "refused"
				}
				if pendingReq != nil {
					select {
					case res := <-pendingReq.ResultC():
						if res.Rejected() {
							told = "ignored"
						} else {
							told = "result?"
						}
						pendingReq = nil
					default:
						if t.SSRequest.Key != 0 {
							// the request is on its way as a job; the harness forgets it (node.save would complete it)
							n.pendingSnapshot.apply(t.SSRequest.Key, false, true, 0)
							<-pendingReq.ResultC()
							pendingReq = nil
						}
					}
				}
			} else {
				task = ""
			}
			bits := pipe.take()
			ev := r.state(false)
			ev["task"], ev["skip"], ev["told"], ev["bits"], ev["rts"] = task, skip, told, bits, rts
			rec.emit("Apply", ev)
			heldKinds = append(heldKinds, bits...)
		case x < 80:
			// a worker finishes its job: ssWorker.save / recover / stream after the node's part
			var cand []uint64
			for w, j := range r.jobs {
				if j != nil && !r.done[w] {
					cand = append(cand, w)
				}
			}
			if len(cand) == 0 {
				continue
			}
			// map iteration order must not decide
			min := cand[0]
			for _, c := range cand {
				if c < min {
					min = c
				}
			}
			w := cand[0]
			if rng.Intn(2) == 0 {
				w = min
			} else {
				for _, c := range cand {
					if c > w {
						w = c
					}
				}
			}
			j := r.jobs[w]
			k := spKind(j.task)
			switch k {
			case "save":
				j.node.saveDone()
			case "recover":
				j.node.recoverDone(0)
			case "stream":
				j.node.streamDone()
			}
			r.done[w] = true
			ev := r.state(false)
			ev["w"], ev["kind"] = w, k
			rec.emit("JobDone", ev)
		default:
			// ssWorker.completed()
			var cand []uint64
			for w := 0; w < nworkers; w++ {
				if r.done[uint64(w)] {
					already := false
					for _, h := range heldWorkers {
						if h == uint64(w) {
							already = true
						}
					}
					if !already {
						cand = append(cand, uint64(w))
					}
				}
			}
			if len(cand) == 0 {
				continue
			}
			w := cand[rng.Intn(len(cand))]
			p.workers[w].completedC <- struct{}{}
			heldWorkers = append(heldWorkers, w)
		}
		if holding > 0 {
			holding--
		}
		if holding == 0 {
			if !flush() {
				return
			}
		}
	}
	holding = 0
	if !flush() {
		return
	}
	// drain: everything that was asked for must get through when everybody keeps going
	for round := 0; round < 40; round++ {
		skip := n.processStatusTransition()
		bits := pipe.take()
		ev := r.state(false)
		ev["task"], ev["skip"], ev["told"], ev["bits"], ev["rts"] = "", skip, "", bits, true
		ev["drain"] = true
		rec.emit("ApplyD", ev)
		heldKinds = append(heldKinds, bits...)
		if !flush() {
			return
		}
		for w := 0; w < nworkers; w++ {
			j := r.jobs[uint64(w)]
			if j == nil {
				continue
			}
			if !r.done[uint64(w)] {
				k := spKind(j.task)
				switch k {
				case "save":
					j.node.saveDone()
				case "recover":
					j.node.recoverDone(0)
				case "stream":
					j.node.streamDone()
				}
				r.done[uint64(w)] = true
				ev := r.state(false)
				ev["w"], ev["kind"] = w, k
				rec.emit("JobDone", ev)
			}
			p.workers[w].completedC <- struct{}{}
			heldWorkers = append(heldWorkers, uint64(w))
			if !flush() {
				return
			}
		}
	}
	ev := r.state(true)
	rec.emit("End", ev)
	p.poolStopper.Stop()
	close(stopC)
}

func TestVerifSpsim(t *testing.T) {
	out := os.Getenv("VERIF_OUT")
	if out == "" {
		t.Skip("VERIF_OUT not set")
	}
	seed := int64(nhEnvInt("VERIF_SEED", 1))
	traces := nhEnvInt("VERIF_TRACES", 50)
	first := nhEnvInt("VERIF_FIRST", 0)
	steps := nhEnvInt("VERIF_STEPS", 60)
	nhInstallLogger()
	rec := newNhRec(out)
	nhCurRec = rec
	defer rec.close()
	for k := 0; k < traces; k++ {
		tid := first + k
		rng := rand.New(rand.NewSource(seed*15485863 + int64(tid)))
		spTrace(rec, tid, rng, steps)
	}
}

var _ = pb.Entry{}
