//go:build verif

// nhsim, snapshot directory scenarios (C16): hosts lose power at a seeded file-system
// operation while a snapshot is being saved, exported, received from the leader, shrunk or
// compacted. After every power loss the host is restarted and three observations are recorded:
//
//	CrashLayout  the snapshot directory and the snapshot record of the log store as the power
//	             loss left them (listed after NewNodeHost, before StartReplica),
//	Layout       the same after StartReplica returned (snapshotter.processOrphans has run),
//	Recovered    whether the replica came back at or beyond the recorded snapshot.
//
// spec/SnapshotDirTrace.tla judges them with the layout predicates of spec/SnapshotDir.tla.
package dragonboat

import (
	"context"
	"encoding/json"
	"fmt"
	"io"
	"math/rand"
	"strconv"
	"strings"
	"sync"
	"sync/atomic"
	"time"

	"github.com/lni/dragonboat/v4/config"
	"github.com/lni/dragonboat/v4/internal/fileutil"
	"github.com/lni/dragonboat/v4/internal/rsm"
	"github.com/lni/dragonboat/v4/internal/server"
)

func nhSnapshotFileState(h *nhHost, fp string) (state string) {
	fs := h.fs
	if _, err := fs.Stat(fp); err != nil {
		return "none"
	}
	defer func() {
		if r := recover(); r != nil {
			state = "bad"
		}
	}()
	if shrunk, err := rsm.IsShrunkSnapshotFile(fp, fs); err == nil && shrunk {
		return "shrunk"
	}
	f, err := fs.Open(fp)
	if err != nil {
		return "bad"
	}
	defer f.Close()
	data, err := io.ReadAll(f)
	if err != nil {
		return "bad"
	}
	v := rsm.NewSnapshotValidator()
	if !v.AddChunk(data, 0) {
		return "bad"
	}
	if !v.Validate() {
		return "bad"
	}
	return "ok"
}

// layout lists the snapshot directory of the replica on h and reads the snapshot record.
func (r *nhRun) layout(h *nhHost) (uint64, []nhEv) {
	c := r.c
	fs := h.fs
	ss, err := h.nh.mu.logdb.GetSnapshot(c.shard, uint64(h.id))
	if err != nil {
		panic(err)
	}
	entries := []nhEv{}
	names, err := fs.List(h.ssDir)
	if err != nil {
		return ss.Index, entries
	}
	for _, n := range names {
		dir := fs.PathJoin(h.ssDir, n)
		fi, err := fs.Stat(dir)
		if err != nil || !fi.IsDir() {
			continue
		}
		kind := "other"
		switch {
		case server.SnapshotDirNameRe.MatchString(n):
			kind = "final"
		case server.GenSnapshotDirNameRe.MatchString(n):
			kind = "gen"
		case server.RecvSnapshotDirNameRe.MatchString(n):
			kind = "recv"
		}
		idx := uint64(0)
		parts := strings.Split(strings.TrimSuffix(strings.TrimSuffix(n, ".generating"), ".receiving"), "-")
		if len(parts) >= 2 {
			idx, _ = strconv.ParseUint(parts[1], 16, 64)
		}
		_, merr := fs.Stat(fs.PathJoin(dir, server.MetadataFilename))
		entries = append(entries, nhEv{"name": n, "kind": kind, "index": idx,
			"flag": fileutil.HasFlagFile(dir, fileutil.SnapshotFlagFilename, fs),
			"meta": merr == nil,
			"file": nhSnapshotFileState(h, fs.PathJoin(dir, server.GetSnapshotFilename(idx)))})
	}
	return ss.Index, entries
}

func nhScenarioSnap(rec *nhRec, tid int, seed int64, smType string, store string, rounds int) {
	rec.t = tid
	c := newNhCluster(rec, 3, smType, store, seed)
	c.slowUs = 2000
	c.ssAudit = true
	c.cfgOf = func(replica uint64) config.Config {
		return config.Config{ReplicaID: replica, ShardID: c.shard, ElectionRTT: 10, HeartbeatRTT: 2,
			CheckQuorum: true, SnapshotEntries: 0, CompactionOverhead: 2}
	}
	r := &nhRun{c: c, p: nhParams{hosts: 3, opTimeout: 300 * time.Millisecond}, hmu: make([]sync.RWMutex, 3), done: map[int]bool{}}
	rec.emit("Init", nhEv{"hosts": 3, "sm": smType, "store": store, "seed": seed, "mode": "snap"})
	for _, h := range c.hosts {
		c.members[uint64(h.id)] = h.addr
	}
	for _, h := range c.hosts {
		if err := r.startHostAndReplica(h, true); err != nil {
			panic(err)
		}
		h.ssDir = h.nh.env.GetSnapshotDir(h.nh.nhConfig.GetDeploymentID(), c.shard, uint64(h.id))
	}
	defer func() {
		c.closeAll()
		nhTakePanics()
	}()
	if !r.waitLeader(5 * time.Second) {
		return
	}
	rng := rand.New(rand.NewSource(seed*13 + 7))
	var wg sync.WaitGroup
	var opid int64
	wg.Add(1)
	go func() {
		defer wg.Done()
		wr := rand.New(rand.NewSource(seed*17 + 1))
		for atomic.LoadInt32(&r.stop) == 0 {
			time.Sleep(time.Duration(300+wr.Intn(2500)) * time.Microsecond)
			nh := r.nhOf(1 + wr.Intn(3))
			if nh == nil {
				continue
			}
			id := atomic.AddInt64(&opid, 1)
			cmd, _ := json.Marshal(nhCmd{Op: "w", K: "a", V: fmt.Sprintf("v%d", id), ID: int(id)})
			func() {
				defer func() { _ = recover() }()
				rs, err := nh.Propose(nh.GetNoOPSession(c.shard), cmd, 200*time.Millisecond)
				if err == nil {
					select {
					case <-rs.ResultC():
					case <-time.After(time.Second):
					}
					rs.Release()
				}
			}()
		}
	}()
	snapshotOn := func(hid int, overhead uint64, export bool) {
		nh := r.nhOf(hid)
		if nh == nil {
			return
		}
		opt := SnapshotOption{OverrideCompactionOverhead: true, CompactionOverhead: overhead}
		if export {
			dir := fmt.Sprintf("/export%d/%d", hid, rng.Intn(1<<30))
			if err := fileutil.MkdirAll(dir, c.host(hid).fs); err != nil {
				return
			}
			opt = SnapshotOption{Exported: true, ExportPath: dir}
			// an export may carry compaction options as well; an exported snapshot is not recorded in
			// the log store, nothing may be compacted on its account
			if n, ok := nh.getShard(c.shard); ok && rng.Intn(2) == 0 {
				if la := n.sm.GetLastApplied(); la > 2 {
					opt.OverrideCompactionOverhead = true
					if rng.Intn(3) == 0 {
						opt.CompactionOverhead = uint64(rng.Intn(2))
					} else {
						opt.CompactionIndex = la - 1
					}
				}
			}
		}
		func() {
			defer func() { _ = recover() }()
			_, _ = nh.RequestSnapshot(c.shard, opt, 500*time.Millisecond)
		}()
	}
	arm := func(h *nhHost, span int) {
		cur := atomic.LoadInt64(&h.inj.count)
		atomic.StoreInt32(&h.inj.fired, 0)
		atomic.StoreInt64(&h.inj.at, cur+1+int64(rng.Intn(span)))
	}
	waitFired := func(h *nhHost, d time.Duration) bool {
		end := time.Now().Add(d)
		for time.Now().Before(end) {
			if atomic.LoadInt32(&h.inj.fired) != 0 {
				return true
			}
			time.Sleep(500 * time.Microsecond)
		}
		atomic.StoreInt64(&h.inj.at, 0)
		return false
	}
	for round := 0; round < rounds; round++ {
		time.Sleep(time.Duration(20+rng.Intn(40)) * time.Millisecond)
		v := 1 + rng.Intn(3)
		h := c.host(v)
		if r.nhOf(v) == nil {
			continue
		}
		action := []string{"save", "save", "receive", "receive", "export", "savesave"}[rng.Intn(6)]
		if smType == "ondisk" && rng.Intn(2) == 0 {
			action = "receive" // streamed snapshots, Sync and Shrink after the recovery
		}
		if smType == "ondisk" && rng.Intn(3) == 0 {
			action = "savenow"
		}
		fired := false
		switch action {
		case "save", "export", "savesave":
			arm(h, 140)
			snapshotOn(v, uint64(rng.Intn(3)), action == "export")
			if action == "savesave" {
				time.Sleep(time.Duration(rng.Intn(8)) * time.Millisecond)
				snapshotOn(v, 0, false)
			}
			fired = waitFired(h, 400*time.Millisecond)
		case "savenow":
			// on-disk state machines: a burst of writes while a local snapshot is taken (Sync, PrepareSnapshot and
			// Update compete for the state machine), and the power fails as soon as the snapshot is recorded -
			// before anything else is synced: what the record says the state machine has on disk must be there
			if nh := r.nhOf(v); nh != nil {
				var bw sync.WaitGroup
				for b := 0; b < 3; b++ {
					bw.Add(1)
					go func() {
						defer bw.Done()
						defer func() { _ = recover() }()
						for k := 0; k < 25; k++ {
							id := atomic.AddInt64(&opid, 1)
							cmd, _ := json.Marshal(nhCmd{Op: "w", K: "a", V: fmt.Sprintf("v%d", id), ID: int(id)})
							if rs, err := nh.Propose(nh.GetNoOPSession(c.shard), cmd, 200*time.Millisecond); err == nil {
								rs.Release()
							}
							time.Sleep(150 * time.Microsecond)
						}
					}()
				}
				func() {
					defer func() { _ = recover() }()
					ctx, cancel := context.WithTimeout(context.Background(), time.Second)
					_, _ = nh.SyncRequestSnapshot(ctx, c.shard, SnapshotOption{OverrideCompactionOverhead: true, CompactionOverhead: uint64(rng.Intn(2))})
					cancel()
				}()
				c.crashNow(h, "savenow")
				fired = true
				bw.Wait()
			}
		case "receive":
			// v goes down, the others move on and compact their logs, v comes back and is
			// streamed a snapshot; the power fails while it is being received / installed
			r.crash(v, false, rng)
			time.Sleep(time.Duration(40+rng.Intn(60)) * time.Millisecond)
			for _, o := range []int{1, 2, 3} {
				if o != v {
					snapshotOn(o, 0, false)
				}
			}
			time.Sleep(time.Duration(30+rng.Intn(40)) * time.Millisecond)
			if smType == "ondisk" && rng.Intn(4) != 0 {
				// the power fails right after the state machine has recovered from the streamed
				// snapshot: during the Sync / Shrink / compaction that follow
				c.armOnRecover = true
				r.restartObserved(h)
				fired = waitFired(h, 900*time.Millisecond)
				c.armOnRecover = false
			} else {
				r.restartObserved(h)
				arm(h, 260)
				fired = waitFired(h, 700*time.Millisecond)
			}
		}
		c.crashNow(h, "round")
		r.hmu[v-1].Lock()
		c.reap(h)
		r.hmu[v-1].Unlock()
		c.rec.emit("Round", nhEv{"h": v, "action": action, "fired": fired})
		r.restartObserved(h)
	}
	atomic.StoreInt32(&r.stop, 1)
	wg.Wait()
}

// restartObserved restarts a crashed host with its links cut, records the layout before and
// after the start-up cleanup, reconnects it and records whether it came back.
func (r *nhRun) restartObserved(h *nhHost) {
	c := r.c
	if h.alive {
		return
	}
	c.net.mu.Lock()
	for _, o := range c.hosts {
		if o != h {
			c.net.cut[[2]string{h.addr, o.addr}] = true
			c.net.cut[[2]string{o.addr, h.addr}] = true
		}
	}
	c.net.mu.Unlock()
	r.hmu[h.id-1].Lock()
	if err := c.startHost(h); err != nil {
		plog.Panicf("restart of host %d failed: %v", h.id, err)
	}
	r.bootEvent(h)
	recIdx, entries := r.layout(h)
	c.rec.emit("CrashLayout", nhEv{"h": h.id, "rec": recIdx, "entries": entries})
	if err := c.startReplica(h, nil, false); err != nil {
		plog.Panicf("restart of replica on host %d failed: %v", h.id, err)
	}
	recIdx2, entries2 := r.layout(h)
	c.rec.emit("Layout", nhEv{"h": h.id, "rec": recIdx2, "entries": entries2})
	r.hmu[h.id-1].Unlock()
	c.net.mu.Lock()
	c.net.cut = map[[2]string]bool{}
	c.net.mu.Unlock()
	// the replica must come back at a state no older than the recorded snapshot: once the node
	// reports itself initialized (start-up recovery done) its applied index is judged; a node
	// that does not get that far within the (generous) time-out is not judged
	applied := uint64(0)
	inited := false
	end := time.Now().Add(20 * time.Second)
	for time.Now().Before(end) {
		if n, found := h.nh.getShard(c.shard); found && n.initialized() {
			inited = true
			applied = n.sm.GetLastApplied()
			break
		}
		if c.net.isDead(h.addr) {
			break
		}
		time.Sleep(2 * time.Millisecond)
	}
	ok := !inited || applied >= recIdx2
	_ = context.Background
	c.rec.emit("Recovered", nhEv{"h": h.id, "rec": recIdx2, "applied": applied, "ok": ok, "init": inited})
}
