//go:build verif

// nhsim, quorum-loss repair scenarios (C20): a seeded history on a shard (optionally with a
// removed replica and a non-voting replica), a snapshot exported at a quiet point, all hosts
// closed, tools.ImportSnapshot with a member list drawn from the cases of spec/Import.tla on
// every listed host (real code, real log store, the host's own file system), restart, and the
// observations the property names: membership, state, leader, new proposal - or, for a list /
// export that must be refused, the error and a hash of the target host's file system before
// and after.
package dragonboat

import (
	"context"
	"crypto/sha256"
	"encoding/json"
	"fmt"
	"io"
	"math/rand"
	"sort"
	"strings"
	"sync"
	"time"

	"github.com/lni/dragonboat/v4/config"
	"github.com/lni/dragonboat/v4/internal/fileutil"
	"github.com/lni/dragonboat/v4/internal/server"
	"github.com/lni/dragonboat/v4/internal/vfs"
	pb "github.com/lni/dragonboat/v4/raftpb"
	"github.com/lni/dragonboat/v4/tools"
)

var nhImportCases = []string{"subset", "single", "all", "mixed", "allnew", "absent", "wrongaddr",
	"readd_removed", "addr_changed", "kind_changed", "missing_file", "bad_checksum", "missing_meta", "truncated_file", "bad_meta",
	"missing_external"}

func nhCopyDir(src vfs.IFS, sdir string, dst vfs.IFS, ddir string) error {
	if err := fileutil.MkdirAll(ddir, dst); err != nil {
		return err
	}
	names, err := src.List(sdir)
	if err != nil {
		return err
	}
	for _, n := range names {
		sp, dp := src.PathJoin(sdir, n), dst.PathJoin(ddir, n)
		fi, err := src.Stat(sp)
		if err != nil {
			return err
		}
		if fi.IsDir() {
			if err := nhCopyDir(src, sp, dst, dp); err != nil {
				return err
			}
			continue
		}
		f, err := src.Open(sp)
		if err != nil {
			return err
		}
		data, err := io.ReadAll(f)
		f.Close()
		if err != nil {
			return err
		}
		o, err := dst.Create(dp)
		if err != nil {
			return err
		}
		if _, err := o.Write(data); err != nil {
			return err
		}
		if err := o.Sync(); err != nil {
			return err
		}
		o.Close()
	}
	return fileutil.SyncDir(ddir, dst)
}

// nhHashFS hashes every file (path and content) below root, skipping the import source.
func nhHashFS(fs vfs.IFS, root string, skip string) string {
	h := sha256.New()
	var walk func(dir string)
	walk = func(dir string) {
		names, err := fs.List(dir)
		if err != nil {
			return
		}
		sort.Strings(names)
		for _, n := range names {
			p := fs.PathJoin(dir, n)
			if p == skip {
				continue
			}
			fi, err := fs.Stat(p)
			if err != nil {
				continue
			}
			if fi.IsDir() {
				fmt.Fprintf(h, "D %s\n", p)
				walk(p)
				continue
			}
			// lock files are rewritten by opening the log store: content only
			fmt.Fprintf(h, "F %s %d\n", p, fi.Size())
			if f, err := fs.Open(p); err == nil {
				io.Copy(h, f)
				f.Close()
			}
		}
	}
	walk(root)
	return fmt.Sprintf("%x", h.Sum(nil))[:16]
}

func nhPairs(m map[uint64]string) []nhEv {
	ids := make([]uint64, 0, len(m))
	for k := range m {
		ids = append(ids, k)
	}
	sort.Slice(ids, func(i, j int) bool { return ids[i] < ids[j] })
	r := make([]nhEv, 0, len(m))
	for _, k := range ids {
		r = append(r, nhEv{"id": k, "addr": m[k]})
	}
	return r
}

func nhIDs(m map[uint64]struct{}) []uint64 {
	ids := make([]uint64, 0, len(m))
	for k := range m {
		ids = append(ids, k)
	}
	sort.Slice(ids, func(i, j int) bool { return ids[i] < ids[j] })
	return ids
}

func nhScenarioImport(rec *nhRec, tid int, seed int64, smType string, store string) {
	rec.t = tid
	rng := rand.New(rand.NewSource(seed*19 + 3))
	cs := nhImportCases[tid%len(nhImportCases)]
	hist := []string{"plain", "removed3", "nv4", "removed3+nv4", "w4", "plain+ss", "removed3+ss", "w4+ss", "nv4+ss"}[(tid/len(nhImportCases)+tid)%9]
	has := func(s string) bool { return strings.Contains(hist, s) }
	if cs == "readd_removed" && !has("removed3") {
		hist = "removed3"
	}
	if cs == "kind_changed" && !has("nv4") && !has("w4") {
		hist = []string{"nv4", "w4"}[tid%2]
	}
	c := newNhCluster(rec, 8, smType, store, seed) // hosts 5..8 are spare machines
	r := &nhRun{c: c, p: nhParams{hosts: 8, opTimeout: 500 * time.Millisecond}, hmu: make([]sync.RWMutex, 8), done: map[int]bool{}}
	rec.emit("Init", nhEv{"hosts": 3, "sm": smType, "store": store, "seed": seed, "mode": "import", "case": cs, "hist": hist})
	for _, h := range c.hosts[:3] {
		c.members[uint64(h.id)] = h.addr
	}
	for _, h := range c.hosts[:3] {
		if err := r.startHostAndReplica(h, true); err != nil {
			panic(err)
		}
	}
	defer func() {
		c.closeAll()
		nhTakePanics()
	}()
	fail := func(why string) {
		rec.emit("ImportSkipped", nhEv{"why": why})
	}
	if !r.waitLeader(5 * time.Second) {
		fail("no leader")
		return
	}
	propose := func(n int, base int) bool {
		okc := 0
		for i := 0; i < n; i++ {
			for try := 0; try < 30; try++ {
				l := r.leaderHost()
				if l == 0 || r.nhOf(l) == nil {
					time.Sleep(5 * time.Millisecond)
					continue
				}
				nh := r.nhOf(l)
				cmd, _ := json.Marshal(nhCmd{Op: "w", K: []string{"a", "b", "c"}[rng.Intn(3)], V: fmt.Sprintf("v%d", base+i), ID: base + i})
				ctx, cancel := context.WithTimeout(context.Background(), 500*time.Millisecond)
				_, err := nh.SyncPropose(ctx, nh.GetNoOPSession(c.shard), cmd)
				cancel()
				if err == nil {
					okc++
					break
				}
				time.Sleep(10 * time.Millisecond)
			}
		}
		return okc == n
	}
	if !propose(5+rng.Intn(20), 1) {
		fail("proposals failed")
		return
	}
	cc := func(f func(nh *NodeHost, ctx context.Context) error) bool {
		for try := 0; try < 40; try++ {
			if l := r.leaderHost(); l != 0 && r.nhOf(l) != nil {
				ctx, cancel := context.WithTimeout(context.Background(), time.Second)
				err := f(r.nhOf(l), ctx)
				cancel()
				if err == nil {
					return true
				}
			}
			time.Sleep(10 * time.Millisecond)
		}
		return false
	}
	if has("nv4") || has("w4") {
		h4 := c.host(4)
		witness := has("w4")
		if !cc(func(nh *NodeHost, ctx context.Context) error {
			if witness {
				return nh.SyncRequestAddWitness(ctx, c.shard, 4, h4.addr, 0)
			}
			return nh.SyncRequestAddNonVoting(ctx, c.shard, 4, h4.addr, 0)
		}) {
			fail("add non-voting / witness failed")
			return
		}
		voters := 3
		old := c.cfgOf
		c.cfgOf = func(replica uint64) config.Config {
			cfg := old(replica)
			cfg.IsNonVoting = int(replica) > voters && !witness
			cfg.IsWitness = int(replica) > voters && witness
			return cfg
		}
		if err := c.startHost(h4); err != nil {
			panic(err)
		}
		if err := c.startReplica(h4, nil, true); err != nil {
			panic(err)
		}
		h4.joined = true
	}
	if has("removed3") {
		if !cc(func(nh *NodeHost, ctx context.Context) error {
			return nh.SyncRequestDeleteReplica(ctx, c.shard, 3, 0)
		}) {
			fail("delete replica failed")
			return
		}
	}
	if !propose(3+rng.Intn(10), 1000) {
		fail("proposals failed")
		return
	}
	// quiet point: membership and state as the export will capture them
	exporter := 1 + rng.Intn(2)
	enh := r.nhOf(exporter)
	var oldm *Membership
	var dump string
	for try := 0; try < 40 && oldm == nil; try++ {
		ctx, cancel := context.WithTimeout(context.Background(), time.Second)
		m, err := enh.SyncGetShardMembership(ctx, c.shard)
		if err == nil {
			a, err2 := enh.SyncRead(ctx, c.shard, nhQuery{Op: "dump"})
			if err2 == nil {
				oldm = m
				dump = a.(nhAnswer).Dump
			}
		}
		cancel()
	}
	if oldm == nil {
		fail("could not read membership")
		return
	}
	if has("+ss") {
		// every running replica takes a regular snapshot at the quiet point: the export will
		// be at an index for which the replicas already own a snapshot record
		for _, h := range c.hosts[:4] {
			if nh := r.nhOf(h.id); nh != nil && !(h.id == 4 && has("w4")) {
				ctx, cancel := context.WithTimeout(context.Background(), 2*time.Second)
				_, _ = nh.SyncRequestSnapshot(ctx, c.shard, SnapshotOption{OverrideCompactionOverhead: true,
					CompactionOverhead: uint64(rng.Intn(2))})
				cancel()
			}
		}
	}
	eh := c.host(exporter)
	if err := fileutil.MkdirAll("/export", eh.fs); err != nil {
		panic(err)
	}
	var exIdx uint64
	for try := 0; try < 20 && exIdx == 0; try++ {
		ctx, cancel := context.WithTimeout(context.Background(), 2*time.Second)
		idx, err := enh.SyncRequestSnapshot(ctx, c.shard, SnapshotOption{Exported: true, ExportPath: "/export"})
		cancel()
		if err == nil {
			exIdx = idx
		} else {
			time.Sleep(10 * time.Millisecond)
		}
	}
	if exIdx == 0 {
		fail("export failed")
		return
	}
	// still quiet? (a proposal that timed out at the client may have been applied meanwhile)
	{
		same := false
		for try := 0; try < 40 && !same; try++ {
			ctx, cancel := context.WithTimeout(context.Background(), time.Second)
			a, err := enh.SyncRead(ctx, c.shard, nhQuery{Op: "dump"})
			cancel()
			if err == nil {
				if a.(nhAnswer).Dump != dump {
					break
				}
				same = true
			}
		}
		if !same {
			fail("state moved between the reference read and the export")
			return
		}
	}
	srcDir := eh.fs.PathJoin("/export", server.GetSnapshotDirName(exIdx))
	// history after the export: must be gone after the import
	propose(rng.Intn(6), 5000)
	for _, h := range c.hosts {
		r.hmu[h.id-1].Lock()
		if h.nh != nil {
			h.nh.Close()
			h.nh = nil
			h.alive = false
		}
		r.hmu[h.id-1].Unlock()
	}
	// the member list of the case
	list := map[uint64]string{}
	importers := []int{}
	addr := func(i int) string { return c.host(i).addr }
	switch cs {
	case "subset":
		list[1], list[2] = addr(1), addr(2)
	case "single":
		list[uint64(exporter)] = addr(exporter)
	case "all":
		for id, a := range oldm.Nodes {
			list[id] = a
		}
	case "mixed":
		list[1], list[5], list[6] = addr(1), addr(5), addr(6)
	case "allnew":
		list[5], list[6], list[7] = addr(5), addr(6), addr(7)
	case "absent":
		list[2], list[5] = addr(2), addr(5) // imported on host 1, which is not listed
		importers = []int{1}
	case "wrongaddr":
		list[1], list[2] = addr(6), addr(2) // replica 1 is listed at another machine's address
		importers = []int{1}
	case "readd_removed":
		list[1], list[3] = addr(1), addr(3)
		importers = []int{1}
	case "addr_changed":
		list[1], list[2] = addr(1), addr(7)
		importers = []int{1}
	case "kind_changed":
		list[1], list[4] = addr(1), addr(4)
		importers = []int{1}
	default: // corruptions of the exported directory, otherwise a valid list
		list[1], list[2] = addr(1), addr(2)
		importers = []int{1}
	}
	if len(importers) == 0 {
		for id := range list {
			importers = append(importers, int(id))
		}
		sort.Ints(importers)
	}
	rec.emit("ImportCase", nhEv{"case": cs, "hist": hist, "index": exIdx,
		"old": nhEv{"addrs": nhPairs(oldm.Nodes), "nonvotings": nhPairs(oldm.NonVotings),
			"witnesses": nhPairs(oldm.Witnesses), "removed": nhIDs(oldm.Removed)},
		"list": nhPairs(list), "importers": importers})
	allok := true
	for _, hid := range importers {
		h := c.host(hid)
		if err := nhCopyDir(eh.fs, srcDir, h.fs, "/import"); err != nil {
			panic(err)
		}
		corrupt := "none"
		ssfile := h.fs.PathJoin("/import", server.GetSnapshotFilename(exIdx))
		switch cs {
		case "missing_file":
			corrupt = cs
			h.fs.Remove(ssfile)
		case "missing_meta":
			corrupt = cs
			h.fs.Remove(h.fs.PathJoin("/import", server.MetadataFilename))
		case "bad_meta":
			// one flipped bit anywhere in the metadata file (hash | marshalled snapshot record): many
			// flips leave a record that still decodes (another term, index, membership address ...)
			corrupt = cs
			mp := h.fs.PathJoin("/import", server.MetadataFilename)
			f, _ := h.fs.Open(mp)
			data, _ := io.ReadAll(f)
			f.Close()
			if len(data) > 0 {
				data[rng.Intn(len(data))] ^= 1 << uint(rng.Intn(8))
				o, _ := h.fs.Create(mp)
				o.Write(data)
				o.Sync()
				o.Close()
			} else {
				corrupt = "none"
			}
		case "missing_external":
			// the exported record lists an external snapshot file that is not in the directory (lost when the
			// export was copied to this machine): the metadata file is rewritten with the entry and a valid hash
			corrupt = cs
			var ess pb.Snapshot
			if err := fileutil.GetFlagFileContent("/import", server.MetadataFilename, &ess, h.fs); err != nil {
				panic(err)
			}
			ess.Files = append(ess.Files, &pb.SnapshotFile{Filepath: h.fs.PathJoin("/import", "external-file-7"), FileSize: 10, FileId: 7})
			h.fs.Remove(h.fs.PathJoin("/import", server.MetadataFilename))
			if err := fileutil.CreateFlagFile("/import", server.MetadataFilename, &ess, h.fs); err != nil {
				panic(err)
			}
		case "bad_checksum", "truncated_file":
			corrupt = cs
			f, _ := h.fs.Open(ssfile)
			data, _ := io.ReadAll(f)
			f.Close()
			if cs == "bad_checksum" {
				// flip one payload byte (beyond the 1 KB header block)
				if len(data) > 1100 {
					data[1030+rng.Intn(len(data)-1100)] ^= 0x5a
				} else {
					corrupt = "none"
				}
			} else {
				data = data[:len(data)-1-rng.Intn(len(data)/4+1)]
			}
			o, _ := h.fs.Create(ssfile)
			o.Write(data)
			o.Sync()
			o.Close()
		}
		cfg := c.nhConfig(h)
		before := nhHashFS(h.fs, "/", "/import")
		err := func() (err error) {
			defer func() {
				if x := recover(); x != nil {
					err = fmt.Errorf("panic: %v", x)
				}
			}()
			return tools.ImportSnapshot(cfg, "/import", list, uint64(hid))
		}()
		after := nhHashFS(h.fs, "/", "/import")
		rec.emit("ImportResult", nhEv{"h": hid, "ok": err == nil, "err": nhErrName(err), "corrupt": corrupt,
			"cfgaddr": cfg.RaftAddress, "unchanged": before == after})
		if err != nil || corrupt != "none" {
			// a damaged export that was accepted is already judged by ImportResult; starting a
			// NodeHost on it would take the whole process down (raw panic in the block reader)
			allok = false
		}
	}
	if !allok {
		return
	}
	// restart the listed members and look
	for _, hid := range importers {
		h := c.host(hid)
		h.joined = false
		if err := c.startHost(h); err != nil {
			panic(fmt.Sprintf("start after import: %v", err))
		}
		c.cfgOf = func(replica uint64) config.Config {
			return config.Config{ReplicaID: replica, ShardID: c.shard, ElectionRTT: 10, HeartbeatRTT: 2, CheckQuorum: true}
		}
		if err := c.startReplica(h, nil, false); err != nil {
			panic(fmt.Sprintf("start replica after import: %v", err))
		}
	}
	leader := r.waitLeader(20 * time.Second)
	for _, hid := range importers {
		nh := r.nhOf(hid)
		ev := nhEv{"h": hid, "leader": leader, "read": false}
		for try := 0; try < 40; try++ {
			ctx, cancel := context.WithTimeout(context.Background(), time.Second)
			m, err := nh.SyncGetShardMembership(ctx, c.shard)
			var a interface{}
			var err2 error
			if err == nil {
				a, err2 = nh.SyncRead(ctx, c.shard, nhQuery{Op: "dump"})
			}
			cancel()
			if err == nil && err2 == nil {
				ev["read"] = true
				ev["members"] = nhPairs(m.Nodes)
				ev["nonvotings"] = nhPairs(m.NonVotings)
				ev["witnesses"] = nhPairs(m.Witnesses)
				ev["removed"] = nhIDs(m.Removed)
				ev["state_equal"] = a.(nhAnswer).Dump == dump
				break
			}
			time.Sleep(10 * time.Millisecond)
		}
		rec.emit("PostImport", ev)
	}
	// a replacement replica is added before anything new is written (what an operator does first after a
	// repair): it is brought up to date from the imported state - by a snapshot, the log starts there - and
	// must hold the exported state as well
	if leader {
		spare := 0
		for i := 8; i >= 5; i-- {
			if _, ok := list[uint64(i)]; !ok {
				spare = i
				break
			}
		}
		if _, wasMember := oldm.Nodes[uint64(spare)]; spare != 0 && !wasMember {
			added := false
			for try := 0; try < 20 && !added; try++ {
				for _, hid := range importers {
					ctx, cancel := context.WithTimeout(context.Background(), time.Second)
					err := r.nhOf(hid).SyncRequestAddReplica(ctx, c.shard, uint64(spare), addr(spare), 0)
					cancel()
					if err == nil {
						added = true
						break
					}
				}
			}
			ev := nhEv{"h": spare, "added": added, "read": false, "state_equal": false}
			if added {
				hs := c.host(spare)
				if err := c.startHost(hs); err != nil {
					panic(fmt.Sprintf("start spare host: %v", err))
				}
				if err := c.startReplica(hs, nil, true); err != nil {
					panic(fmt.Sprintf("start joining replica: %v", err))
				}
				hs.joined = true
				for try := 0; try < 100; try++ {
					ctx, cancel := context.WithTimeout(context.Background(), time.Second)
					a, err := r.nhOf(spare).SyncRead(ctx, c.shard, nhQuery{Op: "dump"})
					cancel()
					if err == nil {
						ev["read"] = true
						ev["state_equal"] = a.(nhAnswer).Dump == dump
						break
					}
					time.Sleep(20 * time.Millisecond)
				}
			}
			rec.emit("PostImportJoin", ev)
		}
	}
	okp := propose(1, 9000)
	seen := false
	if okp {
		nh := r.nhOf(importers[len(importers)-1])
		ctx, cancel := context.WithTimeout(context.Background(), time.Second)
		a, err := nh.SyncRead(ctx, c.shard, nhQuery{Op: "has", ID: 9000})
		cancel()
		seen = err == nil && a.(nhAnswer).Has
	}
	rec.emit("PostImportProposal", nhEv{"accepted": okp, "visible": seen, "leader": leader})
}
