//go:build verif

// nhsim driver: seeded client programs and seeded fault schedules against an in-process
// cluster of real NodeHosts (see nhsim_core_test.go). One run writes one ndjson event stream
// that several trace specifications read (ClientHistoryTrace, PipelineTrace, SMContractTrace).
package dragonboat

import (
	"context"
	"encoding/json"
	"fmt"
	"math/rand"
	"os"
	"sort"
	"strconv"
	"sync"
	"sync/atomic"
	"testing"
	"time"

	"github.com/cockroachdb/errors"

	"github.com/lni/dragonboat/v4/client"
	"github.com/lni/dragonboat/v4/config"
	"github.com/lni/dragonboat/v4/raftio"
	pb "github.com/lni/dragonboat/v4/raftpb"
)

func nhEnvInt(k string, d int) int {
	if v := os.Getenv(k); v != "" {
		n, err := strconv.Atoi(v)
		if err == nil {
			return n
		}
	}
	return d
}

type nhParams struct {
	hosts       int
	attack      string
	nonvoting   int // the last nonvoting hosts join as non-voting replicas
	checkQuorum bool
	preVote     bool
	clients     int
	durMs       int
	smType      string
	store       string
	faults      bool
	crashes     bool
	fsopCrash   bool // crash at the N-th file system operation instead of "now"
	finalCrash  bool // crash all hosts at the end and check that completed writes survived
	snapshots   bool
	sessions    bool
	closeRace   bool // epilogue: request APIs racing NodeHost.Close
	stopStart   bool // StopShard / restart replica / close NodeHost while requests are in flight
	maxZombies  int
	thinkUs     int
	opTimeout   time.Duration
}

type nhRun struct {
	t    *testing.T
	c    *nhCluster
	p    nhParams
	opid int64
	stop int32
	hmu  []sync.RWMutex // per host: protects h.nh against restart
	done map[int]bool   // completed write ids
	dmu  sync.Mutex
}

// bootEvent records what the log store of h holds for the replica, before the replica starts.
func (r *nhRun) bootEvent(h *nhHost) {
	c := r.c
	ldb := h.nh.mu.logdb
	ev := nhEv{"h": h.id, "replica": h.id, "term": 0, "vote": 0, "commit": 0, "ssindex": 0,
		"ssterm": 0, "first": 0, "terms": []uint64{}, "saved": false}
	ss, err := ldb.GetSnapshot(c.shard, uint64(h.id))
	if err != nil {
		panic(err)
	}
	ev["ssindex"] = ss.Index
	ev["ssterm"] = ss.Term
	rs, err := ldb.ReadRaftState(c.shard, uint64(h.id), ss.Index)
	if err == nil {
		ev["saved"] = true
		ev["term"] = rs.State.Term
		ev["vote"] = rs.State.Vote
		ev["commit"] = rs.State.Commit
		ev["first"] = rs.FirstIndex
		terms := make([]uint64, 0)
		if rs.EntryCount > 0 {
			ents, _, err := ldb.IterateEntries(nil, 0, c.shard, uint64(h.id), rs.FirstIndex,
				rs.FirstIndex+rs.EntryCount, 1<<40)
			if err != nil {
				panic(err)
			}
			for i, e := range ents {
				if e.Index != rs.FirstIndex+uint64(i) {
					panic("hole in recovered log")
				}
				terms = append(terms, e.Term)
			}
		}
		ev["terms"] = terms
	} else if !errors.Is(err, raftio.ErrNoSavedLog) {
		panic(err)
	}
	c.rec.emit("Boot", ev)
}

func (r *nhRun) startHostAndReplica(h *nhHost, first bool) error {
	c := r.c
	if err := c.startHost(h); err != nil {
		return err
	}
	r.bootEvent(h)
	var members map[uint64]string
	if first {
		members = c.members
	}
	return c.startReplica(h, members, h.joined)
}

func (r *nhRun) nhOf(i int) *NodeHost {
	r.hmu[i-1].RLock()
	defer r.hmu[i-1].RUnlock()
	h := r.c.host(i)
	if !h.alive {
		return nil
	}
	return h.nh
}

// res emits the response of a client call. A response obtained from a host after its crash
// instant never reached the client (the process was dead): it is recorded as unknown.
func (r *nhRun) res(cid int, id int64, hid int, inc int, outcome string, val string) string {
	c := r.c
	c.net.mu.Lock()
	h := c.host(hid)
	if inc != -2 && (c.net.dead[h.addr] || h.inc != inc) {
		outcome = "lost"
		val = ""
	}
	c.rec.emit("Res", nhEv{"c": cid, "id": id, "out": outcome, "val": val})
	c.net.mu.Unlock()
	return outcome
}

// nhOutcome classifies the synchronous error of Propose / ReadIndex / SyncGetSession: the
// request was not accepted, it never takes effect.
func nhOutcome(err error) string {
	if err == nil {
		return "ok"
	}
	return "refused"
}

// nhCode classifies the terminal notification of an accepted request. Completed is the only
// one that says it took effect; Rejected says it was applied as a no-op (unknown session);
// Timeout / Terminated / Dropped / Aborted leave the outcome open (C01: never, or once).
func nhCode(rr RequestResult) string {
	switch {
	case rr.Completed():
		return "ok"
	case rr.Rejected():
		return "rejected"
	case rr.Timeout():
		return "timeout"
	case rr.Terminated():
		return "terminated"
	case rr.Dropped():
		return "dropped"
	case rr.Aborted():
		return "aborted"
	}
	return "unknown"
}

// held runs f while the NodeHost of host hid cannot be closed by the fault goroutine (NodeHost.Close
// concurrent with another API call is outside the API's contract: propose() reads nh.engine after
// its closed check). Only the call is covered, never the wait for a result. false: host is down.
func (r *nhRun) held(nh *NodeHost, f func()) bool {
	for i, h := range r.c.hosts {
		r.hmu[i].RLock()
		if h.alive && h.nh == nh {
			f()
			r.hmu[i].RUnlock()
			return true
		}
		r.hmu[i].RUnlock()
	}
	return false
}

func (r *nhRun) propose(nh *NodeHost, s *client.Session, cmd []byte) (string, string) {
	var rs *RequestState
	var err error
	if !r.held(nh, func() { rs, err = nh.Propose(s, cmd, r.p.opTimeout) }) {
		return "refused", ""
	}
	if err != nil {
		return "refused", ""
	}
	defer rs.Release()
	select {
	case rr := <-rs.ResultC():
		code := nhCode(rr)
		if code == "ok" {
			return code, string(rr.GetResult().Data)
		}
		return code, ""
	case <-time.After(r.p.opTimeout + 5*time.Second):
		r.hung(nh, "propose")
		return "timeout", ""
	}
}

// hung records a request handle that produced no result five seconds after its deadline although
// its NodeHost is still running (a closed or crashed NodeHost terminates its requests itself).
func (r *nhRun) hung(nh *NodeHost, kind string) {
	for i, h := range r.c.hosts {
		r.hmu[i].RLock()
		same := h.alive && h.nh == nh
		r.hmu[i].RUnlock()
		if same {
			r.c.rec.emit("Hung", nhEv{"h": h.id, "kind": kind, "timeoutms": r.p.opTimeout.Milliseconds()})
		}
	}
}

func (r *nhRun) client(cid int, seed int64, wg *sync.WaitGroup) {
	defer wg.Done()
	c := r.c
	rng := rand.New(rand.NewSource(seed))
	keys := []string{"a", "b", "c"}
	var sess *client.Session
	var pendingCmd []byte // a timed out session proposal that may be retried
	var pendingID int64
	var pendingKey, pendingVal string
	for atomic.LoadInt32(&r.stop) == 0 {
		if rng.Intn(2) == 0 {
			time.Sleep(time.Duration(500+rng.Intn(r.p.thinkUs)) * time.Microsecond)
		}
		hid := 1 + rng.Intn(len(c.hosts))
		nh := r.nhOf(hid)
		if nh == nil {
			time.Sleep(time.Millisecond)
			continue
		}
		inc := c.host(hid).inc
		k := keys[rng.Intn(len(keys))]
		x := rng.Intn(100)
		write := x < 45
		switch {
		case write && r.p.sessions && cid%2 == 0:
			// registered session: a timed out proposal is retried with the same series id,
			// possibly through another host; it is the same operation
			if sess == nil {
				ctx, cancel := context.WithTimeout(context.Background(), r.p.opTimeout)
				var s *client.Session
				err := ErrClosed
				r.held(nh, func() { s, err = nh.SyncGetSession(ctx, c.shard) })
				cancel()
				if err != nil {
					continue
				}
				sess = s
			}
			var id int64
			var cmd []byte
			var v string
			if pendingCmd != nil {
				id, cmd, k, v = pendingID, pendingCmd, pendingKey, pendingVal
				c.rec.emit("Retry", nhEv{"c": cid, "id": id, "h": hid, "cid": sess.ClientID % 100000, "series": sess.SeriesID, "resp": sess.RespondedTo})
			} else {
				id = atomic.AddInt64(&r.opid, 1)
				v = fmt.Sprintf("v%d", id)
				cmd, _ = json.Marshal(nhCmd{Op: "w", K: k, V: v, ID: int(id)})
				c.rec.emit("Inv", nhEv{"c": cid, "id": id, "op": "w", "k": k, "v": v, "h": hid, "sess": true, "cid": sess.ClientID % 100000, "series": sess.SeriesID, "resp": sess.RespondedTo})
			}
			out, prev := r.propose(nh, sess, cmd)
			switch out {
			case "ok":
				sess.ProposalCompleted()
				pendingCmd = nil
				if r.res(cid, id, hid, inc, "ok", prev) == "ok" {
					r.completed(id)
				}
			case "refused":
				if pendingCmd == nil {
					// first attempt, never accepted: no effect
					r.res(cid, id, hid, -2, "refused", "")
				}
			case "timeout", "dropped":
				pendingCmd, pendingID, pendingKey, pendingVal = cmd, id, k, v
				if rng.Intn(4) == 0 {
					// give up on this operation and on the session
					r.res(cid, id, hid, inc, out, "")
					pendingCmd = nil
					sess = nil
				}
			default:
				// rejected (session gone: the attempt was a no-op, but an earlier attempt of
				// the same operation may have been applied), terminated, aborted
				if out == "rejected" && pendingCmd == nil {
					r.res(cid, id, hid, -2, "rejected", "")
				} else {
					r.res(cid, id, hid, inc, "unknown", "")
				}
				pendingCmd = nil
				sess = nil
			}
		case write:
			id := atomic.AddInt64(&r.opid, 1)
			v := fmt.Sprintf("v%d", id)
			cmd, _ := json.Marshal(nhCmd{Op: "w", K: k, V: v, ID: int(id)})
			c.rec.emit("Inv", nhEv{"c": cid, "id": id, "op": "w", "k": k, "v": v, "h": hid, "sess": false})
			out, prev := r.propose(nh, nh.GetNoOPSession(c.shard), cmd)
			if out == "refused" {
				r.res(cid, id, hid, -2, "refused", "")
			} else if r.res(cid, id, hid, inc, out, prev) == "ok" {
				r.completed(id)
			}
		case x < 75:
			id := atomic.AddInt64(&r.opid, 1)
			c.rec.emit("Inv", nhEv{"c": cid, "id": id, "op": "r", "k": k, "v": "", "h": hid, "sess": false})
			ctx, cancel := context.WithTimeout(context.Background(), r.p.opTimeout)
			var a interface{}
			err := ErrClosed
			r.held(nh, func() { a, err = nh.SyncRead(ctx, c.shard, nhQuery{Op: "r", K: k}) })
			cancel()
			val := ""
			out := "unknown"
			if err == nil {
				val = a.(nhAnswer).V
				out = "ok"
			}
			r.res(cid, id, hid, inc, out, val)
		default:
			id := atomic.AddInt64(&r.opid, 1)
			c.rec.emit("Inv", nhEv{"c": cid, "id": id, "op": "r", "k": k, "v": "", "h": hid, "sess": false})
			var rs *RequestState
			err := ErrClosed
			r.held(nh, func() { rs, err = nh.ReadIndex(c.shard, r.p.opTimeout) })
			if err != nil {
				r.res(cid, id, hid, inc, "unknown", "")
				continue
			}
			out := "unknown"
			val := ""
			select {
			case rr := <-rs.ResultC():
				if rr.Completed() {
					if rng.Intn(3) == 0 {
						time.Sleep(time.Duration(rng.Intn(3000)) * time.Microsecond)
					}
					var a interface{}
					err := ErrClosed
					r.held(nh, func() { a, err = nh.ReadLocalNode(rs, nhQuery{Op: "r", K: k}) })
					if err == nil {
						val = a.(nhAnswer).V
						out = "ok"
					}
				}
			case <-time.After(r.p.opTimeout + 5*time.Second):
				r.hung(nh, "readindex")
			}
			rs.Release()
			r.res(cid, id, hid, inc, out, val)
		}
	}
	if pendingCmd != nil {
		r.res(cid, pendingID, 1, -1, "timeout", "")
	}
}

func (r *nhRun) completed(id int64) {
	r.dmu.Lock()
	r.done[int(id)] = true
	r.dmu.Unlock()
}

func (r *nhRun) leaderHost() int {
	for i := range r.c.hosts {
		nh := r.nhOf(i + 1)
		if nh == nil {
			continue
		}
		lid, _, ok, err := nh.GetLeaderID(r.c.shard)
		if err == nil && ok && lid >= 1 && int(lid) <= len(r.c.hosts) {
			return int(lid)
		}
	}
	return 0
}

func (r *nhRun) waitLeader(d time.Duration) bool {
	end := time.Now().Add(d)
	for time.Now().Before(end) {
		if l := r.leaderHost(); l != 0 && r.nhOf(l) != nil {
			return true
		}
		time.Sleep(2 * time.Millisecond)
	}
	return false
}

func (r *nhRun) crash(hid int, fsop bool, rng *rand.Rand) {
	c := r.c
	h := c.host(hid)
	if !h.alive {
		return
	}
	if fsop {
		// crash at a file system operation of the near future
		cur := atomic.LoadInt64(&h.inj.count)
		atomic.StoreInt32(&h.inj.fired, 0)
		atomic.StoreInt64(&h.inj.at, cur+1+int64(rng.Intn(60)))
		end := time.Now().Add(300 * time.Millisecond)
		for time.Now().Before(end) && atomic.LoadInt32(&h.inj.fired) == 0 {
			time.Sleep(time.Millisecond)
		}
		atomic.StoreInt64(&h.inj.at, 0)
	}
	c.crashNow(h, "now")
	r.hmu[hid-1].Lock()
	c.reap(h)
	r.hmu[hid-1].Unlock()
}

// stopGracefully closes the NodeHost of a host without losing anything (clean shutdown).
func (r *nhRun) stopGracefully(hid int) {
	c := r.c
	h := c.host(hid)
	if !h.alive {
		return
	}
	r.hmu[hid-1].Lock()
	defer r.hmu[hid-1].Unlock()
	h.nh.Close()
	h.nh = nil
	h.alive = false
	c.net.mu.Lock()
	c.net.dead[h.addr] = true
	c.rec.emit("Crash", nhEv{"h": h.id, "why": "graceful"})
	c.net.mu.Unlock()
}

// flap: a host is cut off (it keeps campaigning: term and vote change, the commit index does
// not) and is restarted several times, by power loss or cleanly, before the network heals.
func (r *nhRun) flap(hid int, rng *rand.Rand) {
	c := r.c
	n := len(c.hosts)
	c.net.mu.Lock()
	for b := 1; b <= n; b++ {
		if b != hid {
			c.net.cut[[2]string{c.host(hid).addr, c.host(b).addr}] = true
			c.net.cut[[2]string{c.host(b).addr, c.host(hid).addr}] = true
		}
	}
	c.net.mu.Unlock()
	c.rec.emit("Fault", nhEv{"what": "flap", "h": hid})
	for k := 2 + rng.Intn(3); k > 0 && atomic.LoadInt32(&r.stop) == 0; k-- {
		time.Sleep(time.Duration(80+rng.Intn(150)) * time.Millisecond)
		if rng.Intn(2) == 0 {
			r.crash(hid, false, rng)
		} else {
			r.stopGracefully(hid)
		}
		r.restart(hid)
	}
}

func (r *nhRun) restart(hid int) {
	h := r.c.host(hid)
	if h.alive {
		return
	}
	r.hmu[hid-1].Lock()
	defer r.hmu[hid-1].Unlock()
	if err := r.startHostAndReplica(h, false); err != nil {
		plog.Panicf("restart of host %d failed: %v", hid, err)
	}
}

func (r *nhRun) faults(seed int64, wg *sync.WaitGroup) {
	defer wg.Done()
	c := r.c
	rng := rand.New(rand.NewSource(seed))
	n := len(c.hosts)
	down := map[int]bool{}
	for atomic.LoadInt32(&r.stop) == 0 {
		time.Sleep(time.Duration(20+rng.Intn(120)) * time.Millisecond)
		if atomic.LoadInt32(&r.stop) != 0 {
			break
		}
		x := rng.Intn(100)
		if r.p.attack == "minority" && rng.Intn(2) == 0 {
			x = 79
			if rng.Intn(3) == 0 {
				x = 34
			}
		}
		switch {
		case x < 10: // symmetric partition of one host
			a := 1 + rng.Intn(n)
			c.net.mu.Lock()
			for b := 1; b <= n; b++ {
				if b != a {
					c.net.cut[[2]string{c.host(a).addr, c.host(b).addr}] = true
					c.net.cut[[2]string{c.host(b).addr, c.host(a).addr}] = true
				}
			}
			c.net.mu.Unlock()
			c.rec.emit("Fault", nhEv{"what": "isolate", "h": a})
		case x < 19: // asymmetric: one directed link
			a, b := 1+rng.Intn(n), 1+rng.Intn(n)
			if a != b {
				c.net.mu.Lock()
				c.net.cut[[2]string{c.host(a).addr, c.host(b).addr}] = true
				c.net.mu.Unlock()
				c.rec.emit("Fault", nhEv{"what": "cut", "h": a, "dst": b})
			}
		case x < 35: // heal
			c.net.mu.Lock()
			c.net.cut = map[[2]string]bool{}
			c.net.loss = 0
			c.net.delayUs = 0
			c.net.mu.Unlock()
			c.rec.emit("Fault", nhEv{"what": "heal"})
		case x < 40:
			c.net.mu.Lock()
			c.net.loss = 50 + rng.Intn(300)
			c.net.mu.Unlock()
			c.rec.emit("Fault", nhEv{"what": "loss"})
		case x < 45:
			c.net.mu.Lock()
			c.net.delayUs = 500 + rng.Intn(8000)
			c.net.mu.Unlock()
			c.rec.emit("Fault", nhEv{"what": "delay"})
		case x < 53: // leader transfer
			if l := r.leaderHost(); l != 0 {
				if nh := r.nhOf(l); nh != nil {
					tgt := 1 + rng.Intn(n)
					_ = nh.RequestLeaderTransfer(c.shard, uint64(tgt))
					c.rec.emit("Fault", nhEv{"what": "transfer", "h": l, "dst": tgt})
				}
			}
		case x < 66 && r.p.crashes:
			if len(down) < (n-1)/2+1 {
				a := 1 + rng.Intn(n)
				if rng.Intn(2) == 0 {
					if l := r.leaderHost(); l != 0 {
						a = l
					}
				}
				if !down[a] {
					r.crash(a, r.p.fsopCrash && rng.Intn(3) != 0, rng)
					down[a] = true
				}
			}
		case x < 80 && len(down) == 0:
			// the leader and one companion (a non-voting replica when there is one) are cut
			// off from the rest, which elects a new leader and keeps committing
			if l := r.leaderHost(); l != 0 {
				comp := n
				if r.p.nonvoting == 0 {
					comp = 1 + rng.Intn(n)
				}
				side := map[int]bool{l: true, comp: true}
				c.net.mu.Lock()
				for a := 1; a <= n; a++ {
					for b := 1; b <= n; b++ {
						if side[a] != side[b] {
							c.net.cut[[2]string{c.host(a).addr, c.host(b).addr}] = true
						}
					}
				}
				c.net.mu.Unlock()
				c.rec.emit("Fault", nhEv{"what": "minority", "h": l, "dst": comp})
				time.Sleep(time.Duration(150+rng.Intn(250)) * time.Millisecond)
			}
		case x < 84 && r.p.crashes:
			if len(down) == 0 {
				r.flap(1+rng.Intn(n), rng)
			}
		case x < 93:
			for a := range down {
				r.restart(a)
				delete(down, a)
				break
			}
		default:
			if r.p.snapshots && r.p.crashes && rng.Intn(3) != 0 && len(down) == 0 {
				// a cut-off host (nothing new reaches it: its saved log keeps a tail above what it
				// applied or is about to snapshot) takes a local snapshot and then restarts, cleanly or
				// by power loss, before anything else is appended; often the leader, whose log then
				// grows by the proposals it accepts while cut off
				a := 1 + rng.Intn(n)
				if l := r.leaderHost(); l != 0 && rng.Intn(2) == 0 {
					a = l
				}
				if nh := r.nhOf(a); nh != nil {
					// the host applies slowly for a moment first, so that its log is ahead of its
					// applied index (= the snapshot index) also when it is a follower
					atomic.StoreInt32(&c.host(a).lagUs, int32(1000+rng.Intn(3000)))
					time.Sleep(time.Duration(15+rng.Intn(30)) * time.Millisecond)
					c.net.mu.Lock()
					for b := 1; b <= n; b++ {
						if b != a {
							c.net.cut[[2]string{c.host(a).addr, c.host(b).addr}] = true
							c.net.cut[[2]string{c.host(b).addr, c.host(a).addr}] = true
						}
					}
					c.net.mu.Unlock()
					c.rec.emit("Fault", nhEv{"what": "snapcrash", "h": a})
					time.Sleep(time.Duration(2+rng.Intn(25)) * time.Millisecond)
					func() {
						defer func() { _ = recover() }()
						ctx, cancel := context.WithTimeout(context.Background(), 400*time.Millisecond)
						_, _ = nh.SyncRequestSnapshot(ctx, c.shard, SnapshotOption{OverrideCompactionOverhead: true,
							CompactionOverhead: uint64(rng.Intn(3))})
						cancel()
					}()
					if rng.Intn(2) == 0 {
						r.crash(a, false, rng)
					} else {
						r.stopGracefully(a)
					}
					atomic.StoreInt32(&c.host(a).lagUs, 0)
					r.restart(a)
					c.net.mu.Lock()
					c.net.cut = map[[2]string]bool{}
					c.net.mu.Unlock()
				}
			} else if r.p.snapshots {
				a := 1 + rng.Intn(n)
				if nh := r.nhOf(a); nh != nil {
					_, _ = nh.RequestSnapshot(c.shard, SnapshotOption{OverrideCompactionOverhead: true,
						CompactionOverhead: uint64(rng.Intn(4))}, 500*time.Millisecond)
					c.rec.emit("Fault", nhEv{"what": "snapshot", "h": a})
				}
			}
		}
	}
	// heal and bring everything back
	c.net.mu.Lock()
	c.net.cut = map[[2]string]bool{}
	c.net.loss = 0
	c.net.delayUs = 0
	c.net.mu.Unlock()
	for a := range down {
		r.restart(a)
	}
}

// finalCheck: every write that was reported Completed must be visible to a linearizable read,
// also after all replicas crashed at the same instant and were restarted.
func (r *nhRun) finalCheck(crashAll bool) {
	c := r.c
	if crashAll {
		c.net.mu.Lock()
		for _, h := range c.hosts {
			if h.alive && !c.net.dead[h.addr] {
				h.mem.SetIgnoreSyncs(true)
				c.net.dead[h.addr] = true
				c.rec.emit("Crash", nhEv{"h": h.id, "why": "all"})
			}
		}
		c.net.mu.Unlock()
		for _, h := range c.hosts {
			r.hmu[h.id-1].Lock()
			c.reap(h)
			r.hmu[h.id-1].Unlock()
		}
		for _, h := range c.hosts {
			r.restart(h.id)
		}
	}
	if !r.waitLeader(5 * time.Second) {
		c.rec.emit("Final", nhEv{"ok": false, "why": "no leader", "missing": []int{}, "checked": 0})
		return
	}
	r.dmu.Lock()
	ids := make([]int, 0, len(r.done))
	for id := range r.done {
		ids = append(ids, id)
	}
	r.dmu.Unlock()
	missing := []int{}
	checked := 0
	for _, id := range ids {
		var a interface{}
		var err error
		for try := 0; try < 20; try++ {
			nh := r.nhOf(1 + (id+try)%len(c.hosts))
			if nh == nil {
				continue
			}
			ctx, cancel := context.WithTimeout(context.Background(), time.Second)
			a, err = nh.SyncRead(ctx, c.shard, nhQuery{Op: "has", ID: id})
			cancel()
			if err == nil {
				break
			}
		}
		if err != nil {
			c.rec.emit("Final", nhEv{"ok": false, "why": "read failed: " + nhErrName(err), "missing": missing, "checked": checked})
			return
		}
		checked++
		if !a.(nhAnswer).Has {
			missing = append(missing, id)
		}
	}
	c.rec.emit("Final", nhEv{"ok": true, "why": "", "missing": missing, "checked": checked, "crashall": crashAll})
}

func nhScenario(t *testing.T, rec *nhRec, tid int, seed int64, p nhParams) {
	rec.t = tid
	c := newNhCluster(rec, p.hosts, p.smType, p.store, seed)
	r := &nhRun{t: t, c: c, p: p, hmu: make([]sync.RWMutex, p.hosts), done: map[int]bool{}}
	voters := p.hosts - p.nonvoting
	rec.emit("Init", nhEv{"hosts": p.hosts, "sm": p.smType, "store": p.store, "seed": seed, "voters": voters})
	for _, h := range c.hosts[:voters] {
		c.members[uint64(h.id)] = h.addr
	}
	cq, pv := p.checkQuorum, p.preVote
	c.cfgOf = func(replica uint64) config.Config {
		return config.Config{ReplicaID: replica, ShardID: c.shard, ElectionRTT: 10, HeartbeatRTT: 2,
			CheckQuorum: cq, PreVote: pv, SnapshotEntries: 0, CompactionOverhead: 5,
			IsNonVoting: int(replica) > voters}
	}
	for _, h := range c.hosts[:voters] {
		if err := r.startHostAndReplica(h, true); err != nil {
			t.Fatalf("start: %v", err)
		}
	}
	defer func() {
		c.closeAll()
		nhTakePanics()
	}()
	if !r.waitLeader(5 * time.Second) {
		rec.emit("Final", nhEv{"ok": false, "why": "no first leader", "missing": []int{}, "checked": 0})
		return
	}
	for _, h := range c.hosts[voters:] {
		// admitted through a membership change, then started with join = true
		ok := false
		for try := 0; try < 50 && !ok; try++ {
			if l := r.leaderHost(); l != 0 {
				ctx, cancel := context.WithTimeout(context.Background(), time.Second)
				err := r.nhOf(l).SyncRequestAddNonVoting(ctx, c.shard, uint64(h.id), h.addr, 0)
				cancel()
				ok = err == nil
			}
			if !ok {
				time.Sleep(10 * time.Millisecond)
			}
		}
		if !ok {
			rec.emit("Final", nhEv{"ok": false, "why": "could not add non-voting", "missing": []int{}, "checked": 0})
			return
		}
		if err := c.startHost(h); err != nil {
			t.Fatalf("start: %v", err)
		}
		r.bootEvent(h)
		if err := c.startReplica(h, nil, true); err != nil {
			t.Fatalf("start join: %v", err)
		}
		h.joined = true
	}
	var wg sync.WaitGroup
	for i := 1; i <= p.clients; i++ {
		wg.Add(1)
		go r.client(i, seed*131+int64(i), &wg)
	}
	if p.faults {
		wg.Add(1)
		go r.faults(seed*977+5, &wg)
	}
	time.Sleep(time.Duration(p.durMs) * time.Millisecond)
	atomic.StoreInt32(&r.stop, 1)
	wg.Wait()
	r.finalCheck(false)
	if p.finalCrash {
		r.finalCheck(true)
	}
	if p.closeRace {
		r.closeRace(seed)
	}
}

// closeRace (C12, "NodeHost close" interleavings): client goroutines keep calling the request APIs
// of one NodeHost while it is closed. Every call must return (an error or a handle), no call may
// panic, and every handle must deliver its result; nothing here depends on timing except the
// generous five seconds after which a handle counts as hanging.
func (r *nhRun) closeRace(seed int64) {
	c := r.c
	for _, h := range c.hosts {
		r.hmu[h.id-1].RLock()
		nh, alive := h.nh, h.alive
		r.hmu[h.id-1].RUnlock()
		if !alive {
			continue
		}
		var stop int32
		var wg sync.WaitGroup
		var mu sync.Mutex
		panics := map[string]bool{}
		accepted, results, hung, calls := 0, 0, 0, 0
		for g := 0; g < 6; g++ {
			wg.Add(1)
			go func(g int) {
				defer wg.Done()
				rng := rand.New(rand.NewSource(seed*53 + int64(g)))
				for atomic.LoadInt32(&stop) == 0 {
					var rs *RequestState
					var err error
					func() {
						defer func() {
							if x := recover(); x != nil {
								mu.Lock()
								panics[fmt.Sprint(x)] = true
								mu.Unlock()
								err = ErrClosed
							}
						}()
						switch rng.Intn(3) {
						case 0:
							cmd, _ := json.Marshal(nhCmd{Op: "w", K: "z", V: "closerace", ID: 0})
							rs, err = nh.Propose(nh.GetNoOPSession(c.shard), cmd, 200*time.Millisecond)
						case 1:
							rs, err = nh.ReadIndex(c.shard, 200*time.Millisecond)
						default:
							_, err = nh.StaleRead(c.shard, nhQuery{Op: "r", K: "a"})
							if err == nil {
								err = ErrClosed // nothing to wait for
							}
						}
					}()
					mu.Lock()
					calls++
					mu.Unlock()
					if err != nil || rs == nil {
						continue
					}
					got := false
					select {
					case <-rs.ResultC():
						got = true
					case <-time.After(5200 * time.Millisecond):
					}
					mu.Lock()
					accepted++
					if got {
						results++
					} else {
						hung++
					}
					mu.Unlock()
				}
			}(g)
		}
		time.Sleep(time.Duration(5+h.id*7) * time.Millisecond)
		r.hmu[h.id-1].Lock()
		h.nh.Close()
		h.nh = nil
		h.alive = false
		r.hmu[h.id-1].Unlock()
		c.net.mu.Lock()
		c.net.dead[h.addr] = true
		c.net.mu.Unlock()
		time.Sleep(5 * time.Millisecond)
		atomic.StoreInt32(&stop, 1)
		wg.Wait()
		msgs := []string{}
		for m := range panics {
			msgs = append(msgs, m)
		}
		sort.Strings(msgs)
		c.rec.emit("CloseRace", nhEv{"h": h.id, "calls": calls, "accepted": accepted, "results": results, "hung": hung, "panics": msgs})
	}
}

func TestVerifNhsim(t *testing.T) {
	out := os.Getenv("VERIF_OUT")
	if out == "" {
		t.Skip("VERIF_OUT not set")
	}
	nhInstallLogger()
	seed := int64(nhEnvInt("VERIF_SEED", 1))
	traces := nhEnvInt("VERIF_TRACES", 4)
	first := nhEnvInt("VERIF_FIRST", 0)
	mode := os.Getenv("VERIF_MODE")
	rec := newNhRec(out)
	nhCurRec = rec
	defer rec.close()
	switch mode {
	case "hist":
		rec.keep = func(ev string) bool {
			return ev != "Send" && ev != "Save" && ev != "Enter" && ev != "Exit" && ev != "Boot" && ev != "SMNew" && ev != "Apply"
		}
	case "pipe":
		rec.keep = func(ev string) bool { return ev != "Enter" && ev != "Exit" && ev != "SMNew" }
	case "member":
		rec.keep = func(ev string) bool {
			return ev == "Init" || ev == "CC" || ev == "Members" || ev == "Panic" || ev == "EmptyImage"
		}
	case "hang":
		rec.keep = func(ev string) bool {
			return ev == "Init" || ev == "Hung" || ev == "Panic" || ev == "Res" || ev == "Crash" || ev == "Fault" || ev == "CloseRace"
		}
	case "quiesce":
		rec.keep = func(ev string) bool {
			return ev == "Init" || ev == "Req" || ev == "Served" || ev == "Phase" || ev == "Fault" || ev == "Crash" || ev == "Panic"
		}
	case "staleview":
		rec.keep = func(ev string) bool {
			return ev == "Init" || ev == "Leader" || ev == "Fault" || ev == "Panic" || ev == "Skipped"
		}
	case "catchup":
		rec.keep = func(ev string) bool {
			return ev == "Init" || ev == "CatchUp" || ev == "Fault" || ev == "Panic"
		}
	case "import":
		rec.keep = func(ev string) bool {
			return ev != "Send" && ev != "Save" && ev != "Enter" && ev != "Exit" && ev != "Inv" && ev != "Res" && ev != "Leader" && ev != "Boot" && ev != "Apply"
		}
	case "snap":
		rec.keep = func(ev string) bool {
			return ev != "Send" && ev != "Save" && ev != "Enter" && ev != "Exit" && ev != "Inv" && ev != "Res" && ev != "Leader" && ev != "Apply"
		}
	case "smc":
		rec.keep = func(ev string) bool { return ev != "Send" && ev != "Save" && ev != "Boot" && ev != "Apply" }
	}
	if os.Getenv("VERIF_KEEPALL") != "" {
		rec.keep = nil // debugging aid: the complete event stream
	}
	sms := []string{"regular", "concurrent", "ondisk"}
	for k := 0; k < traces; k++ {
		tid := first + k
		s := seed*1000003 + int64(tid)
		p := nhParams{hosts: 3, clients: 4, durMs: nhEnvInt("VERIF_DURMS", 1500), smType: sms[tid%3], store: "pebble",
			faults: true, crashes: true, fsopCrash: true, finalCrash: true, snapshots: true,
			sessions: true, maxZombies: 7, thinkUs: nhEnvInt("VERIF_THINKUS", 6000), opTimeout: 300 * time.Millisecond}
		if tid%4 == 3 {
			p.store = "tan"
		}
		p.checkQuorum = tid%2 == 0
		p.preVote = tid%4 >= 2
		switch tid % 5 {
		case 1:
			p.hosts, p.nonvoting, p.attack = 4, 1, "minority"
		case 3:
			p.hosts, p.attack = 5, "minority"
		}
		if mode == "pipe" && tid%6 == 5 {
			// one voting member and one non-voting member: the leader is the quorum on its own, an entry is
			// committed the moment it is appended - what the leader tells the non-voting member about the
			// commit index must not be ahead of what the leader has made durable
			p.hosts, p.nonvoting, p.attack = 2, 1, ""
		}
		if p.smType == "ondisk" {
			p.sessions = false // IOnDiskStateMachine based replicas must use the NoOP session
		}
		if os.Getenv("VERIF_STORE") != "" {
			p.store = os.Getenv("VERIF_STORE")
		}
		p.closeRace = mode == "hang"
		if mode == "hang" && tid%6 == 5 {
			nhCloseStress(rec, tid, s, 6)
			continue
		}
		if mode == "member" {
			smt := sms[(tid/2)%3]
			if v := os.Getenv("VERIF_SM"); v != "" {
				smt = v
			}
			nhScenarioMember(rec, tid, s, smt, p.store, nhEnvInt("VERIF_ROUNDS", 14))
			continue
		}
		if mode == "quiesce" {
			nhScenarioQuiesce(rec, tid, s, sms[(tid/2)%3], p.store, nhEnvInt("VERIF_ROUNDS", 4))
			continue
		}
		if mode == "staleview" {
			nhScenarioStaleView(rec, tid, s, sms[tid%3], p.store)
			continue
		}
		if mode == "catchup" {
			nhScenarioCatchUp(rec, tid, s, sms[2-tid%3], p.store)
			continue
		}
		if mode == "import" {
			nhScenarioImport(rec, tid, s, sms[(tid/2)%3], p.store)
			continue
		}
		if mode == "snap" {
			nhScenarioSnap(rec, tid, s, sms[tid%3], p.store, nhEnvInt("VERIF_ROUNDS", 8))
			continue
		}
		if mode == "smc" && tid%2 == 1 {
			nhScenarioSMC(rec, tid, s, sms[(tid/2)%3], p.store, p.durMs)
			continue
		}
		nhScenario(t, rec, tid, s, p)
	}
	fmt.Println("NHSTATS", rec.n)
}

var _ = pb.Message{}
