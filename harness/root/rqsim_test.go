//go:build verif

// rqsim: drives the real pending-request tables of a node (pendingProposal + entryQueue,
// pendingReadIndex + readIndexQueue, pendingConfigChange, pendingSnapshot,
// pendingRaftLogQuery, RequestState pooling) with seeded interleavings of their critical
// sections. Every mutex-protected method is one step, called in the role of the goroutine
// that calls it in production: client goroutines (Propose / ReadIndex / Request* / Release /
// reading the result channels), the step worker (queue get, add, addReady, applied, dropped,
// committed, tick, gc, log query get/returned), the apply worker (applied), and the stopper
// (close of each table in node.close() order, interleaved anywhere). Because the tables share
// no other lock, every such sequence is a feasible interleaving of the real goroutines.
// spec/RequestsTrace.tla recomputes every notification from spec/Requests.tla and judges
// the observed history (exactly one truthful terminal result per accepted request).
package dragonboat

import (
	"bufio"
	"encoding/json"
	"fmt"
	"math/rand"
	"os"
	"runtime"
	"strconv"
	"sync"
	"testing"
	"time"

	"github.com/lni/dragonboat/v4/client"
	"github.com/lni/dragonboat/v4/config"
	"github.com/lni/dragonboat/v4/internal/rsm"
	pb "github.com/lni/dragonboat/v4/raftpb"
	sm "github.com/lni/dragonboat/v4/statemachine"
	"github.com/lni/goutils/random"
)

type rqNote struct {
	Comm  bool   `json:"comm"`
	Code  string `json:"code"`
	Value uint64 `json:"value"`
}

type rqEv struct {
	T      int      `json:"t"`
	I      int      `json:"i"`
	Op     string   `json:"op"`
	Oid    int      `json:"oid"`
	Rid    int      `json:"rid"`
	Key    uint64   `json:"key"`
	Cid    uint64   `json:"cid"`
	Series uint64   `json:"series"`
	To     uint64   `json:"to"`
	Err    string   `json:"err"`
	Val    uint64   `json:"val"`
	Flag   bool     `json:"flag"`
	Flag2  bool     `json:"flag2"`
	N      uint64   `json:"n"`
	Ctx    uint64   `json:"ctx"`
	Keys   []uint64 `json:"keys"`
	Rids   []int    `json:"rids"`
	Notes  []rqNote `json:"notes"`
	NC     bool     `json:"nc"`
	Shards uint64   `json:"shards"`
	Rel    bool     `json:"rel"`
	Msg    string   `json:"msg,omitempty"`
}

var rqCodes = map[RequestResultCode]string{
	requestTimeout: "Timeout", requestCompleted: "Completed", requestTerminated: "Terminated",
	requestRejected: "Rejected", requestDropped: "Dropped", requestAborted: "Aborted",
	requestCommitted: "Committed", requestOutOfRange: "OutOfRange",
}

type rqEntry struct {
	key, cid, series uint64
}

type rqSim struct {
	rng    *rand.Rand
	out    *bufio.Writer
	tid    int
	step   int
	counts map[string]int
	nc     bool
	pool   *sync.Pool
	props  pendingProposal
	propQ  *entryQueue
	reads  pendingReadIndex
	readQ  *readIndexQueue
	cc     pendingConfigChange
	ccC    chan configChangeRequest
	ss     pendingSnapshot
	ssC    chan rsm.SSRequest
	lq     pendingRaftLogQuery
	tick   uint64
	// observer side
	oids          map[*RequestState]int
	objs          []*RequestState
	live          map[int]*RequestState // oid -> object with an accepted, not yet released request
	ridOf         map[int]int           // oid -> rid of the current incarnation
	nextRid       int
	entries       []rqEntry // entries the "raft log" knows about (dequeued proposals)
	held          []*RequestState
	ctxs          []uint64
	sysctx        map[uint64]pb.SystemCtx
	ccKeys        []uint64
	ssKeys        []uint64
	lqHeld        bool
	closed        map[string]bool
	committedKeys map[uint64]bool
}

func (s *rqSim) emit(ev rqEv) {
	ev.T, ev.I = s.tid, s.step
	s.step++
	if ev.Keys == nil {
		ev.Keys = []uint64{}
	}
	if ev.Rids == nil {
		ev.Rids = []int{}
	}
	if ev.Notes == nil {
		ev.Notes = []rqNote{}
	}
	b, err := json.Marshal(ev)
	if err != nil {
		panic(err)
	}
	s.out.Write(b)
	s.out.WriteByte('\n')
	s.counts[ev.Op]++
}

func (s *rqSim) oid(r *RequestState) int {
	if id, ok := s.oids[r]; ok {
		return id
	}
	id := len(s.objs) + 1
	s.oids[r] = id
	s.objs = append(s.objs, r)
	return id
}

func (s *rqSim) accept(r *RequestState) (int, int) {
	id := s.oid(r)
	s.nextRid++
	s.live[id] = r
	s.ridOf[id] = s.nextRid
	return id, s.nextRid
}

func errName(err error) string {
	switch err {
	case nil:
		return ""
	case ErrSystemBusy:
		return "busy"
	case ErrShardClosed:
		return "closed"
	default:
		return err.Error()
	}
}

func (s *rqSim) setup() {
	s.pool = &sync.Pool{}
	s.pool.New = func() interface{} {
		obj := &RequestState{}
		obj.CompletedC = make(chan RequestResult, 1)
		obj.pool = s.pool
		return obj
	}
	cfg := config.Config{ShardID: 1, ReplicaID: 1}
	s.propQ = newEntryQueue(4, 0)
	s.props = newPendingProposal(cfg, s.nc, s.pool, s.propQ)
	s.readQ = newReadIndexQueue(4)
	s.reads = newPendingReadIndex(s.pool, s.readQ)
	s.ccC = make(chan configChangeRequest, 1)
	s.cc = newPendingConfigChange(s.ccC, s.nc)
	s.ssC = make(chan rsm.SSRequest, 1)
	s.ss = newPendingSnapshot(s.ssC)
	s.lq = newPendingRaftLogQuery()
}

// the client reads whatever is on the result channels of one request object
func (s *rqSim) poll(id int) {
	r := s.objs[id-1]
	notes := []rqNote{}
	if r.committedC != nil {
		select {
		case v := <-r.committedC:
			notes = append(notes, rqNote{Comm: true, Code: rqCodes[v.code]})
		default:
		}
	}
	select {
	case v := <-r.CompletedC:
		val := v.result.Value
		if v.snapshotResult {
			val = v.result.Value
		}
		notes = append(notes, rqNote{Code: rqCodes[v.code], Value: val})
	default:
	}
	s.emit(rqEv{Op: "Poll", Oid: id, Rid: s.ridOf[id], Notes: notes})
}

func (s *rqSim) release(id int) {
	r := s.objs[id-1]
	was := r.readyToRelease.ready()
	r.Release()
	rel := was && r.pool != nil
	if rel {
		delete(s.live, id)
	}
	s.emit(rqEv{Op: "Release", Oid: id, Rid: s.ridOf[id], Rel: rel})
}

func (s *rqSim) liveIDs() []int {
	ids := []int{}
	for id := 1; id <= len(s.objs); id++ {
		if _, ok := s.live[id]; ok {
			ids = append(ids, id)
		}
	}
	return ids
}

func (s *rqSim) doTick(n uint64) {
	s.tick += n
	s.ss.tick(s.tick)
	s.props.tick(s.tick)
	s.reads.tick(s.tick)
	s.cc.tick(s.tick)
	s.emit(rqEv{Op: "Tick", N: s.tick})
}

func (s *rqSim) closeNext() bool {
	for _, w := range []string{"ri", "prop", "cc", "ss", "lq"} {
		if !s.closed[w] {
			switch w {
			case "ri":
				s.reads.close()
			case "prop":
				s.props.close()
			case "cc":
				s.cc.close()
			case "ss":
				s.ss.close()
			case "lq":
				s.lq.close()
			}
			s.closed[w] = true
			s.emit(rqEv{Op: "Close_" + w})
			return true
		}
	}
	return false
}

func (s *rqSim) stepOnce(closing bool) {
	c := s.rng.Intn(100)
	switch {
	case c < 14 && !closing: // Propose
		cid := uint64(1 + s.rng.Intn(3))
		series := uint64(1 + s.rng.Intn(3))
		to := uint64(1 + s.rng.Intn(6))
		sess := &client.Session{ShardID: 1, ClientID: cid, SeriesID: series}
		r, err := s.props.propose(sess, []byte{1}, to)
		ev := rqEv{Op: "Propose", Cid: cid, Series: series, To: to, Err: errName(err)}
		if err == nil {
			ev.Oid, ev.Rid = s.accept(r)
			ev.Key = r.key
		}
		s.emit(ev)
	case c < 22: // step worker takes the queued proposals
		ents := s.propQ.get(false)
		keys := []uint64{}
		for _, e := range ents {
			keys = append(keys, e.Key)
			s.entries = append(s.entries, rqEntry{e.Key, e.ClientID, e.SeriesID})
		}
		s.emit(rqEv{Op: "GetProposals", Keys: keys})
	case c < 36: // raft reports on an entry it knows: committed / dropped / applied
		if len(s.entries) == 0 {
			return
		}
		e := s.entries[s.rng.Intn(len(s.entries))]
		switch s.rng.Intn(6) {
		case 0:
			// raft reports an entry committed once
			if s.nc && !s.committedKeys[e.key] {
				s.committedKeys[e.key] = true
				s.props.committed(e.cid, e.series, e.key)
				s.emit(rqEv{Op: "Committed", Key: e.key, Cid: e.cid, Series: e.series})
			}
		case 1:
			s.props.dropped(e.cid, e.series, e.key)
			s.emit(rqEv{Op: "Dropped", Key: e.key, Cid: e.cid, Series: e.series})
		default:
			val := uint64(100 + s.rng.Intn(900))
			rej := s.rng.Intn(5) == 0
			s.props.applied(e.cid, e.series, e.key, sm.Result{Value: val}, rej)
			s.emit(rqEv{Op: "Applied", Key: e.key, Cid: e.cid, Series: e.series, Val: val, Flag: rej})
		}
	case c < 44:
		s.doTick(uint64(1 + s.rng.Intn(3)))
	case c < 50:
		s.props.gc()
		s.cc.gc()
		s.ss.gc()
		s.emit(rqEv{Op: "GC"})
	case c < 58 && !closing: // ReadIndex
		to := uint64(1 + s.rng.Intn(6))
		r, err := s.reads.read(to)
		ev := rqEv{Op: "Read", To: to, Err: errName(err)}
		if err == nil {
			ev.Oid, ev.Rid = s.accept(r)
		}
		s.emit(ev)
	case c < 63: // step worker pops the read requests ...
		if len(s.held) == 0 {
			reqs := s.readQ.get()
			if len(reqs) > 0 {
				// like node.handleReadIndex: the very slice returned by the queue is what is
				// handed to pendingReadIndex.add() later (no copy in between)
				s.held = reqs
				rids := []int{}
				for _, r := range s.held {
					rids = append(rids, s.ridOf[s.oid(r)])
				}
				s.emit(rqEv{Op: "RIGet", Rids: rids})
			}
		}
	case c < 68: // ... and registers them under a fresh context
		if len(s.held) > 0 {
			ctx := s.reads.nextCtx()
			s.reads.add(ctx, s.held)
			id := uint64(len(s.ctxs) + 1)
			s.ctxs = append(s.ctxs, id)
			s.sysctx[id] = ctx
			s.held = nil
			s.emit(rqEv{Op: "RIAdd", Ctx: id, N: ctx.High})
		}
	case c < 73:
		if len(s.ctxs) > 0 {
			id := s.ctxs[s.rng.Intn(len(s.ctxs))]
			idx := uint64(1 + s.rng.Intn(5))
			s.reads.addReady([]pb.ReadyToRead{{Index: idx, SystemCtx: s.sysctx[id]}})
			s.emit(rqEv{Op: "RIReady", Ctx: id, N: idx})
		}
	case c < 79:
		idx := uint64(s.rng.Intn(6))
		s.reads.applied(idx)
		s.emit(rqEv{Op: "RIApplied", N: idx})
	case c < 81:
		if len(s.ctxs) > 0 {
			id := s.ctxs[s.rng.Intn(len(s.ctxs))]
			s.reads.dropped(s.sysctx[id])
			s.emit(rqEv{Op: "RIDropped", Ctx: id})
		}
	case c < 84 && !closing: // membership change request
		to := uint64(1 + s.rng.Intn(6))
		r, err := s.cc.request(pb.ConfigChange{Type: pb.AddNode, ReplicaID: 9, Address: "a9"}, to)
		ev := rqEv{Op: "CCRequest", To: to, Err: errName(err)}
		if err == nil {
			ev.Oid, ev.Rid = s.accept(r)
			ev.Key = r.key
		}
		s.emit(ev)
	case c < 87:
		select {
		case req, ok := <-s.ccC:
			if ok {
				s.ccKeys = append(s.ccKeys, req.key)
				s.emit(rqEv{Op: "CCTake", Key: req.key})
			}
		default:
		}
	case c < 90:
		if len(s.ccKeys) > 0 {
			k := s.ccKeys[s.rng.Intn(len(s.ccKeys))]
			switch s.rng.Intn(4) {
			case 0:
				if s.nc && !s.committedKeys[k] {
					s.committedKeys[k] = true
					s.cc.committed(k)
					s.emit(rqEv{Op: "CCCommitted", Key: k})
				}
			case 1:
				s.cc.dropped(k)
				s.emit(rqEv{Op: "CCDropped", Key: k})
			default:
				rej := s.rng.Intn(3) == 0
				s.cc.apply(k, rej)
				s.emit(rqEv{Op: "CCApply", Key: k, Flag: rej})
			}
		}
	case c < 92 && !closing: // snapshot request
		to := uint64(1 + s.rng.Intn(6))
		r, err := s.ss.request(rsm.UserRequested, "", false, 0, 0, to)
		ev := rqEv{Op: "SSRequest", To: to, Err: errName(err)}
		if err == nil {
			ev.Oid, ev.Rid = s.accept(r)
			ev.Key = r.key
		}
		s.emit(ev)
	case c < 94:
		select {
		case req := <-s.ssC:
			s.ssKeys = append(s.ssKeys, req.Key)
			s.emit(rqEv{Op: "SSTake", Key: req.Key})
		default:
		}
	case c < 96:
		if len(s.ssKeys) > 0 {
			k := s.ssKeys[s.rng.Intn(len(s.ssKeys))]
			m := s.rng.Intn(4)
			idx := uint64(10 + s.rng.Intn(50))
			s.ss.apply(k, m == 0, m == 1, idx)
			s.emit(rqEv{Op: "SSApply", Key: k, Flag: m == 0, Flag2: m == 1, Val: idx})
		}
	case c < 97: // raft log query (also after the close sequence started: it must then be refused)
		r, err := s.lq.add(1, 5, 100)
		ev := rqEv{Op: "LQAdd", Err: errName(err)}
		if err == nil {
			ev.Oid, ev.Rid = s.accept(r)
		}
		s.emit(ev)
	case c < 98:
		if !s.lqHeld && s.lq.get() != nil {
			s.lqHeld = true
			s.emit(rqEv{Op: "LQGet"})
		}
	case c < 99:
		if s.lqHeld {
			oor := s.rng.Intn(3) == 0
			s.lqHeld = false
			s.lq.returned(oor, LogRange{FirstIndex: 1, LastIndex: 5}, nil)
			s.emit(rqEv{Op: "LQReturned", Flag: oor})
		}
	default:
	}
	// client side: read result channels, release objects
	ids := s.liveIDs()
	if len(ids) > 0 && s.rng.Intn(3) > 0 {
		id := ids[s.rng.Intn(len(ids))]
		if s.rng.Intn(5) == 0 {
			s.release(id) // possibly before the result was read
		} else {
			s.poll(id)
			if s.rng.Intn(2) == 0 {
				s.release(id)
			}
		}
	}
}

func (s *rqSim) run(steps int) {
	s.emit(rqEv{Op: "Init", NC: s.nc, Shards: pendingProposalShards})
	s.setup()
	closeAt := steps/2 + s.rng.Intn(steps/2)
	closing := false
	for s.step < steps {
		if !closing && s.step >= closeAt {
			closing = true
			if s.nc && s.tid%4 == 1 {
				s.commitRace()
			}
		}
		if closing && s.rng.Intn(4) == 0 {
			s.closeNext()
			continue
		}
		s.stepOnce(closing)
	}
	// stop: close whatever is still open, let the workers finish the step they were in
	for s.closeNext() {
	}
	if len(s.held) > 0 {
		ctx := s.reads.nextCtx()
		s.reads.add(ctx, s.held)
		id := uint64(len(s.ctxs) + 1)
		s.ctxs = append(s.ctxs, id)
		s.sysctx[id] = ctx
		s.held = nil
		s.emit(rqEv{Op: "RIAdd", Ctx: id, N: ctx.High})
	}
	if s.lqHeld {
		s.lqHeld = false
		s.lq.returned(false, LogRange{FirstIndex: 1, LastIndex: 5}, nil)
		s.emit(rqEv{Op: "LQReturned"})
	}
	for i := 0; i < 5; i++ {
		s.doTick(10)
		s.props.gc()
		s.cc.gc()
		s.ss.gc()
		s.emit(rqEv{Op: "GC"})
		s.reads.applied(100)
		s.emit(rqEv{Op: "RIApplied", N: 100})
	}
	for _, id := range s.liveIDs() {
		s.poll(id)
	}
	s.emit(rqEv{Op: "Final"})
	if s.tid%4 == 3 {
		s.restartCtx()
	}
	if s.tid%4 == 2 {
		s.batchExpiry()
	}
	if s.tid%4 == 1 {
		s.restartKey()
	}
	s.stress()
}

// batchExpiry: reads with very different deadlines share one batch (one step of the step worker) whose
// context is never confirmed (a cut-off leader). The batch outlives its 30 ticks; every request in it must
// still get its Timeout when its own deadline has passed, whatever the order in which they were queued.
func (s *rqSim) batchExpiry() {
	s.emit(rqEv{Op: "Init", NC: s.nc, Shards: pendingProposalShards})
	s.setup()
	s.tick = 0
	s.doTick(3)
	tos := []uint64{70, 45, 2, 50, 3}
	if s.tid%8 == 2 {
		tos = []uint64{2, 60, 40, 3}
	}
	oids := []int{}
	for _, to := range tos {
		r, err := s.reads.read(to)
		ev := rqEv{Op: "Read", To: to, Err: errName(err)}
		if err == nil {
			ev.Oid, ev.Rid = s.accept(r)
			oids = append(oids, ev.Oid)
		}
		s.emit(ev)
	}
	reqs := s.readQ.get()
	rids := []int{}
	for _, q := range reqs {
		rids = append(rids, s.ridOf[s.oid(q)])
	}
	s.emit(rqEv{Op: "RIGet", Rids: rids})
	ctx := s.reads.nextCtx()
	s.reads.add(ctx, reqs)
	id := uint64(len(s.ctxs) + 1)
	s.ctxs = append(s.ctxs, id)
	s.sysctx[id] = ctx
	s.emit(rqEv{Op: "RIAdd", Ctx: id, N: ctx.High})
	for i := 0; i < 90; i++ {
		s.doTick(1)
		s.reads.applied(1) // the apply worker reports progress: the table collects what has expired
		s.emit(rqEv{Op: "RIApplied", N: 1})
		if i%7 == 0 {
			for _, o := range oids {
				if _, ok := s.live[o]; ok {
					s.poll(o)
				}
			}
		}
	}
	for _, o := range oids {
		if _, ok := s.live[o]; ok {
			s.poll(o)
		}
	}
	s.emit(rqEv{Op: "Final"})
}

// restartCtx: a read request is batched and forwarded to the leader, then the process is restarted (new
// tables, the clock starts again) and a read of the new incarnation is batched at the same tick. The leader's
// answer to the batch of the previous incarnation arrives afterwards: it belongs to nobody and must release
// nothing (the context of a batch must be unique across incarnations). Judged like every other step: a
// Completed read needs a ready report for the context its own batch was registered under.
func (s *rqSim) restartCtx() {
	s.emit(rqEv{Op: "Init", NC: s.nc, Shards: pendingProposalShards})
	batch := func() (uint64, pb.SystemCtx, int) {
		s.setup()
		s.tick = 0
		s.doTick(5)
		r, err := s.reads.read(20)
		ev := rqEv{Op: "Read", To: 20, Err: errName(err)}
		if err != nil {
			s.emit(ev)
			return 0, pb.SystemCtx{}, 0
		}
		ev.Oid, ev.Rid = s.accept(r)
		s.emit(ev)
		reqs := s.readQ.get()
		rids := []int{}
		for _, q := range reqs {
			rids = append(rids, s.ridOf[s.oid(q)])
		}
		s.emit(rqEv{Op: "RIGet", Rids: rids})
		ctx := s.reads.nextCtx()
		s.reads.add(ctx, reqs)
		id := uint64(len(s.ctxs) + 1)
		s.ctxs = append(s.ctxs, id)
		s.sysctx[id] = ctx
		s.emit(rqEv{Op: "RIAdd", Ctx: id, N: ctx.High})
		return id, ctx, ev.Oid
	}
	idA, ctxA, _ := batch()
	_, _, oidB := batch() // the restart: fresh tables, same tick
	if idA == 0 || oidB == 0 {
		return
	}
	s.reads.addReady([]pb.ReadyToRead{{Index: 3, SystemCtx: ctxA}})
	s.emit(rqEv{Op: "RIReady", Ctx: idA, N: 3})
	s.reads.applied(10)
	s.emit(rqEv{Op: "RIApplied", N: 10})
	s.poll(oidB)
}

// restartKey: proposals with the NoOP session are made and queued, the replica is stopped and started again in
// the same process (fresh tables for the same shard and replica id), new proposals with the same session are
// made, and then the log is replayed: the entries of the first incarnation are reported applied to the tables
// of the second. Nothing but its random key tells a NoOP proposal from another one, so a replayed entry of the
// previous incarnation must not complete a request of this one: the keys of two incarnations must differ.
// The replayed entries are logged as AppliedOld (they justify nothing for the new requests); the verdict is
// TLC's on the Poll that follows.
func (s *rqSim) restartKey() {
	s.emit(rqEv{Op: "Init", NC: s.nc, Shards: pendingProposalShards})
	sess := &client.Session{ShardID: 1, ClientID: client.NotSessionManagedClientID, SeriesID: client.NoOPSeriesID}
	round := func() ([]uint64, []int) {
		s.setup()
		s.tick = 0
		s.doTick(2)
		keys, oids := []uint64{}, []int{}
		for i := 0; i < 3; i++ {
			r, err := s.props.propose(sess, []byte{byte(i)}, 50)
			ev := rqEv{Op: "Propose", Cid: sess.ClientID, Series: sess.SeriesID, To: 50, Err: errName(err)}
			if err != nil {
				s.emit(ev)
				continue
			}
			ev.Oid, ev.Rid = s.accept(r)
			ev.Key = r.key
			s.emit(ev)
			keys = append(keys, r.key)
			oids = append(oids, ev.Oid)
		}
		ents := s.propQ.get(false)
		ks := []uint64{}
		for _, e := range ents {
			ks = append(ks, e.Key)
		}
		s.emit(rqEv{Op: "GetProposals", Keys: ks})
		return keys, oids
	}
	oldKeys, _ := round()
	_, newOids := round() // the restart
	for i, k := range oldKeys {
		s.props.applied(sess.ClientID, sess.SeriesID, k, sm.Result{Value: uint64(7000 + i)}, false)
		s.emit(rqEv{Op: "AppliedOld", Key: k, Cid: sess.ClientID, Series: sess.SeriesID, Val: uint64(7000 + i)})
	}
	for _, o := range newOids {
		s.poll(o)
	}
}

// commitRace: the commit worker reports a proposal committed (proposalShard.committed: look the request up,
// then notify it) while the request expires, its client reads the Timeout and releases the object, and the
// next proposal obtains the pooled object. The scheduling point between the lookup and the notification
// is the verif gate of /repo (build tag verif); the other goroutine's steps run while the commit worker
// stands there - or after it has gone on, when the lookup and the notification are one critical section.
// The verdict is TLC's as for every other step: a Committed note must belong to the request that gets it.
func (s *rqSim) commitRace() {
	cid, series := uint64(2), uint64(1)
	sess := &client.Session{ShardID: 1, ClientID: cid, SeriesID: series}
	r, err := s.props.propose(sess, []byte{1}, 2)
	ev := rqEv{Op: "Propose", Cid: cid, Series: series, To: 2, Err: errName(err)}
	if err != nil {
		s.emit(ev)
		return
	}
	ev.Oid, ev.Rid = s.accept(r)
	ev.Key = r.key
	oid, key := ev.Oid, r.key
	s.emit(ev)
	ents := s.propQ.get(false)
	keys := []uint64{}
	for _, e := range ents {
		keys = append(keys, e.Key)
		s.entries = append(s.entries, rqEntry{e.Key, e.ClientID, e.SeriesID})
	}
	s.emit(rqEv{Op: "GetProposals", Keys: keys})
	s.committedKeys[key] = true
	s.emit(rqEv{Op: "Committed", Key: key, Cid: cid, Series: series})
	done := make(chan struct{})
	fired := false
	verifGateFn = func(name string) {
		if name != "proposalShard.committed" || fired {
			return
		}
		fired = true
		go func() {
			defer close(done)
			s.doTick(3)
			s.props.gc()
			s.emit(rqEv{Op: "GC"})
			s.poll(oid)
			s.release(oid)
			sess2 := &client.Session{ShardID: 1, ClientID: 3, SeriesID: 2}
			r2, err := s.props.propose(sess2, []byte{1}, 6)
			ev := rqEv{Op: "Propose", Cid: 3, Series: 2, To: 6, Err: errName(err)}
			if err == nil {
				ev.Oid, ev.Rid = s.accept(r2)
				ev.Key = r2.key
			}
			s.emit(ev)
		}()
		select {
		case <-done:
		case <-time.After(100 * time.Millisecond):
		}
	}
	s.props.committed(cid, series, key)
	verifGateFn = nil
	if fired {
		<-done
	}
	for _, id := range s.liveIDs() {
		s.poll(id)
	}
}

// stress: real goroutines. Proposers and readers call the client-facing entry points of fresh
// tables while another goroutine stops the shard (the close sequence of node.close()). When
// everybody has returned, every request that was accepted (no error) must have its terminal
// result on its channel: Terminated at the latest. Nothing here depends on timing: the check is
// made after all goroutines have finished.
func (s *rqSim) stress() {
	s.setup()
	var wg sync.WaitGroup
	var mu sync.Mutex
	accepted := []*RequestState{}
	kinds := []string{}
	start := make(chan struct{})
	nprop, nread := 4, 3
	for g := 0; g < nprop; g++ {
		wg.Add(1)
		go func(g int) {
			defer wg.Done()
			<-start
			sess := client.NewNoOPSession(1, random.LockGuardedRand)
			for k := 0; k < 6; k++ {
				r, err := s.props.propose(sess, []byte("x"), 50)
				if err == nil {
					mu.Lock()
					accepted = append(accepted, r)
					kinds = append(kinds, "proposal")
					mu.Unlock()
				}
				// the step worker drains the queue now and then
				if k%2 == g%2 {
					s.propQ.get(false)
				}
			}
		}(g)
	}
	for g := 0; g < nread; g++ {
		wg.Add(1)
		go func() {
			defer wg.Done()
			<-start
			for k := 0; k < 6; k++ {
				r, err := s.reads.read(50)
				if err == nil {
					mu.Lock()
					accepted = append(accepted, r)
					kinds = append(kinds, "read")
					mu.Unlock()
				}
			}
		}()
	}
	wg.Add(1)
	go func() {
		defer wg.Done()
		<-start
		for i := 0; i < s.rng.Intn(40); i++ {
			runtime.Gosched()
		}
		s.reads.close()
		s.props.close()
		s.cc.close()
		s.ss.close()
		s.lq.close()
	}()
	close(start)
	wg.Wait()
	// what the step worker still held when the shard stopped is handed over and dropped as in
	// node.handleReadIndex / processDroppedReadIndexes after close
	if held := s.readQ.get(); len(held) > 0 {
		s.reads.add(s.reads.nextCtx(), held)
	}
	missing := map[string]int{}
	for i, r := range accepted {
		select {
		case <-r.CompletedC:
		default:
			missing[kinds[i]]++
		}
	}
	s.emit(rqEv{Op: "Stress", N: uint64(len(accepted)), Val: uint64(missing["proposal"]), To: uint64(missing["read"])})
}

func TestVerifRqsim(t *testing.T) {
	outPath := os.Getenv("VERIF_OUT")
	if outPath == "" {
		t.Skip("VERIF_OUT not set")
	}
	geti := func(k string, d int) int {
		if v := os.Getenv(k); v != "" {
			if n, err := strconv.Atoi(v); err == nil {
				return n
			}
		}
		return d
	}
	seed := int64(geti("VERIF_SEED", 1))
	traces := geti("VERIF_TRACES", 10)
	steps := geti("VERIF_STEPS", 120)
	first := geti("VERIF_FIRST", 0)
	f, err := os.Create(outPath)
	if err != nil {
		t.Fatal(err)
	}
	defer f.Close()
	w := bufio.NewWriterSize(f, 1<<20)
	defer w.Flush()
	total := map[string]int{}
	savedShards := pendingProposalShards
	defer func() { pendingProposalShards = savedShards }()
	for i := 0; i < traces; i++ {
		tid := first + i
		rng := rand.New(rand.NewSource(seed*32452843 + int64(tid)))
		s := &rqSim{rng: rng, out: w, tid: tid, counts: map[string]int{}, nc: tid%2 == 1,
			oids: map[*RequestState]int{}, live: map[int]*RequestState{}, ridOf: map[int]int{},
			sysctx: map[uint64]pb.SystemCtx{}, closed: map[string]bool{}, committedKeys: map[uint64]bool{}}
		pendingProposalShards = uint64(1 + tid%2)
		func() {
			defer func() {
				if r := recover(); r != nil {
					s.emit(rqEv{Op: "Panic", Msg: fmt.Sprint(r)})
				}
			}()
			s.run(steps)
		}()
		for k, v := range s.counts {
			total[k] += v
		}
	}
	fmt.Printf("RQSIM-STATS %v\n", total)
}
