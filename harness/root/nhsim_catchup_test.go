//go:build verif

// nhsim, catch-up scenarios (C17 on real NodeHosts): two followers of a five-replica shard are cut off
// while the others write, take snapshots and compact their logs; after the heal both can only be brought
// up to date by a snapshot, and both requests reach the leader at about the same time (for an on-disk
// state machine the second stream request is refused while the first stream is running and has to be
// retried after the failure report). Both must have the last write within 30 s of the heal - a healthy
// shard needs well under a second - provided the leader stayed the leader. spec/CatchUpHostTrace.tla
// judges the CatchUp events.
package dragonboat

import (
	"context"
	"encoding/json"
	"fmt"
	"math/rand"
	"sync"
	"time"
)

func nhScenarioCatchUp(rec *nhRec, tid int, seed int64, smType string, store string) {
	rec.t = tid
	rng := rand.New(rand.NewSource(seed*23 + 5))
	c := newNhCluster(rec, 5, smType, store, seed)
	r := &nhRun{c: c, p: nhParams{hosts: 5, opTimeout: 500 * time.Millisecond}, hmu: make([]sync.RWMutex, 5), done: map[int]bool{}}
	rec.emit("Init", nhEv{"hosts": 5, "sm": smType, "store": store, "seed": seed, "mode": "catchup"})
	for _, h := range c.hosts {
		c.members[uint64(h.id)] = h.addr
	}
	for _, h := range c.hosts {
		if err := r.startHostAndReplica(h, true); err != nil {
			panic(err)
		}
	}
	defer func() {
		c.closeAll()
		nhTakePanics()
	}()
	if !r.waitLeader(8 * time.Second) {
		return
	}
	next := 0
	propose := func(n int) bool {
		okc := 0
		for i := 0; i < n; i++ {
			next++
			for try := 0; try < 30; try++ {
				l := r.leaderHost()
				if l == 0 || r.nhOf(l) == nil {
					time.Sleep(5 * time.Millisecond)
					continue
				}
				nh := r.nhOf(l)
				cmd, _ := json.Marshal(nhCmd{Op: "w", K: []string{"a", "b", "c"}[rng.Intn(3)], V: fmt.Sprintf("v%d", next), ID: next})
				ctx, cancel := context.WithTimeout(context.Background(), 500*time.Millisecond)
				_, err := nh.SyncPropose(ctx, nh.GetNoOPSession(c.shard), cmd)
				cancel()
				if err == nil {
					okc++
					break
				}
				time.Sleep(10 * time.Millisecond)
			}
		}
		return okc == n
	}
	if !propose(5 + rng.Intn(10)) {
		return
	}
	l := r.leaderHost()
	if l == 0 {
		return
	}
	// two followers are cut off from everybody
	lag := []int{}
	for _, h := range c.hosts {
		if h.id != l && len(lag) < 2 {
			lag = append(lag, h.id)
		}
	}
	c.net.mu.Lock()
	for _, a := range lag {
		for _, o := range c.hosts {
			if o.id != a {
				c.net.cut[[2]string{c.host(a).addr, o.addr}] = true
				c.net.cut[[2]string{o.addr, c.host(a).addr}] = true
			}
		}
	}
	c.net.mu.Unlock()
	rec.emit("Fault", nhEv{"what": "lag2", "h": lag[0], "h2": lag[1]})
	if !propose(10 + rng.Intn(10)) {
		return
	}
	// the connected replicas snapshot and compact: the laggards' entries are gone everywhere
	for _, h := range c.hosts {
		if h.id == lag[0] || h.id == lag[1] {
			continue
		}
		if nh := r.nhOf(h.id); nh != nil {
			ctx, cancel := context.WithTimeout(context.Background(), 2*time.Second)
			_, _ = nh.SyncRequestSnapshot(ctx, c.shard, SnapshotOption{OverrideCompactionOverhead: true, CompactionOverhead: 0})
			cancel()
		}
	}
	if !propose(3) {
		return
	}
	last := next
	time.Sleep(50 * time.Millisecond)
	leaderBefore := r.leaderHost()
	c.net.mu.Lock()
	c.net.cut = map[[2]string]bool{}
	c.net.mu.Unlock()
	rec.emit("Fault", nhEv{"what": "heal"})
	t0 := time.Now()
	caught := map[int]int64{}
	for time.Since(t0) < 30*time.Second && len(caught) < len(lag) {
		for _, a := range lag {
			if _, ok := caught[a]; ok {
				continue
			}
			nh := r.nhOf(a)
			if nh == nil {
				continue
			}
			func() {
				defer func() { _ = recover() }()
				ans, err := nh.StaleRead(c.shard, nhQuery{Op: "has", ID: last})
				if err == nil && ans.(nhAnswer).Has {
					caught[a] = time.Since(t0).Milliseconds()
				}
			}()
		}
		time.Sleep(10 * time.Millisecond)
	}
	stable := leaderBefore != 0 && r.leaderHost() == leaderBefore
	for _, a := range lag {
		ms, ok := caught[a]
		rec.emit("CatchUp", nhEv{"h": a, "caught": ok, "ms": ms, "leader_stable": stable, "sm": smType})
	}
}
