//go:build verif

// nhsim core: an in-process cluster of real NodeHosts (real engine goroutines, real step /
// commit / apply / snapshot workers, real log store on a strict in-memory file system, real
// transport layer above a recording in-process ITransport). Everything the specifications
// talk about is recorded as one ndjson event stream ordered by one sequence number that is
// assigned under one mutex at the linearization point of the event:
//
//	Save     after the inner ILogDB.SaveRaftState returned (the update is durable)
//	Send     when a message batch reaches ITransport (true egress), before it is delivered
//	Inv/Res  immediately before a client call / immediately after it returned
//	Enter/Exit   first / last statement of every user state machine method
//	Crash    the instant a host loses durability and the network (one critical section)
//	Boot     what the log store returned when the replica was restarted
//
// A crash is simulated in-process: at one instant (optionally at the N-th file system
// operation of the host) the host's file system stops honouring syncs and its network is cut;
// the NodeHost is then closed, the file system is reset to its synced state and a new
// NodeHost is started on it. Goroutines of the crashed host are not killed, they are cut off
// from durability and from the network.
package dragonboat

import (
	"bufio"
	"context"
	"encoding/json"
	"errors"
	"fmt"
	"math/rand"
	"os"
	"reflect"
	"sort"
	"strings"
	"sync"
	"sync/atomic"
	"time"
	"unsafe"

	"github.com/lni/dragonboat/v4/config"
	"github.com/lni/dragonboat/v4/internal/logdb"
	"github.com/lni/dragonboat/v4/internal/vfs"
	"github.com/lni/dragonboat/v4/logger"
	tanplugin "github.com/lni/dragonboat/v4/plugin/tan"
	"github.com/lni/dragonboat/v4/raftio"
	pb "github.com/lni/dragonboat/v4/raftpb"
	gvfs "github.com/lni/vfs"
)

type nhEv map[string]interface{}

// nhRec is the single event recorder of a run.
type nhRec struct {
	mu   sync.Mutex
	seq  int64
	w    *bufio.Writer
	f    *os.File
	t    int
	n    map[string]int
	keep func(ev string) bool
}

func newNhRec(path string) *nhRec {
	f, err := os.Create(path)
	if err != nil {
		panic(err)
	}
	return &nhRec{f: f, w: bufio.NewWriterSize(f, 1<<20), n: map[string]int{}}
}

func (r *nhRec) emit(ev string, kv nhEv) int64 {
	r.mu.Lock()
	defer r.mu.Unlock()
	return r.emitLocked(ev, kv)
}

func (r *nhRec) emitLocked(ev string, kv nhEv) int64 {
	r.seq++
	r.n[ev]++
	if r.keep != nil && !r.keep(ev) {
		return r.seq
	}
	if kv == nil {
		kv = nhEv{}
	}
	kv["ev"] = ev
	b, err := json.Marshal(kv)
	if err != nil {
		panic(err)
	}
	fmt.Fprintf(r.w, `{"t":%d,"i":%d,`, r.t, r.seq)
	r.w.Write(b[1:])
	r.w.WriteByte('\n')
	return r.seq
}

func (r *nhRec) close() {
	r.mu.Lock()
	defer r.mu.Unlock()
	r.w.Flush()
	r.f.Close()
}

// ---------------------------------------------------------------------------- logger

type nhLogger struct {
	pkg string
}

var nhPanics struct {
	mu   sync.Mutex
	msgs []string
}

var nhCurRec *nhRec

var nhVerbose = os.Getenv("VERIF_VERBOSE") != ""

func (l *nhLogger) SetLevel(logger.LogLevel) {}
func (l *nhLogger) Debugf(format string, args ...interface{}) {
}
func (l *nhLogger) Infof(format string, args ...interface{}) {
	if nhVerbose {
		fmt.Printf("I "+l.pkg+" "+format+"\n", args...)
	}
}
func (l *nhLogger) Warningf(format string, args ...interface{}) {
	if nhVerbose {
		fmt.Printf("W "+l.pkg+" "+format+"\n", args...)
	}
}
func (l *nhLogger) Errorf(format string, args ...interface{}) {
	if nhVerbose {
		fmt.Printf("E "+l.pkg+" "+format+"\n", args...)
	}
}
func (l *nhLogger) Panicf(format string, args ...interface{}) {
	msg := fmt.Sprintf(l.pkg+": "+format, args...)
	nhPanics.mu.Lock()
	nhPanics.msgs = append(nhPanics.msgs, msg)
	nhPanics.mu.Unlock()
	if r := nhCurRec; r != nil {
		// the process may die with this panic (engine goroutines do not recover): make sure
		// the event reaches the trace file first
		short := msg
		if len(short) > 300 {
			short = short[:300]
		}
		r.emit("Panic", nhEv{"msg": short})
		r.mu.Lock()
		r.w.Flush()
		r.mu.Unlock()
	}
	panic(msg)
}

func nhInstallLogger() {
	logger.SetLoggerFactory(func(pkg string) logger.ILogger { return &nhLogger{pkg: pkg} })
}

func nhTakePanics() []string {
	nhPanics.mu.Lock()
	defer nhPanics.mu.Unlock()
	r := nhPanics.msgs
	nhPanics.msgs = nil
	return r
}

// ---------------------------------------------------------------------------- network

type nhEndpoint struct {
	handler raftio.MessageHandler
	chunks  raftio.ChunkHandler
	// like a real transport, Close returns only when no handler call is in flight any more
	// and none is started afterwards (NodeHost.Close tears the engine down right after it)
	mu     sync.RWMutex
	closed bool
}

// nhNet never fabricates or duplicates a message: a batch handed to SendMessageBatch is either
// delivered once (possibly late, possibly out of order) or dropped.
type nhNet struct {
	mu      sync.Mutex
	rec     *nhRec
	eps     map[string]*nhEndpoint
	dead    map[string]bool    // crashed hosts: nothing leaves, nothing arrives
	cut     map[[2]string]bool // directed link cut
	loss    int                // per mille
	delayUs int                // max random delay
	rng     *rand.Rand
	record  bool
	wg      sync.WaitGroup
	hostOf  map[string]int
	noChunk map[string]bool // drop snapshot chunks to this address
}

func newNhNet(rec *nhRec, seed int64) *nhNet {
	return &nhNet{rec: rec, eps: map[string]*nhEndpoint{}, dead: map[string]bool{},
		cut: map[[2]string]bool{}, rng: rand.New(rand.NewSource(seed)), record: true,
		hostOf: map[string]int{}, noChunk: map[string]bool{}}
}

func (n *nhNet) isDead(addr string) bool {
	n.mu.Lock()
	defer n.mu.Unlock()
	return n.dead[addr]
}

type nhTransportFactory struct {
	net *nhNet
}

func (f *nhTransportFactory) Create(cfg config.NodeHostConfig,
	h raftio.MessageHandler, ch raftio.ChunkHandler) raftio.ITransport {
	return &nhTransport{net: f.net, addr: cfg.RaftAddress, h: h, ch: ch}
}

func (f *nhTransportFactory) Validate(string) bool { return true }

type nhTransport struct {
	net  *nhNet
	ep   *nhEndpoint
	addr string
	h    raftio.MessageHandler
	ch   raftio.ChunkHandler
}

func (t *nhTransport) Name() string { return "verif-inproc" }
func (t *nhTransport) Start() error {
	t.net.mu.Lock()
	defer t.net.mu.Unlock()
	t.ep = &nhEndpoint{handler: t.h, chunks: t.ch}
	t.net.eps[t.addr] = t.ep
	return nil
}
func (t *nhTransport) Close() error {
	t.net.mu.Lock()
	ep := t.ep
	if cur, ok := t.net.eps[t.addr]; ok && cur == ep {
		delete(t.net.eps, t.addr)
	}
	t.net.mu.Unlock()
	if ep != nil {
		ep.mu.Lock()
		ep.closed = true
		ep.mu.Unlock()
	}
	return nil
}
func (t *nhTransport) GetConnection(ctx context.Context, target string) (raftio.IConnection, error) {
	return &nhConn{t: t, target: target}, nil
}
func (t *nhTransport) GetSnapshotConnection(ctx context.Context,
	target string) (raftio.ISnapshotConnection, error) {
	return &nhConn{t: t, target: target}, nil
}

type nhConn struct {
	t      *nhTransport
	target string
}

func (c *nhConn) Close() {}

func nhMsgEv(m pb.Message) nhEv {
	e := nhEv{"type": m.Type.String(), "from": m.From, "to": m.To, "term": m.Term,
		"logterm": m.LogTerm, "logindex": m.LogIndex, "commit": m.Commit, "reject": m.Reject,
		"hint": m.Hint, "n": len(m.Entries), "shard": m.ShardID}
	if len(m.Entries) > 0 {
		e["first"] = m.Entries[0].Index
		e["last"] = m.Entries[len(m.Entries)-1].Index
	}
	if m.Type == pb.InstallSnapshot {
		e["ssindex"] = m.Snapshot.Index
		e["ssterm"] = m.Snapshot.Term
	}
	return e
}

func (c *nhConn) SendMessageBatch(batch pb.MessageBatch) error {
	n := c.t.net
	data, err := batch.Marshal()
	if err != nil {
		panic(err)
	}
	n.mu.Lock()
	if n.dead[c.t.addr] {
		n.mu.Unlock()
		return nil
	}
	if n.record {
		// true egress: the batch has left the host; stamped under the network lock, which
		// the crash injector also takes, so "left before the crash" is well defined
		msgs := make([]nhEv, 0, len(batch.Requests))
		for _, m := range batch.Requests {
			msgs = append(msgs, nhMsgEv(m))
		}
		n.rec.emit("Send", nhEv{"h": n.hostOf[c.t.addr], "dst": n.hostOf[c.target], "msgs": msgs})
	}
	drop := n.dead[c.target] || n.cut[[2]string{c.t.addr, c.target}] ||
		(n.loss > 0 && n.rng.Intn(1000) < n.loss)
	var delay time.Duration
	if n.delayUs > 0 {
		delay = time.Duration(n.rng.Intn(n.delayUs)) * time.Microsecond
	}
	n.mu.Unlock()
	if drop {
		return nil
	}
	deliver := func() {
		var b pb.MessageBatch
		if err := b.Unmarshal(data); err != nil {
			panic(err)
		}
		n.mu.Lock()
		ep := n.eps[c.target]
		bad := n.dead[c.target] || n.dead[c.t.addr] && false
		n.mu.Unlock()
		if ep == nil || bad {
			return
		}
		ep.mu.RLock()
		if !ep.closed {
			ep.handler(b)
		}
		ep.mu.RUnlock()
	}
	if delay == 0 {
		deliver()
	} else {
		n.wg.Add(1)
		go func() {
			defer n.wg.Done()
			time.Sleep(delay)
			deliver()
		}()
	}
	return nil
}

func (c *nhConn) SendChunk(chunk pb.Chunk) error {
	n := c.t.net
	data, err := chunk.Marshal()
	if err != nil {
		panic(err)
	}
	n.mu.Lock()
	if n.dead[c.t.addr] {
		n.mu.Unlock()
		return nil
	}
	drop := n.dead[c.target] || n.cut[[2]string{c.t.addr, c.target}] || n.noChunk[c.target]
	ep := n.eps[c.target]
	n.mu.Unlock()
	if drop || ep == nil {
		return fmt.Errorf("verif: link down")
	}
	var cc pb.Chunk
	if err := cc.Unmarshal(data); err != nil {
		panic(err)
	}
	ep.mu.RLock()
	defer ep.mu.RUnlock()
	if ep.closed {
		return fmt.Errorf("verif: link down")
	}
	if !ep.chunks(cc) {
		return fmt.Errorf("verif: chunk rejected")
	}
	return nil
}

// ---------------------------------------------------------------------------- log store

type nhLogDBFactory struct {
	c     *nhCluster
	h     *nhHost
	inner config.LogDBFactory
}

func (f *nhLogDBFactory) Name() string { return f.inner.Name() }
func (f *nhLogDBFactory) Create(cfg config.NodeHostConfig, cb config.LogDBCallback,
	dirs []string, wals []string) (raftio.ILogDB, error) {
	in, err := f.inner.Create(cfg, cb, dirs, wals)
	if err != nil {
		return nil, err
	}
	return &nhLogDB{ILogDB: in, c: f.c, h: f.h}, nil
}

// nhLogDB records what the engine makes durable. Everything else is passed through.
type nhLogDB struct {
	raftio.ILogDB
	c *nhCluster
	h *nhHost
}

func nhUpdateEv(ud pb.Update) nhEv {
	e := nhEv{"shard": ud.ShardID, "replica": ud.ReplicaID, "term": ud.State.Term,
		"vote": ud.State.Vote, "commit": ud.State.Commit, "hasstate": !pb.IsEmptyState(ud.State),
		"n": len(ud.EntriesToSave), "ssindex": ud.Snapshot.Index, "ssterm": ud.Snapshot.Term}
	terms := make([]uint64, 0, len(ud.EntriesToSave))
	for _, en := range ud.EntriesToSave {
		terms = append(terms, en.Term)
	}
	e["terms"] = terms
	if len(ud.EntriesToSave) > 0 {
		e["first"] = ud.EntriesToSave[0].Index
	} else {
		e["first"] = 0
	}
	return e
}

// SaveSnapshots is how a snapshot taken by the replica itself is recorded (snapshotter.Commit); received ones
// arrive in SaveRaftState
func (l *nhLogDB) SaveSnapshots(updates []pb.Update) error {
	err := l.ILogDB.SaveSnapshots(updates)
	if err == nil && l.c.ssAudit {
		for _, ud := range updates {
			l.c.rec.emit("SsRecord", nhEv{"h": l.h.id, "shard": ud.ShardID, "index": ud.Snapshot.Index,
				"ondisk": ud.Snapshot.OnDiskIndex, "disksm": ud.Snapshot.Type == pb.OnDiskStateMachine,
				"imported": ud.Snapshot.Imported, "dummy": ud.Snapshot.Dummy})
		}
	}
	return err
}

func (l *nhLogDB) SaveRaftState(updates []pb.Update, workerID uint64) error {
	err := l.ILogDB.SaveRaftState(updates, workerID)
	if l.c.net.record {
		uds := make([]nhEv, 0, len(updates))
		for _, ud := range updates {
			if len(ud.EntriesToSave) == 0 && pb.IsEmptyState(ud.State) && pb.IsEmptySnapshot(ud.Snapshot) {
				continue
			}
			uds = append(uds, nhUpdateEv(ud))
		}
		if len(uds) > 0 || err != nil {
			// stamped after the inner call returned and under the network lock: a crash
			// instant is either before this event (the save may or may not have reached
			// the disk) or after it (it did)
			l.c.net.mu.Lock()
			dead := l.c.net.dead[l.h.addr]
			l.c.rec.emit("Save", nhEv{"h": l.h.id, "uds": uds, "err": err != nil, "dead": dead})
			l.c.net.mu.Unlock()
		}
	}
	return err
}

// ---------------------------------------------------------------------------- hosts

type nhInjector struct {
	h     *nhHost
	count int64
	at    int64 // crash when count reaches at (0 = never)
	fired int32
}

func (i *nhInjector) MaybeError(op gvfs.Op) error {
	n := atomic.AddInt64(&i.count, 1)
	at := atomic.LoadInt64(&i.at)
	if at > 0 && n == at && atomic.CompareAndSwapInt32(&i.fired, 0, 1) {
		i.h.c.crashNow(i.h, fmt.Sprintf("fsop=%d", n))
	}
	return nil
}

type nhHost struct {
	c      *nhCluster
	id     int // 1-based; replica id = host id
	addr   string
	mem    *gvfs.MemFS
	fs     vfs.IFS
	inj    *nhInjector
	nh     *NodeHost
	alive  bool
	joined bool
	ssDir  string
	sms    []*nhSM // state machine incarnations created on this host
	inc    int     // incarnation counter of the host
	lagUs  int32   // Update of every state machine of this host sleeps this long (set by fault schedules)
	smu    sync.Mutex
}

type nhCluster struct {
	rec          *nhRec
	net          *nhNet
	hosts        []*nhHost
	shard        uint64
	shards       []uint64
	slowUs       int
	ssAudit      bool // record what on-disk state machines persist and what snapshot records claim (mode snap)
	emptyImage   bool // on-disk state machines write an empty image while they have applied nothing
	armOnRecover bool
	ssShards     uint64
	smType       string // regular | concurrent | ondisk
	store        string // pebble | tan
	rng          *rand.Rand
	rtt          uint64
	cfgOf        func(replica uint64) config.Config
	seed         int64
	members      map[uint64]string
}

func newNhCluster(rec *nhRec, n int, smType string, store string, seed int64) *nhCluster {
	c := &nhCluster{rec: rec, net: newNhNet(rec, seed^0x5bd1e995), shard: 1, smType: smType,
		store: store, rng: rand.New(rand.NewSource(seed)), rtt: 5, seed: seed, members: map[uint64]string{}, shards: []uint64{1}, ssShards: 2}
	for i := 1; i <= n; i++ {
		c.addHost(i)
	}
	c.cfgOf = func(replica uint64) config.Config {
		return config.Config{ReplicaID: replica, ShardID: c.shard, ElectionRTT: 10, HeartbeatRTT: 2,
			CheckQuorum: true, SnapshotEntries: 0, CompactionOverhead: 5}
	}
	return c
}

func (c *nhCluster) addHost(i int) *nhHost {
	h := &nhHost{c: c, id: i, addr: fmt.Sprintf("host%d:1", i), mem: gvfs.NewStrictMem()}
	h.inj = &nhInjector{h: h}
	h.fs = vfs.Wrap(h.mem, h.inj)
	c.hosts = append(c.hosts, h)
	c.net.hostOf[h.addr] = i
	return h
}

func (c *nhCluster) host(i int) *nhHost { return c.hosts[i-1] }

func (c *nhCluster) nhConfig(h *nhHost) config.NodeHostConfig {
	ex := config.GetDefaultExpertConfig()
	ex.LogDB = config.GetTinyMemLogDBConfig()
	ex.LogDB.Shards = 2
	ex.Engine.ExecShards = 2
	ex.Engine.CommitShards = 2
	ex.Engine.ApplyShards = 2
	ex.Engine.SnapshotShards = c.ssShards
	ex.Engine.CloseShards = 2
	ex.FS = h.fs
	var inner config.LogDBFactory
	if c.store == "tan" {
		inner = tanplugin.Factory
	} else {
		inner = logdb.NewDefaultFactory()
	}
	ex.LogDBFactory = &nhLogDBFactory{c: c, h: h, inner: inner}
	ex.TransportFactory = &nhTransportFactory{net: c.net}
	return config.NodeHostConfig{
		NodeHostDir:       fmt.Sprintf("/nh%d", h.id),
		WALDir:            fmt.Sprintf("/nh%d", h.id),
		RTTMillisecond:    c.rtt,
		RaftAddress:       h.addr,
		Expert:            ex,
		RaftEventListener: &nhRaftListener{c: c, h: h},
	}
}

type nhRaftListener struct {
	c *nhCluster
	h *nhHost
}

func (l *nhRaftListener) LeaderUpdated(info raftio.LeaderInfo) {
	l.c.rec.emit("Leader", nhEv{"h": l.h.id, "replica": info.ReplicaID, "term": info.Term,
		"leader": info.LeaderID})
}

// start launches (or relaunches) the NodeHost of h.
func (c *nhCluster) startHost(h *nhHost) error {
	nh, err := NewNodeHost(c.nhConfig(h))
	if err != nil {
		return err
	}
	if nh == nil {
		// NewNodeHost recovers a panic of its start-up code and, when the panic value is not an
		// error, returns (nil, nil)
		return errors.New("NewNodeHost returned (nil, nil): a panic during start-up was swallowed")
	}
	h.nh = nh
	h.alive = true
	h.inc++
	c.net.mu.Lock()
	delete(c.net.dead, h.addr)
	c.net.mu.Unlock()
	return nil
}

// crashNow is the crash instant: one critical section that cuts durability and the network.
func (c *nhCluster) crashNow(h *nhHost, why string) {
	c.net.mu.Lock()
	if c.net.dead[h.addr] {
		c.net.mu.Unlock()
		return
	}
	h.mem.SetIgnoreSyncs(true)
	c.net.dead[h.addr] = true
	c.rec.emit("Crash", nhEv{"h": h.id, "why": why})
	c.net.mu.Unlock()
}

// reap closes the NodeHost of a crashed host and rewinds its file system to the synced state.
func (c *nhCluster) reap(h *nhHost) {
	if h.nh != nil {
		func() {
			defer func() {
				if r := recover(); r != nil {
					// closing a host whose disk no longer works may panic; that is the
					// crashed process dying, not a finding
					_ = r
				}
			}()
			h.nh.Close()
		}()
		h.nh = nil
	}
	h.alive = false
	h.mem.ResetToSyncedState()
	nhFixNames(h.mem)
	h.mem.SetIgnoreSyncs(false)
	atomic.StoreInt64(&h.inj.at, 0)
	atomic.StoreInt32(&h.inj.fired, 0)
}

// nhFixNames repairs an artefact of the strict MemFS of lni/vfs: Rename stores the new name in
// the node itself, ResetToSyncedState restores the parent's entry under the old name but leaves
// the new name in the node, so Stat(old).Name() answers the new name - which no real file
// system does (snapshotter.processOrphans uses FileInfo.Name()). Every node is given the name
// of the directory entry that leads to it.
func nhFixNames(m *gvfs.MemFS) {
	rv := reflect.ValueOf(m).Elem().FieldByName("root")
	root := reflect.NewAt(rv.Type(), unsafe.Pointer(rv.UnsafeAddr())).Elem()
	var fix func(node reflect.Value)
	fix = func(node reflect.Value) {
		n := node.Elem()
		chf := n.FieldByName("children")
		ch := reflect.NewAt(chf.Type(), unsafe.Pointer(chf.UnsafeAddr())).Elem()
		for _, k := range ch.MapKeys() {
			c := ch.MapIndex(k)
			nf := c.Elem().FieldByName("name")
			reflect.NewAt(nf.Type(), unsafe.Pointer(nf.UnsafeAddr())).Elem().SetString(k.String())
			if c.Elem().FieldByName("isDir").Bool() {
				fix(c)
			}
		}
	}
	if !root.IsNil() {
		fix(root)
	}
}

func (c *nhCluster) closeAll() {
	for _, h := range c.hosts {
		if h.nh != nil {
			h.nh.Close()
			h.nh = nil
			h.alive = false
		}
	}
	c.net.wg.Wait()
}

func nhSortedKeys(m map[string]string) []string {
	r := make([]string, 0, len(m))
	for k := range m {
		r = append(r, k)
	}
	sort.Strings(r)
	return r
}

func nhErrName(err error) string {
	if err == nil {
		return ""
	}
	s := err.Error()
	if i := strings.Index(s, ":"); i > 0 && i < 40 {
		s = s[:i]
	}
	return s
}
