//go:build verif

// Instrumented user state machines for nhsim: one key/value core, three flavours
// (IStateMachine, IConcurrentStateMachine, IOnDiskStateMachine). Every method emits an Enter
// event as its first statement and an Exit event as its last one; both get their sequence
// number under the recorder's mutex, so if call A really returned before call B started then
// Exit(A) precedes Enter(B) in the trace, and an overlap in the trace is a real overlap.
package dragonboat

import (
	"encoding/json"
	"fmt"
	"io"
	"sync"
	"sync/atomic"
	"time"

	"github.com/lni/dragonboat/v4/internal/fileutil"
	sm "github.com/lni/dragonboat/v4/statemachine"
)

type nhCmd struct {
	Op string `json:"op"` // w: write key, returns the previous value
	K  string `json:"k"`
	V  string `json:"v"`
	ID int    `json:"id"`
}

type nhKVState struct {
	KV      map[string]string `json:"kv"`
	Ops     map[string]uint64 `json:"ops"` // op id -> index it was applied at
	Count   uint64            `json:"count"`
	Applied uint64            `json:"applied"`
}

func newNhKVState() *nhKVState {
	return &nhKVState{KV: map[string]string{}, Ops: map[string]uint64{}}
}

func (s *nhKVState) clone() *nhKVState {
	r := newNhKVState()
	for k, v := range s.KV {
		r.KV[k] = v
	}
	for k, v := range s.Ops {
		r.Ops[k] = v
	}
	r.Count = s.Count
	r.Applied = s.Applied
	return r
}

var nhSMSerial int64

// nhSM is the common core. The data mutex only protects the maps against the data race that
// a contract violation would cause; it is never held across an Enter/Exit event.
type nhSM struct {
	c       *nhCluster
	h       *nhHost
	id      int64 // unique per created state machine object
	kind    string
	shard   uint64
	replica uint64
	mu      sync.Mutex
	st      *nhKVState
	jit     uint32
	closed  bool
	durable bool  // on-disk flavour
	hold    int32 // next Lookup sleeps this many milliseconds
}

func (c *nhCluster) newSM(h *nhHost, kind string, shard uint64, replica uint64) *nhSM {
	s := &nhSM{c: c, h: h, id: atomic.AddInt64(&nhSMSerial, 1), kind: kind, shard: shard,
		replica: replica, st: newNhKVState(), jit: uint32(c.seed)*2654435761 + uint32(h.id)}
	h.smu.Lock()
	h.sms = append(h.sms, s)
	h.smu.Unlock()
	c.rec.emit("SMNew", nhEv{"h": h.id, "sm": s.id, "kind": kind, "replica": replica, "inc": h.inc, "shard": shard})
	return s
}

func (s *nhSM) enter(m string, kv nhEv) {
	if kv == nil {
		kv = nhEv{}
	}
	kv["h"] = s.h.id
	kv["sm"] = s.id
	kv["m"] = m
	s.c.rec.emit("Enter", kv)
}

func (s *nhSM) exit(m string, kv nhEv) {
	if kv == nil {
		kv = nhEv{}
	}
	kv["h"] = s.h.id
	kv["sm"] = s.id
	kv["m"] = m
	s.c.rec.emit("Exit", kv)
}

// jitter perturbs the schedule from inside the callbacks (seeded xorshift; sleeping widens
// the window in which a missing lock would let another call in).
func (s *nhSM) slow() {
	if s.c.slowUs > 0 {
		x := atomic.LoadUint32(&s.jit)
		time.Sleep(time.Duration(s.c.slowUs/4+int(x%uint32(s.c.slowUs))) * time.Microsecond)
	}
}

func (s *nhSM) jitter(max int) {
	x := atomic.LoadUint32(&s.jit)
	x ^= x << 13
	x ^= x >> 17
	x ^= x << 5
	atomic.StoreUint32(&s.jit, x)
	if x%4 == 0 {
		time.Sleep(time.Duration(x%uint32(max)) * time.Microsecond)
	}
}

func (s *nhSM) apply(e sm.Entry) sm.Result {
	var c nhCmd
	if err := json.Unmarshal(e.Cmd, &c); err != nil {
		return sm.Result{Value: 0}
	}
	if d := atomic.LoadInt32(&s.h.lagUs); d > 0 {
		// this host applies slowly for a while: its applied index falls behind its saved log
		time.Sleep(time.Duration(d) * time.Microsecond)
	}
	s.mu.Lock()
	defer s.mu.Unlock()
	prev := s.st.KV[c.K]
	s.st.KV[c.K] = c.V
	s.st.Ops[fmt.Sprintf("%d", c.ID)] = e.Index
	s.st.Count++
	s.st.Applied = e.Index
	return sm.Result{Value: e.Index, Data: []byte(prev)}
}

func nhCmdID(cmd []byte) int {
	var c nhCmd
	if err := json.Unmarshal(cmd, &c); err != nil {
		return 0
	}
	return c.ID
}

type nhQuery struct {
	Op string // r: read key; has: op applied?; dump: whole state
	K  string
	ID int
}

type nhAnswer struct {
	V       string
	Has     bool
	Applied uint64
	Count   uint64
	Dump    string
}

func (s *nhSM) lookup(q interface{}) (interface{}, error) {
	qq, ok := q.(nhQuery)
	if !ok {
		return nil, fmt.Errorf("bad query")
	}
	s.mu.Lock()
	defer s.mu.Unlock()
	a := nhAnswer{Applied: s.st.Applied, Count: s.st.Count}
	switch qq.Op {
	case "r":
		a.V = s.st.KV[qq.K]
	case "has":
		_, a.Has = s.st.Ops[fmt.Sprintf("%d", qq.ID)]
	case "dump":
		b, _ := json.Marshal(s.st)
		a.Dump = string(b)
	}
	return a, nil
}

func (s *nhSM) snapshotBytes() []byte {
	s.mu.Lock()
	defer s.mu.Unlock()
	b, _ := json.Marshal(s.st)
	return b
}

func (s *nhSM) restore(r io.Reader) (uint64, error) {
	b, err := io.ReadAll(r)
	if err != nil {
		return 0, err
	}
	st := newNhKVState()
	if len(b) > 0 {
		// (the image of a state machine that has applied nothing is empty, see nhOnDiskSM.SaveSnapshot)
		if err := json.Unmarshal(b, st); err != nil {
			return 0, err
		}
	}
	s.mu.Lock()
	s.st = st
	s.mu.Unlock()
	return st.Applied, nil
}


// statemachine.IExtended: the no-allocation lookup (NodeHost.NAReadLocalNode). For the contract it is a Lookup.
func naLookup(look func(interface{}) (interface{}, error), q []byte) ([]byte, error) {
	var qq nhQuery
	if err := json.Unmarshal(q, &qq); err != nil {
		return nil, err
	}
	a, err := look(qq)
	if err != nil {
		return nil, err
	}
	return json.Marshal(a)
}
func (s *nhRegularSM) NALookup(q []byte) ([]byte, error)    { return naLookup(s.Lookup, q) }
func (s *nhConcurrentSM) NALookup(q []byte) ([]byte, error) { return naLookup(s.Lookup, q) }
func (s *nhOnDiskSM) NALookup(q []byte) ([]byte, error)     { return naLookup(s.Lookup, q) }

// ---------------------------------------------------------------------------- regular

type nhRegularSM struct{ *nhSM }

func (s *nhRegularSM) Update(e sm.Entry) (sm.Result, error) {
	s.enter("Update", nhEv{"idx": []uint64{e.Index}, "ids": []int{nhCmdID(e.Cmd)}})
	s.c.rec.emit("Apply", nhEv{"h": s.h.id, "shard": s.shard, "last": e.Index})
	s.jitter(300)
	r := s.apply(e)
	s.exit("Update", nil)
	return r, nil
}
func (s *nhRegularSM) Lookup(q interface{}) (interface{}, error) {
	s.enter("Lookup", nil)
	if ms := atomic.SwapInt32(&s.hold, 0); ms > 0 {
		time.Sleep(time.Duration(ms) * time.Millisecond)
	}
	s.jitter(300)
	if s.c.slowUs > 0 {
		// an occasional long query: it may still be running when the shard is stopped
		d := s.c.slowUs / 10
		if atomic.LoadUint32(&s.jit)%8 == 0 {
			d = s.c.slowUs * 3
		}
		time.Sleep(time.Duration(d) * time.Microsecond)
	}
	a, err := s.lookup(q)
	s.exit("Lookup", nil)
	return a, err
}
func (s *nhRegularSM) SaveSnapshot(w io.Writer, fc sm.ISnapshotFileCollection, done <-chan struct{}) error {
	s.enter("SaveSnapshot", nil)
	s.jitter(2000)
	s.slow()
	b := s.snapshotBytes()
	s.jitter(2000)
	_, err := w.Write(b)
	s.exit("SaveSnapshot", nhEv{"applied": s.appliedNow()})
	return err
}
func (s *nhRegularSM) RecoverFromSnapshot(r io.Reader, fs []sm.SnapshotFile, done <-chan struct{}) error {
	s.enter("RecoverFromSnapshot", nil)
	s.jitter(1000)
	if s.c.slowUs > 0 {
		// a slow recovery: a query that is let in while the state is being replaced would show up
		time.Sleep(time.Duration(s.c.slowUs/2) * time.Microsecond)
	}
	idx, err := s.restore(r)
	s.exit("RecoverFromSnapshot", nhEv{"applied": idx})
	return err
}
func (s *nhRegularSM) Close() error {
	s.enter("Close", nil)
	s.jitter(500)
	if s.c.slowUs > 0 {
		// a slow Close: a query that is let in while Close runs would show up
		time.Sleep(time.Duration(s.c.slowUs/2) * time.Microsecond)
	}
	s.exit("Close", nil)
	return nil
}

func (s *nhSM) appliedNow() uint64 {
	s.mu.Lock()
	defer s.mu.Unlock()
	return s.st.Applied
}

// ---------------------------------------------------------------------------- concurrent

type nhConcurrentSM struct{ *nhSM }

func (s *nhConcurrentSM) Update(es []sm.Entry) ([]sm.Entry, error) {
	idx := make([]uint64, 0, len(es))
	for _, e := range es {
		idx = append(idx, e.Index)
	}
	ids := make([]int, 0, len(es))
	for _, e := range es {
		ids = append(ids, nhCmdID(e.Cmd))
	}
	s.enter("Update", nhEv{"idx": idx, "ids": ids})
	if len(idx) > 0 {
		s.c.rec.emit("Apply", nhEv{"h": s.h.id, "shard": s.shard, "last": idx[len(idx)-1]})
	}
	s.jitter(300)
	for i := range es {
		es[i].Result = s.apply(es[i])
	}
	s.exit("Update", nil)
	return es, nil
}
func (s *nhConcurrentSM) Lookup(q interface{}) (interface{}, error) {
	s.enter("Lookup", nil)
	s.jitter(300)
	a, err := s.lookup(q)
	s.exit("Lookup", nil)
	return a, err
}
func (s *nhConcurrentSM) PrepareSnapshot() (interface{}, error) {
	s.enter("PrepareSnapshot", nil)
	s.jitter(500)
	if s.c.slowUs > 0 {
		time.Sleep(time.Duration(s.c.slowUs/8) * time.Microsecond)
	}
	s.mu.Lock()
	c := s.st.clone()
	s.mu.Unlock()
	s.exit("PrepareSnapshot", nhEv{"applied": c.Applied})
	return c, nil
}
func (s *nhConcurrentSM) SaveSnapshot(ctx interface{}, w io.Writer, fc sm.ISnapshotFileCollection, done <-chan struct{}) error {
	s.enter("SaveSnapshot", nil)
	s.jitter(2000)
	s.slow()
	b, _ := json.Marshal(ctx.(*nhKVState))
	_, err := w.Write(b)
	s.exit("SaveSnapshot", nhEv{"applied": ctx.(*nhKVState).Applied})
	return err
}
func (s *nhConcurrentSM) RecoverFromSnapshot(r io.Reader, fs []sm.SnapshotFile, done <-chan struct{}) error {
	s.enter("RecoverFromSnapshot", nil)
	s.jitter(1000)
	idx, err := s.restore(r)
	s.exit("RecoverFromSnapshot", nhEv{"applied": idx})
	return err
}
func (s *nhConcurrentSM) Close() error {
	s.enter("Close", nil)
	s.jitter(500)
	s.exit("Close", nil)
	return nil
}

// ---------------------------------------------------------------------------- on-disk

// The on-disk flavour keeps its state in memory and makes it durable, atomically, in the
// host's (crashable) file system on Sync, on RecoverFromSnapshot and, seeded, after some
// Updates. Open returns the index of the last durable state.
type nhOnDiskSM struct{ *nhSM }

func (s *nhSM) dir() string { return fmt.Sprintf("/sm%d-%d", s.shard, s.replica) }

func (s *nhSM) persist() (err error) {
	b := s.snapshotBytes()
	if s.c.ssAudit {
		var st nhKVState
		_ = json.Unmarshal(b, &st)
		defer func() {
			if err == nil {
				// what the state machine has made durable itself (CompactionTrace: a snapshot record must not
				// claim more for an on-disk state machine)
				s.c.rec.emit("Persisted", nhEv{"h": s.h.id, "shard": s.shard, "applied": st.Applied})
			}
		}()
	}
	fs := s.h.fs
	if err := fileutil.MkdirAll(s.dir(), fs); err != nil {
		return err
	}
	tmp := fs.PathJoin(s.dir(), "state.tmp")
	f, err := fs.Create(tmp)
	if err != nil {
		return err
	}
	if _, err := f.Write(b); err != nil {
		return err
	}
	if err := f.Sync(); err != nil {
		return err
	}
	if err := f.Close(); err != nil {
		return err
	}
	if err := fs.Rename(tmp, fs.PathJoin(s.dir(), "state")); err != nil {
		return err
	}
	return fileutil.SyncDir(s.dir(), fs)
}

func (s *nhOnDiskSM) Open(stopc <-chan struct{}) (uint64, error) {
	s.enter("Open", nil)
	fs := s.h.fs
	idx := uint64(0)
	f, err := fs.Open(fs.PathJoin(s.dir(), "state"))
	if err == nil {
		idx, err = s.restore(f)
		f.Close()
		if err != nil {
			s.exit("Open", nhEv{"applied": 0, "err": true})
			return 0, err
		}
	}
	s.exit("Open", nhEv{"applied": idx})
	return idx, nil
}
func (s *nhOnDiskSM) Update(es []sm.Entry) ([]sm.Entry, error) {
	idx := make([]uint64, 0, len(es))
	for _, e := range es {
		idx = append(idx, e.Index)
	}
	ids := make([]int, 0, len(es))
	for _, e := range es {
		ids = append(ids, nhCmdID(e.Cmd))
	}
	s.enter("Update", nhEv{"idx": idx, "ids": ids})
	if len(idx) > 0 {
		s.c.rec.emit("Apply", nhEv{"h": s.h.id, "shard": s.shard, "last": idx[len(idx)-1]})
	}
	s.jitter(300)
	for i := range es {
		es[i].Result = s.apply(es[i])
	}
	// the state machine persists on its own now and then (it may); rarely in the snapshot scenarios, where what
	// matters is what Sync has made durable when a snapshot is recorded
	if j := atomic.LoadUint32(&s.jit); (!s.c.ssAudit && j%7 == 0) || (s.c.ssAudit && j%61 == 0) {
		if err := s.persist(); err != nil {
			panic(err)
		}
	}
	s.exit("Update", nil)
	return es, nil
}
func (s *nhOnDiskSM) Lookup(q interface{}) (interface{}, error) {
	s.enter("Lookup", nil)
	s.jitter(300)
	a, err := s.lookup(q)
	s.exit("Lookup", nil)
	return a, err
}
func (s *nhOnDiskSM) Sync() error {
	s.enter("Sync", nil)
	s.slow()
	err := s.persist()
	s.exit("Sync", nhEv{"applied": s.appliedNow()})
	return err
}
func (s *nhOnDiskSM) PrepareSnapshot() (interface{}, error) {
	s.enter("PrepareSnapshot", nil)
	s.jitter(500)
	if s.c.slowUs > 0 {
		time.Sleep(time.Duration(s.c.slowUs/8) * time.Microsecond)
	}
	s.mu.Lock()
	c := s.st.clone()
	s.mu.Unlock()
	s.exit("PrepareSnapshot", nhEv{"applied": c.Applied})
	return c, nil
}
func (s *nhOnDiskSM) SaveSnapshot(ctx interface{}, w io.Writer, done <-chan struct{}) error {
	s.enter("SaveSnapshot", nil)
	s.jitter(2000)
	s.slow()
	b, _ := json.Marshal(ctx.(*nhKVState))
	if st := ctx.(*nhKVState); s.c.emptyImage && st.Applied == 0 && len(st.KV) == 0 && len(st.Ops) == 0 {
		// a state machine that has applied nothing writes nothing: the empty byte string is a legal image
		b = nil
		s.c.rec.emit("EmptyImage", nhEv{"h": s.h.id})
		// (the finding recorded for this case is a raw panic of another goroutine: the event must be in the file)
		s.c.rec.mu.Lock()
		s.c.rec.w.Flush()
		s.c.rec.mu.Unlock()
	}
	_, err := w.Write(b)
	s.exit("SaveSnapshot", nhEv{"applied": ctx.(*nhKVState).Applied})
	return err
}
func (s *nhOnDiskSM) RecoverFromSnapshot(r io.Reader, done <-chan struct{}) error {
	s.enter("RecoverFromSnapshot", nil)
	// "RecoverFromSnapshot is not required to synchronize its recovered in-core state with that
	// on disk" (statemachine/disk.go): the state becomes durable with the Sync that follows
	idx, err := s.restore(r)
	s.exit("RecoverFromSnapshot", nhEv{"applied": idx})
	if s.c.armOnRecover {
		// power loss at one of the file-system operations that follow (Sync, Shrink, compaction)
		cur := atomic.LoadInt64(&s.h.inj.count)
		if atomic.LoadInt64(&s.h.inj.at) == 0 {
			atomic.StoreInt32(&s.h.inj.fired, 0)
			at := cur + 1 + int64(atomic.LoadUint32(&s.jit)%90)
			atomic.StoreInt64(&s.h.inj.at, at)
			s.c.rec.emit("Armed", nhEv{"h": s.h.id, "at": at, "applied": idx})
		}
	}
	return err
}
func (s *nhOnDiskSM) Close() error {
	s.enter("Close", nil)
	s.jitter(500)
	s.exit("Close", nil)
	return nil
}

// startReplica starts replica h.id of the shard on host h with the cluster's state machine
// flavour.
func (c *nhCluster) startReplica(h *nhHost, members map[uint64]string, join bool) error {
	for _, s := range c.shards {
		if err := c.startReplicaOf(h, s, members, join); err != nil {
			return err
		}
	}
	return nil
}

func (c *nhCluster) startReplicaOf(h *nhHost, shard uint64, members map[uint64]string, join bool) error {
	cfg := c.cfgOf(uint64(h.id))
	cfg.ShardID = shard
	switch c.smType {
	case "regular":
		return h.nh.StartReplica(members, join, func(s uint64, r uint64) sm.IStateMachine {
			return &nhRegularSM{c.newSM(h, "regular", s, r)}
		}, cfg)
	case "concurrent":
		return h.nh.StartConcurrentReplica(members, join, func(s uint64, r uint64) sm.IConcurrentStateMachine {
			return &nhConcurrentSM{c.newSM(h, "concurrent", s, r)}
		}, cfg)
	case "ondisk":
		return h.nh.StartOnDiskReplica(members, join, func(s uint64, r uint64) sm.IOnDiskStateMachine {
			return &nhOnDiskSM{c.newSM(h, "ondisk", s, r)}
		}, cfg)
	}
	panic("unknown sm type")
}
