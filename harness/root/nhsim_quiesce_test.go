//go:build verif

// nhsim, quiesce scenarios (C17 on real NodeHosts): shards configured with Quiesce go idle until
// every replica is quiescent, then requests are made
//   - on a fully connected shard: they must complete, and a Timeout result may not arrive long
//     before the deadline the caller asked for;
//   - on a replica cut off from the quorum (the others are partitioned away or crashed while the
//     shard sleeps): they must end (Timeout / Dropped / ...) within the requested deadline plus
//     slack instead of hanging, and may not complete;
//   - after the partition healed: they complete again.
//
// The engine runs on the wall clock; all limits below leave a wide margin (a Timeout is "early"
// only when it arrives before half of the requested time, a request "hangs" only when nothing
// arrived three seconds after its deadline). spec/QuiesceHostTrace.tla judges the Req events.
package dragonboat

import (
	"context"
	"encoding/json"
	"fmt"
	"math/rand"
	"sync"
	"time"

	"github.com/lni/dragonboat/v4/config"
)

type nhQuiesceRun struct {
	r   *nhRun
	c   *nhCluster
	rng *rand.Rand
	id  int
}

// quiescedFlags reads the quiesce flag of every running replica (diagnostic only, unsynchronised).
func (q *nhQuiesceRun) quiescedFlags() []bool {
	out := []bool{}
	for _, h := range q.c.hosts {
		nh := q.r.nhOf(h.id)
		if nh == nil {
			out = append(out, false)
			continue
		}
		n, ok := nh.getShard(q.c.shard)
		out = append(out, ok && n.qs.quiescedSince > 0)
	}
	return out
}

func (q *nhQuiesceRun) sleepUntilQuiesced(max time.Duration) bool {
	end := time.Now().Add(max)
	for time.Now().Before(end) {
		all := true
		for i, f := range q.quiescedFlags() {
			if !f && q.r.nhOf(i+1) != nil {
				all = false
			}
		}
		if all {
			return true
		}
		time.Sleep(20 * time.Millisecond)
	}
	return false
}

// request makes one request on host hid and records what came back and when.
func (q *nhQuiesceRun) request(kind string, hid int, timeout time.Duration, quorum bool, phase string, try int, last bool) string {
	nh := q.r.nhOf(hid)
	if nh == nil {
		return "nohost"
	}
	q.id++
	flags := q.quiescedFlags()
	var rs *RequestState
	var err error
	t0 := time.Now()
	switch kind {
	case "propose":
		cmd, _ := json.Marshal(nhCmd{Op: "w", K: "q", V: fmt.Sprintf("q%d", q.id), ID: q.id})
		rs, err = nh.Propose(nh.GetNoOPSession(q.c.shard), cmd, timeout)
	case "read":
		rs, err = nh.ReadIndex(q.c.shard, timeout)
	case "members":
		// SyncGetShardMembership is a ReadIndex underneath
		ctx, cancel := context.WithTimeout(context.Background(), timeout)
		_, e := nh.SyncGetShardMembership(ctx, q.c.shard)
		cancel()
		code := "ok"
		if e != nil {
			code = "timeout"
			if e != ErrTimeout && e != context.DeadlineExceeded {
				code = "dropped"
			}
		}
		q.c.rec.emit("Req", nhEv{"id": q.id, "kind": kind, "h": hid, "quorum": quorum, "phase": phase, "try": try, "last": last,
			"timeoutms": timeout.Milliseconds(), "elapsedms": time.Since(t0).Milliseconds(), "code": code, "quiesced": flags})
		return code
	}
	code := "refused"
	if err == nil {
		select {
		case rr := <-rs.ResultC():
			code = nhCode(rr)
		case <-time.After(timeout + 3*time.Second):
			code = "hung"
		}
		if code != "hung" {
			rs.Release()
		}
	}
	q.c.rec.emit("Req", nhEv{"id": q.id, "kind": kind, "h": hid, "quorum": quorum, "phase": phase, "try": try, "last": last,
		"timeoutms": timeout.Milliseconds(), "elapsedms": time.Since(t0).Milliseconds(), "code": code, "quiesced": flags})
	return code
}

// mustComplete: attempts with a long deadline, paced, for at most 20 s in total (Dropped, a
// refusal while a restarted replica is not ready yet and a Timeout of a request forwarded to a
// leader that just lost its office are legitimate answers of a connected shard; not being
// served for 20 s is not). Every attempt is judged for an early Timeout, the Served event for
// the outcome.
func (q *nhQuiesceRun) mustComplete(kind string, hid int, phase string) {
	t0 := time.Now()
	ok, n := false, 0
	for try := 1; !ok && time.Since(t0) < 20*time.Second; try++ {
		code := q.request(kind, hid, 4*time.Second, true, phase, try, false)
		n++
		if code == "nohost" {
			return
		}
		ok = code == "ok"
		if !ok {
			time.Sleep(100 * time.Millisecond)
		}
	}
	q.c.rec.emit("Served", nhEv{"kind": kind, "h": hid, "phase": phase, "ok": ok, "attempts": n, "ms": time.Since(t0).Milliseconds()})
}

func nhScenarioQuiesce(rec *nhRec, tid int, seed int64, smType string, store string, rounds int) {
	rec.t = tid
	rng := rand.New(rand.NewSource(seed*37 + 3))
	hosts := 3
	if tid%4 == 3 {
		hosts = 5
	}
	c := newNhCluster(rec, hosts, smType, store, seed)
	checkQuorum := tid%2 == 0
	c.cfgOf = func(replica uint64) config.Config {
		return config.Config{ReplicaID: replica, ShardID: c.shard, ElectionRTT: 10, HeartbeatRTT: 2,
			CheckQuorum: checkQuorum, PreVote: tid%3 == 1, Quiesce: true}
	}
	r := &nhRun{c: c, p: nhParams{hosts: hosts, opTimeout: 500 * time.Millisecond}, hmu: make([]sync.RWMutex, hosts), done: map[int]bool{}}
	q := &nhQuiesceRun{r: r, c: c, rng: rng}
	rec.emit("Init", nhEv{"hosts": hosts, "sm": smType, "store": store, "seed": seed, "mode": "quiesce", "checkquorum": checkQuorum})
	for _, h := range c.hosts {
		c.members[uint64(h.id)] = h.addr
	}
	for _, h := range c.hosts {
		if err := r.startHostAndReplica(h, true); err != nil {
			panic(err)
		}
	}
	defer func() {
		c.closeAll()
		nhTakePanics()
	}()
	if !r.waitLeader(10 * time.Second) {
		return
	}
	kinds := []string{"propose", "read", "propose", "members"}
	for i := 0; i < 3; i++ {
		q.mustComplete("propose", 1+rng.Intn(hosts), "warmup")
	}
	for round := 0; round < rounds; round++ {
		asleep := q.sleepUntilQuiesced(4 * time.Second)
		rec.emit("Phase", nhEv{"round": round, "asleep": asleep, "quiesced": q.quiescedFlags()})
		if !asleep {
			// the shard did not go quiescent in time (allowed: quiesce is an optimisation); the
			// requests below are still judged
		}
		if rng.Intn(3) > 0 {
			time.Sleep(time.Duration(rng.Intn(700)) * time.Millisecond)
		}
		l := r.leaderHost()
		switch x := rng.Intn(12); {
		case x >= 10 && l != 0:
			// the leader dies while everybody sleeps; a majority is still running and connected: a
			// request on one of the sleeping followers must get the shard going again (election,
			// then service) - one kind of request per episode, so that each has to do it alone
			kind := []string{"propose", "read"}[rng.Intn(2)]
			r.crash(l, false, rng)
			rec.emit("Fault", nhEv{"what": "headless", "h": l, "kind": kind})
			surv := 1 + rng.Intn(hosts)
			for surv == l {
				surv = 1 + rng.Intn(hosts)
			}
			q.mustComplete(kind, surv, "headless")
			r.restart(l)
			r.waitLeader(10 * time.Second)
		case x < 4:
			// healthy shard, woken up by a request on any replica
			q.mustComplete(kinds[rng.Intn(len(kinds))], 1+rng.Intn(hosts), "healthy")
		default:
			// one replica loses the others while everybody sleeps
			surv := 1 + rng.Intn(hosts)
			if x < 7 && l != 0 {
				surv = l
			}
			crash := x%2 == 0
			if crash {
				for _, h := range c.hosts {
					if h.id != surv && r.nhOf(h.id) != nil {
						r.crash(h.id, false, rng)
					}
				}
			} else {
				c.net.mu.Lock()
				for _, h := range c.hosts {
					if h.id != surv {
						c.net.cut[[2]string{c.host(surv).addr, h.addr}] = true
						c.net.cut[[2]string{h.addr, c.host(surv).addr}] = true
					}
				}
				c.net.mu.Unlock()
			}
			rec.emit("Fault", nhEv{"what": "alone", "h": surv, "crash": crash, "leader": l})
			n := 1 + rng.Intn(3)
			for k := 0; k < n; k++ {
				kind := kinds[rng.Intn(3)]
				q.request(kind, surv, time.Duration(150+rng.Intn(700))*time.Millisecond, false, "alone", 1, true)
			}
			if crash {
				for _, h := range c.hosts {
					if h.id != surv {
						r.restart(h.id)
					}
				}
			} else {
				c.net.mu.Lock()
				c.net.cut = map[[2]string]bool{}
				c.net.mu.Unlock()
			}
			rec.emit("Fault", nhEv{"what": "heal"})
			r.waitLeader(10 * time.Second)
			q.mustComplete(kinds[rng.Intn(len(kinds))], 1+rng.Intn(hosts), "healed")
		}
	}
}
