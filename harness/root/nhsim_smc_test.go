//go:build verif

// nhsim, state machine contract scenarios (C11): two shards per host share ONE snapshot
// worker, the state machines are slow in SaveSnapshot / Sync / PrepareSnapshot, and the driver
// keeps requesting snapshots (local and exported), stopping and restarting shards, crashing
// and restarting hosts (so that lagging replicas are streamed a snapshot) and finally closes
// the NodeHosts while clients are still issuing requests.
package dragonboat

import (
	"context"
	"encoding/json"
	"fmt"
	"math/rand"
	"sync"
	"sync/atomic"
	"time"

	"github.com/lni/dragonboat/v4/internal/fileutil"
)

func nhScenarioSMC(rec *nhRec, tid int, seed int64, smType string, store string, durMs int) {
	rec.t = tid
	c := newNhCluster(rec, 3, smType, store, seed)
	c.shards = []uint64{1, 2}
	c.ssShards = 1
	c.slowUs = 20000
	old := syncTaskInterval
	syncTaskInterval = 15
	defer func() { syncTaskInterval = old }()
	r := &nhRun{c: c, p: nhParams{hosts: 3, opTimeout: 200 * time.Millisecond}, hmu: make([]sync.RWMutex, 3), done: map[int]bool{}}
	rec.emit("Init", nhEv{"hosts": 3, "sm": smType, "store": store, "seed": seed, "mode": "smc"})
	for _, h := range c.hosts {
		c.members[uint64(h.id)] = h.addr
	}
	for _, h := range c.hosts {
		if err := r.startHostAndReplica(h, true); err != nil {
			panic(err)
		}
	}
	defer func() {
		c.closeAll()
		nhTakePanics()
	}()
	r.waitLeader(3 * time.Second)
	var wg sync.WaitGroup
	var opid int64
	for w := 0; w < 6; w++ {
		wg.Add(1)
		go func(w int) {
			defer wg.Done()
			rng := rand.New(rand.NewSource(seed*31 + int64(w)))
			for atomic.LoadInt32(&r.stop) == 0 {
				time.Sleep(time.Duration(200+rng.Intn(3000)) * time.Microsecond)
				nh := r.nhOf(1 + rng.Intn(3))
				if nh == nil {
					continue
				}
				shard := c.shards[rng.Intn(2)]
				func() {
					defer func() { _ = recover() }() // the host may be closing under us
					if w < 4 {
						id := atomic.AddInt64(&opid, 1)
						cmd, _ := json.Marshal(nhCmd{Op: "w", K: "a", V: fmt.Sprintf("v%d", id), ID: int(id)})
						rs, err := nh.Propose(nh.GetNoOPSession(shard), cmd, 200*time.Millisecond)
						if err == nil {
							select {
							case <-rs.ResultC():
							case <-time.After(time.Second):
							}
							rs.Release()
						}
					} else if x := rng.Intn(3); x == 0 {
						ctx, cancel := context.WithTimeout(context.Background(), 200*time.Millisecond)
						_, _ = nh.SyncRead(ctx, shard, nhQuery{Op: "r", K: "a"})
						cancel()
					} else if x == 1 {
						// the no-allocation variant: ReadIndex, then NAReadLocalNode (statemachine.IExtended)
						rs, err := nh.ReadIndex(shard, 200*time.Millisecond)
						if err == nil {
							select {
							case res := <-rs.ResultC():
								if res.Completed() {
									q, _ := json.Marshal(nhQuery{Op: "r", K: "a"})
									_, _ = nh.NAReadLocalNode(rs, q)
								}
							case <-time.After(time.Second):
							}
							rs.Release()
						}
					} else {
						_, _ = nh.StaleRead(shard, nhQuery{Op: "r", K: "a"})
					}
				}()
			}
		}(w)
	}
	wg.Add(1)
	go func() {
		defer wg.Done()
		rng := rand.New(rand.NewSource(seed*77 + 3))
		exports := 0
		for atomic.LoadInt32(&r.stop) == 0 {
			time.Sleep(time.Duration(5+rng.Intn(40)) * time.Millisecond)
			hid := 1 + rng.Intn(3)
			nh := r.nhOf(hid)
			shard := c.shards[rng.Intn(2)]
			x := rng.Intn(100)
			switch {
			case x < 40 && nh != nil:
				_, _ = nh.RequestSnapshot(shard, SnapshotOption{OverrideCompactionOverhead: true,
					CompactionOverhead: uint64(rng.Intn(3))}, 500*time.Millisecond)
			case x < 50 && nh != nil:
				exports++
				dir := fmt.Sprintf("/export%d/%d", hid, exports)
				if err := fileutil.MkdirAll(dir, c.host(hid).fs); err == nil {
					_, _ = nh.RequestSnapshot(shard, SnapshotOption{Exported: true, ExportPath: dir}, 500*time.Millisecond)
				}
			case x < 58 && nh != nil:
				// a long running query is still inside the state machine when its shard is stopped
				h := c.host(hid)
				h.smu.Lock()
				for k := len(h.sms) - 1; k >= 0; k-- {
					if h.sms[k].shard == shard {
						atomic.StoreInt32(&h.sms[k].hold, int32(40+rng.Intn(80)))
						break
					}
				}
				h.smu.Unlock()
				// variant A: the query is already running when the shard is stopped;
				// variant B: ReadIndex has completed, the shard is stopped, and only then the
				// client calls ReadLocalNode with the RequestState it still holds
				var rs *RequestState
				if rng.Intn(2) == 0 {
					if x, err := nh.ReadIndex(shard, 200*time.Millisecond); err == nil {
						select {
						case rr := <-x.ResultC():
							if rr.Completed() {
								rs = x
							}
						case <-time.After(300 * time.Millisecond):
						}
					}
				}
				if rs == nil {
					go func() {
						defer func() { _ = recover() }()
						_, _ = nh.StaleRead(shard, nhQuery{Op: "r", K: "a"})
					}()
					time.Sleep(time.Duration(2+rng.Intn(6)) * time.Millisecond)
				}
				r.hmu[hid-1].Lock()
				if h.alive && h.nh != nil {
					if err := h.nh.StopShard(shard); err == nil {
						if rs != nil {
							d := time.Duration(rng.Intn(12000)) * time.Microsecond
							go func() {
								defer func() { _ = recover() }()
								time.Sleep(d)
								_, _ = nh.ReadLocalNode(rs, nhQuery{Op: "r", K: "a"})
							}()
						}
						c.rec.emit("Fault", nhEv{"what": "stopshard-with-query", "h": hid, "shard": shard})
						time.Sleep(time.Duration(rng.Intn(15)) * time.Millisecond)
						for try := 0; try < 200; try++ {
							if err := c.startReplicaOf(h, shard, nil, false); err == nil {
								break
							}
							time.Sleep(2 * time.Millisecond)
						}
					}
				}
				r.hmu[hid-1].Unlock()
			case x < 64 && nh != nil:
				// a snapshot job of one shard waits for the only snapshot worker (busy with the
				// other shard) while its shard is stopped and started again
				other := c.shards[0]
				if other == shard {
					other = c.shards[1]
				}
				_, _ = nh.RequestSnapshot(other, SnapshotOption{}, 500*time.Millisecond)
				time.Sleep(time.Duration(1+rng.Intn(4)) * time.Millisecond)
				_, _ = nh.RequestSnapshot(shard, SnapshotOption{}, 500*time.Millisecond)
				time.Sleep(time.Duration(rng.Intn(3)) * time.Millisecond)
				fallthrough
			case x < 80 && nh != nil:
				// stop the shard on this host and start it again (same incarnation of the host)
				r.hmu[hid-1].Lock()
				h := c.host(hid)
				if h.alive && h.nh != nil {
					if err := h.nh.StopShard(shard); err == nil {
						c.rec.emit("Fault", nhEv{"what": "stopshard", "h": hid, "shard": shard})
						time.Sleep(time.Duration(rng.Intn(15)) * time.Millisecond)
						for try := 0; try < 200; try++ {
							err := c.startReplicaOf(h, shard, nil, false)
							if err == nil {
								break
							}
							time.Sleep(2 * time.Millisecond)
						}
					}
				}
				r.hmu[hid-1].Unlock()
			case x < 86:
				// a running follower falls behind a compacted log (cut off while the others write and
				// compact) and is sent a snapshot after the heal: its state machine recovers from a
				// snapshot at run time while clients keep reading from it
				l := r.leaderHost()
				if l == 0 || l == hid || nh == nil {
					break
				}
				lnh := r.nhOf(l)
				if lnh == nil {
					break
				}
				c.net.mu.Lock()
				for _, o := range c.hosts {
					if o.id != hid {
						c.net.cut[[2]string{c.host(hid).addr, o.addr}] = true
						c.net.cut[[2]string{o.addr, c.host(hid).addr}] = true
					}
				}
				c.net.mu.Unlock()
				c.rec.emit("Fault", nhEv{"what": "lag", "h": hid})
				time.Sleep(time.Duration(40+rng.Intn(60)) * time.Millisecond)
				func() {
					defer func() { _ = recover() }()
					for _, sh := range c.shards {
						_, _ = lnh.RequestSnapshot(sh, SnapshotOption{OverrideCompactionOverhead: true, CompactionOverhead: 0}, 500*time.Millisecond)
					}
				}()
				time.Sleep(time.Duration(60+rng.Intn(60)) * time.Millisecond)
				c.net.mu.Lock()
				c.net.cut = map[[2]string]bool{}
				c.net.mu.Unlock()
				end := time.Now().Add(time.Duration(120+rng.Intn(80)) * time.Millisecond)
				for time.Now().Before(end) && atomic.LoadInt32(&r.stop) == 0 {
					func() {
						defer func() { _ = recover() }()
						_, _ = nh.StaleRead(c.shards[rng.Intn(2)], nhQuery{Op: "r", K: "a"})
					}()
					time.Sleep(time.Duration(100+rng.Intn(400)) * time.Microsecond)
				}
			case x < 92:
				// a host loses power and comes back later: it is behind a compacted log and is
				// streamed a snapshot
				r.crash(hid, false, rng)
				time.Sleep(time.Duration(30+rng.Intn(100)) * time.Millisecond)
				r.restart(hid)
			default:
				if l := r.leaderHost(); l != 0 {
					if lnh := r.nhOf(l); lnh != nil {
						_ = lnh.RequestLeaderTransfer(shard, uint64(1+rng.Intn(3)))
					}
				}
			}
		}
	}()
	time.Sleep(time.Duration(durMs) * time.Millisecond)
	// NodeHost.Close while requests, snapshots and restarts are in flight
	for _, h := range c.hosts {
		r.hmu[h.id-1].Lock()
		if h.nh != nil {
			h.nh.Close()
			h.nh = nil
			h.alive = false
		}
		r.hmu[h.id-1].Unlock()
		if h.id == 1 {
			time.Sleep(5 * time.Millisecond)
		}
	}
	atomic.StoreInt32(&r.stop, 1)
	wg.Wait()
}
