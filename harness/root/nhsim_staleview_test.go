//go:build verif

// nhsim, stale membership view (C03 / C07 on real NodeHosts): a follower misses two membership changes
// (the shard grows from {1,2,3} to {1,2,3,4,5}), is brought up to date by a snapshot, and its snapshot
// worker stands between rsm.StateMachine.recover (which publishes the applied index) and
// node.RestoreRemotes (which hands the snapshot's membership to raft) - the verif gate of internal/rsm -
// while the shard splits into {2,3} and {1,4,5}. If the replica may campaign there it does so with the
// membership it knew before the snapshot: two votes of {1,2,3} elect it, while three of the five real
// members elect another leader. The other side is taken to the same term by leadership transfers.
// The verdict is NodeSafetyTrace's as for every other stream: no two leaders reported for one term.
package dragonboat

import (
	"context"
	"encoding/json"
	"fmt"
	"math/rand"
	"sync"
	"sync/atomic"
	"time"

	"github.com/lni/dragonboat/v4/config"
	"github.com/lni/dragonboat/v4/internal/rsm"
)

func nhScenarioStaleView(rec *nhRec, tid int, seed int64, smType string, store string) {
	rec.t = tid
	rng := rand.New(rand.NewSource(seed*29 + 7))
	c := newNhCluster(rec, 5, smType, store, seed)
	c.cfgOf = func(replica uint64) config.Config {
		return config.Config{ReplicaID: replica, ShardID: c.shard, ElectionRTT: 10, HeartbeatRTT: 2,
			CheckQuorum: false, SnapshotEntries: 0, CompactionOverhead: 0}
	}
	r := &nhRun{c: c, p: nhParams{hosts: 5, opTimeout: 500 * time.Millisecond}, hmu: make([]sync.RWMutex, 5), done: map[int]bool{}}
	rec.emit("Init", nhEv{"hosts": 5, "sm": smType, "store": store, "seed": seed, "mode": "staleview"})
	for _, h := range c.hosts[:3] {
		c.members[uint64(h.id)] = h.addr
	}
	for _, h := range c.hosts[:3] {
		if err := r.startHostAndReplica(h, true); err != nil {
			panic(err)
		}
	}
	var entered int32
	release := make(chan struct{})
	released := false
	free := func() {
		if !released {
			released = true
			close(release)
		}
	}
	rsm.VerifGateFn = func(name string, shardID uint64, replicaID uint64) {
		if name == "rsm.Recover.beforeRestoreRemotes" && replicaID == 2 && atomic.CompareAndSwapInt32(&entered, 0, 1) {
			select {
			case <-release:
			case <-time.After(25 * time.Second):
			}
		}
	}
	defer func() {
		free()
		rsm.VerifGateFn = nil
		c.closeAll()
		nhTakePanics()
	}()
	skip := func(why string) { rec.emit("Skipped", nhEv{"why": why}) }
	if !r.waitLeader(8 * time.Second) {
		skip("no leader")
		return
	}
	next := 0
	propose := func(n int) bool {
		okc := 0
		for i := 0; i < n; i++ {
			next++
			for try := 0; try < 40; try++ {
				l := r.leaderHost()
				if l == 0 || r.nhOf(l) == nil {
					time.Sleep(5 * time.Millisecond)
					continue
				}
				nh := r.nhOf(l)
				cmd, _ := json.Marshal(nhCmd{Op: "w", K: "a", V: fmt.Sprintf("v%d", next), ID: next})
				ctx, cancel := context.WithTimeout(context.Background(), 500*time.Millisecond)
				_, err := nh.SyncPropose(ctx, nh.GetNoOPSession(c.shard), cmd)
				cancel()
				if err == nil {
					okc++
					break
				}
				time.Sleep(10 * time.Millisecond)
			}
		}
		return okc == n
	}
	cut := func(a, b int, on bool) {
		c.net.mu.Lock()
		if on {
			c.net.cut[[2]string{c.host(a).addr, c.host(b).addr}] = true
			c.net.cut[[2]string{c.host(b).addr, c.host(a).addr}] = true
		} else {
			delete(c.net.cut, [2]string{c.host(a).addr, c.host(b).addr})
			delete(c.net.cut, [2]string{c.host(b).addr, c.host(a).addr})
		}
		c.net.mu.Unlock()
	}
	leaderTerm := func(h int) (int, uint64) {
		nh := r.nhOf(h)
		if nh == nil {
			return 0, 0
		}
		lid, term, ok, err := nh.GetLeaderID(c.shard)
		if err != nil || !ok {
			return 0, term
		}
		return int(lid), term
	}
	transfer := func(to int) bool {
		for try := 0; try < 60; try++ {
			l := r.leaderHost()
			if l == to {
				return true
			}
			if l != 0 && r.nhOf(l) != nil {
				_ = r.nhOf(l).RequestLeaderTransfer(c.shard, uint64(to))
			}
			time.Sleep(30 * time.Millisecond)
		}
		return r.leaderHost() == to
	}
	if !propose(3+rng.Intn(4)) || !transfer(1) {
		skip("setup")
		return
	}
	// replica 2 is cut off; the shard grows by two members, everybody else snapshots and compacts
	for _, o := range []int{1, 3, 4, 5} {
		cut(2, o, true)
	}
	rec.emit("Fault", nhEv{"what": "cut2"})
	cc := func(f func(nh *NodeHost, ctx context.Context) error) bool {
		for try := 0; try < 60; try++ {
			if l := r.leaderHost(); l != 0 && l != 2 && r.nhOf(l) != nil {
				ctx, cancel := context.WithTimeout(context.Background(), time.Second)
				err := f(r.nhOf(l), ctx)
				cancel()
				if err == nil {
					return true
				}
			}
			time.Sleep(10 * time.Millisecond)
		}
		return false
	}
	for _, id := range []int{4, 5} {
		h := c.host(id)
		if !cc(func(nh *NodeHost, ctx context.Context) error {
			return nh.SyncRequestAddReplica(ctx, c.shard, uint64(id), h.addr, 0)
		}) {
			skip("add replica")
			return
		}
		if err := c.startHost(h); err != nil {
			panic(err)
		}
		if err := c.startReplica(h, nil, true); err != nil {
			panic(err)
		}
		h.joined = true
	}
	if !propose(3) {
		skip("proposals")
		return
	}
	last := next
	// 4 and 5 must hold everything before the others compact
	for _, id := range []int{3, 4, 5} {
		ok := false
		for try := 0; try < 400 && !ok; try++ {
			if nh := r.nhOf(id); nh != nil {
				func() {
					defer func() { _ = recover() }()
					a, err := nh.StaleRead(c.shard, nhQuery{Op: "has", ID: last})
					ok = err == nil && a.(nhAnswer).Has
				}()
			}
			if !ok {
				time.Sleep(10 * time.Millisecond)
			}
		}
		if !ok {
			skip("catch up of the new members")
			return
		}
	}
	if !transfer(1) {
		skip("leader 1")
		return
	}
	for _, id := range []int{1, 3, 4, 5} {
		if nh := r.nhOf(id); nh != nil {
			ctx, cancel := context.WithTimeout(context.Background(), 2*time.Second)
			_, _ = nh.SyncRequestSnapshot(ctx, c.shard, SnapshotOption{OverrideCompactionOverhead: true, CompactionOverhead: 0})
			cancel()
		}
	}
	// replica 2 hears the leader again and is sent the snapshot; its snapshot worker stops at the gate
	cut(2, 1, false)
	rec.emit("Fault", nhEv{"what": "heal2-1"})
	for try := 0; try < 1500 && atomic.LoadInt32(&entered) == 0; try++ {
		time.Sleep(10 * time.Millisecond)
	}
	if atomic.LoadInt32(&entered) == 0 {
		skip("no snapshot recovery on replica 2")
		return
	}
	// the split: {2,3} | {1,4,5}
	cut(2, 1, true)
	cut(2, 3, false)
	for _, o := range []int{1, 4, 5} {
		cut(3, o, true)
	}
	rec.emit("Fault", nhEv{"what": "split"})
	// does replica 2 get elected with the membership it knew before the snapshot?
	t2 := uint64(0)
	for try := 0; try < 300 && t2 == 0; try++ {
		if l, term := leaderTerm(2); l == 2 {
			t2 = term
		}
		time.Sleep(10 * time.Millisecond)
	}
	if t2 == 0 {
		skip("replica 2 was not elected while its snapshot worker stood in front of RestoreRemotes")
		return
	}
	// the other three take their side to the same term by leadership transfers (one term each)
	for try := 0; try < 40; try++ {
		l, term := leaderTerm(1)
		if term >= t2 || l == 0 {
			if term >= t2 {
				break
			}
			time.Sleep(20 * time.Millisecond)
			continue
		}
		to := 4
		if l == 4 {
			to = 1
		}
		_ = r.nhOf(l).RequestLeaderTransfer(c.shard, uint64(to))
		for w := 0; w < 100; w++ {
			if nl, nt := leaderTerm(to); nl == to && nt > term {
				break
			}
			time.Sleep(10 * time.Millisecond)
		}
	}
	time.Sleep(100 * time.Millisecond)
	l1, term1 := leaderTerm(1)
	rec.emit("Fault", nhEv{"what": "terms", "h": l1, "h2": 2, "term": term1, "term2": t2})
	free()
	time.Sleep(50 * time.Millisecond)
}
