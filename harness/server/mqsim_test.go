//go:build verif

// mqsim: the real server.MessageQueue (message.go) under seeded sequences of Add / MustAdd / AddDelayed /
// Tick / Get / Close calls. Every message carries a unique number; every call is logged with its result,
// Get with the numbers it handed over in order. spec/MsgQueueTrace.tla recomputes every result with
// spec/MsgQueue.tla (MCMsgQueue checks that specification exhaustively: accepted messages are handed over
// exactly once, delayed ones by the first Get after their delay).
package server

import (
	"bufio"
	"encoding/json"
	"math/rand"
	"os"
	"testing"

	pb "github.com/lni/dragonboat/v4/raftpb"
)

type mqEv struct {
	T      int      `json:"t"`
	I      int      `json:"i"`
	Op     string   `json:"op"`
	Size   uint64   `json:"size"`
	M      uint64   `json:"m"`
	Delay  uint64   `json:"delay"`
	Ret    bool     `json:"ret"`
	Ret2   bool     `json:"ret2"`
	Got    []uint64 `json:"got"`
	Frozen bool     `json:"frozen"`
}

func TestVerifMqsim(t *testing.T) {
	out := os.Getenv("VERIF_OUT")
	if out == "" {
		t.Skip("VERIF_OUT not set")
	}
	seed := int64(rlEnvInt("VERIF_SEED", 1))
	traces := rlEnvInt("VERIF_TRACES", 50)
	first := rlEnvInt("VERIF_FIRST", 0)
	steps := rlEnvInt("VERIF_STEPS", 400)
	f, err := os.Create(out)
	if err != nil {
		t.Fatal(err)
	}
	defer f.Close()
	w := bufio.NewWriterSize(f, 1<<20)
	defer w.Flush()
	for k := 0; k < traces; k++ {
		tid := first + k
		rng := rand.New(rand.NewSource(seed*15485863 + int64(tid)))
		size := uint64(1 + rng.Intn(6))
		q := NewMessageQueue(size, tid%2 == 0, uint64(rng.Intn(4)), 0)
		i := 0
		emit := func(ev mqEv) {
			ev.T, ev.I = tid, i
			i++
			if ev.Got == nil {
				ev.Got = []uint64{}
			}
			b, err := json.Marshal(ev)
			if err != nil {
				panic(err)
			}
			w.Write(b)
			w.WriteByte('\n')
		}
		emit(mqEv{Op: "Init", Size: size})
		next := uint64(0)
		var prev []pb.Message // the slice the previous Get handed over (shares memory with the queue)
		var prevCopy []uint64
		closed := false
		// delays as the NodeHost uses them (snapshot status 10 ticks, confirmation 2) and the edges
		delays := []uint64{0, 1, 2, 3, 10}
		for s := 0; s < steps; s++ {
			x := rng.Intn(100)
			switch {
			case x < 30:
				next++
				m := pb.Message{Type: pb.Replicate, Hint: next, Entries: []pb.Entry{{Index: next, Cmd: []byte{1}}}}
				if rng.Intn(3) == 0 {
					m = pb.Message{Type: pb.Heartbeat, Hint: next}
				}
				a, st := q.Add(m)
				emit(mqEv{Op: "Add", M: next, Ret: a, Ret2: st})
			case x < 40:
				next++
				ty := pb.InstallSnapshot
				if rng.Intn(2) == 0 {
					ty = pb.Unreachable
				}
				r := q.MustAdd(pb.Message{Type: ty, Hint: next})
				emit(mqEv{Op: "MustAdd", M: next, Ret: r})
			case x < 55:
				next++
				d := delays[rng.Intn(len(delays))]
				r := q.AddDelayed(pb.Message{Type: pb.SnapshotStatus, Hint: next, Reject: rng.Intn(2) == 0}, d)
				emit(mqEv{Op: "AddDelayed", M: next, Delay: d, Ret: r})
			case x < 78:
				q.Tick()
				emit(mqEv{Op: "Tick"})
			case x < 80 && !closed && s > steps/2:
				q.Close()
				closed = true
				emit(mqEv{Op: "Close"})
			default:
				frozen := len(prev) == len(prevCopy)
				for k := range prevCopy {
					if prev[k].Hint != prevCopy[k] || (prev[k].Type == pb.Replicate && len(prev[k].Entries) != 1) {
						frozen = false
					}
				}
				got := q.Get()
				ids := []uint64{}
				for _, m := range got {
					ids = append(ids, m.Hint)
				}
				prev, prevCopy = got, ids
				emit(mqEv{Op: "Get", Got: ids, Frozen: frozen})
			}
		}
	}
}
