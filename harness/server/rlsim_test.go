//go:build verif

// rlsim: the real InMemRateLimiter (rate.go) under seeded sequences of ticks, size updates,
// follower reports, resets and RateLimited() calls; every step logs the complete state and the
// answer. spec/RateLimitTrace.tla recomputes every step with spec/RateLimit.tla and evaluates
// the lemmas of MCRateLimit on the observed steps.
package server

import (
	"bufio"
	"fmt"
	"math/rand"
	"os"
	"sort"
	"strconv"
	"strings"
	"testing"
)

func rlEnvInt(k string, d int) int {
	if v := os.Getenv(k); v != "" {
		if n, err := strconv.Atoi(v); err == nil {
			return n
		}
	}
	return d
}

func TestVerifRlsim(t *testing.T) {
	out := os.Getenv("VERIF_OUT")
	if out == "" {
		t.Skip("VERIF_OUT not set")
	}
	seed := int64(rlEnvInt("VERIF_SEED", 1))
	traces := rlEnvInt("VERIF_TRACES", 50)
	first := rlEnvInt("VERIF_FIRST", 0)
	steps := rlEnvInt("VERIF_STEPS", 400)
	f, err := os.Create(out)
	if err != nil {
		t.Fatal(err)
	}
	defer f.Close()
	w := bufio.NewWriterSize(f, 1<<20)
	defer w.Flush()
	for k := 0; k < traces; k++ {
		tid := first + k
		rng := rand.New(rand.NewSource(seed*104729 + int64(tid)))
		max := uint64(10 + rng.Intn(90))
		if tid%9 == 8 {
			max = 0 // disabled
		}
		r := NewInMemRateLimiter(max)
		i := 0
		emit := func(op string, id uint64, sz uint64, ret bool) {
			i++
			ids := make([]uint64, 0, len(r.followerSizes))
			for x := range r.followerSizes {
				ids = append(ids, x)
			}
			sort.Slice(ids, func(a, b int) bool { return ids[a] < ids[b] })
			fs := make([]string, 0, len(ids))
			for _, x := range ids {
				fs = append(fs, fmt.Sprintf(`{"id":%d,"tick":%d,"sz":%d}`, x, r.followerSizes[x].tick, r.followerSizes[x].inMemLogSize))
			}
			fmt.Fprintf(w, `{"t":%d,"i":%d,"op":"%s","id":%d,"sz":%d,"ret":%t,"st":{"max":%d,"size":%d,"fol":[%s],"tick":%d,"tickLimited":%d,"limited":%t}}`+"\n",
				tid, i, op, id, sz, ret, r.rl.maxSize, r.Get(), strings.Join(fs, ","), r.tick, r.tickLimited, r.limited)
		}
		emit("Init", 0, 0, false)
		size := func() uint64 {
			// around the two thresholds (70% and 100% of max) and far from them
			m := max
			if m == 0 {
				m = 20
			}
			return []uint64{0, m / 2, m*7/10 - 1, m * 7 / 10, m*7/10 + 1, m - 1, m, m + 1, 2 * m}[rng.Intn(9)]
		}
		for s := 0; s < steps; s++ {
			x := rng.Intn(100)
			switch {
			case x < 35:
				r.Tick()
				emit("Tick", 0, 0, false)
			case x < 50:
				sz := size()
				r.Set(sz)
				emit("Set", 0, sz, false)
			case x < 65:
				id, sz := uint64(2+rng.Intn(3)), size()
				r.SetFollowerState(id, sz)
				emit("Follower", id, sz, false)
			case x < 68:
				r.Reset()
				emit("Reset", 0, 0, false)
			default:
				ret := r.RateLimited()
				emit("RateLimited", 0, 0, ret)
			}
		}
	}
}
