//go:build verif

// Overlay-added (non-test) file of package raft: exposes the remaining operations of the
// entry log to the C19 replayer, which has to live in package logdb (the real LogReader
// is there and logdb imports raft). Read-only with respect to /repo: injected at build time.
package raft

import (
	pb "github.com/lni/dragonboat/v4/raftpb"
)

// VCommitUpdate is entryLog.commitUpdate.
func (l *LogTestHelper) VCommitUpdate(cu pb.UpdateCommit) { l.el.commitUpdate(cu) }

// VRestore is entryLog.restore.
func (l *LogTestHelper) VRestore(ss pb.Snapshot) { l.el.restore(ss) }

// VCommitTo is entryLog.commitTo.
func (l *LogTestHelper) VCommitTo(i uint64) { l.el.commitTo(i) }

// VProcessed returns entryLog.processed.
func (l *LogTestHelper) VProcessed() uint64 { return l.el.processed }

// VTryResize is inMemory.tryResize (the periodic in-memory GC).
func (l *LogTestHelper) VTryResize() { l.el.inmem.tryResize() }

// VResize is inMemory.resize (quiesce).
func (l *LogTestHelper) VResize() { l.el.inmem.resize() }

// VPendingSnapshot returns the index of the snapshot waiting to be saved (0 if none).
func (l *LogTestHelper) VPendingSnapshot() uint64 {
	if l.el.inmem.snapshot != nil {
		return l.el.inmem.snapshot.Index
	}
	return 0
}

// VLastTerm is entryLog.lastTerm.
func (l *LogTestHelper) VLastTerm() (uint64, error) { return l.el.lastTerm() }

// VHasMoreEntriesToApply is entryLog.hasMoreEntriesToApply.
func (l *LogTestHelper) VHasMoreEntriesToApply(i uint64) bool { return l.el.hasMoreEntriesToApply(i) }

// VGetUpdateCommit is peer.go's getUpdateCommit.
func VGetUpdateCommit(ud pb.Update) pb.UpdateCommit { return getUpdateCommit(ud) }

// VSetEntrySliceSize lowers the in-memory slice sizing constants so that the resize
// paths are reached with short logs; returns a function restoring them.
func VSetEntrySliceSize(sz uint64, minFree uint64) func() {
	a, b := entrySliceSize, minEntrySliceSize
	entrySliceSize, minEntrySliceSize = sz, minFree
	return func() { entrySliceSize, minEntrySliceSize = a, b }
}
