"""xsim: exhaustive exploration of the real internal/raft code under the transition system of MCRaft.tla,
every transition validated by TLC against Raft.tla / RaftSys.tla (spec/RaftTree.tla), and the number of
reachable states compared with TLC's exhaustive run of the specification for the same constants.

A configuration is an ordinary MCRaft .cfg file: the constants are read from it and handed to the Go explorer
(harness/raft/xsim_test.go), so specification and implementation are explored under the same bounds.
"""
import json
import os
import re
import time

from common import Inconclusive, SPEC, log, run_test_binary, run_tlc, save_replay

CC_SETS = {"CCRemove2": [202], "CCAdd3": [103], "CCAdd3Remove2": [103, 202], "CCAddNV3": [303, 103],
           "CCAddW3": [403], "CCAdd3Twice": [103], "CCRemove1": [201], "CCRemove12": [201, 202]}
JOINS = {"NoJoin": "", "Join3V": "3:V", "Join3N": "3:N", "Join3W": "3:W"}

TREE_CFG = """SPECIFICATION TreeSpec
CONSTANTS
  Replica = %s
  ET = 5
  HT = 1
  PreVote = %s
  CheckQuorum = %s
  G <- GAll
  TraceFile = "%s"
  Conformance = TRUE
  TrackEvidence = TRUE
INVARIANT TreeReport
CHECK_DEADLOCK FALSE
"""


def parse_cfg(path):
    c = {}
    with open(path) as fh:
        for l in fh:
            m = re.match(r"\s*(\w+)\s*(=|<-)\s*(.+?)\s*$", l)
            if m:
                c[m.group(1)] = m.group(3)
    def ids(v):
        return [int(x) for x in re.findall(r"\d+", v)]
    out = {
        "replicas": ids(c["Replica"]), "voters": ids(c["InitVoters"]),
        "prevote": c["PreVote"] == "TRUE", "checkquorum": c["CheckQuorum"] == "TRUE",
        "eager": c["Eager"] == "TRUE", "replica_set": c["Replica"],
    }
    for k in ("MaxTerm", "MaxLen", "MaxMsgs", "MaxDup", "MaxCrash", "MaxProp", "MaxRead", "MaxCC", "MaxSnap"):
        out[k] = int(c[k])
    cc = c["CCChoices"]
    out["cc"] = CC_SETS[cc] if cc in CC_SETS else ids(cc)
    out["join"] = JOINS[c["JoinKind"]]
    if c.get("ET", "5") != "5" or c.get("HT", "1") != "1":
        raise Inconclusive("xsim expects ET = 5, HT = 1 in %s" % path)
    return out


def explore(binary, cfg, out, workers=12, max_states=3000000, timeout=3000):
    env = {"VERIF_OUT": out, "XSIM_REPLICAS": ",".join(map(str, cfg["replicas"])),
           "XSIM_VOTERS": ",".join(map(str, cfg["voters"])), "XSIM_MAXTERM": cfg["MaxTerm"],
           "XSIM_MAXLEN": cfg["MaxLen"], "XSIM_MAXMSGS": cfg["MaxMsgs"], "XSIM_MAXDUP": cfg["MaxDup"],
           "XSIM_MAXCRASH": cfg["MaxCrash"], "XSIM_MAXPROP": cfg["MaxProp"], "XSIM_MAXREAD": cfg["MaxRead"],
           "XSIM_MAXCC": cfg["MaxCC"], "XSIM_MAXSNAP": cfg["MaxSnap"], "XSIM_CC": ",".join(map(str, cfg["cc"])),
           "XSIM_JOIN": cfg["join"], "XSIM_EAGER": "1" if cfg["eager"] else "0",
           "VERIF_PREVOTE": "1" if cfg["prevote"] else "0", "VERIF_CHECKQUORUM": "1" if cfg["checkquorum"] else "0",
           "XSIM_WORKERS": workers, "XSIM_MAXSTATES": max_states}
    rc, o = run_test_binary(binary, "^TestVerifXsim$", env=env, timeout=timeout)
    m = re.search(r"XSIM-RESULT states=(\d+) generated=(\d+) out_of_bounds=(\d+) lines=(\d+) depth=(\d+) complete=(\w+)", o)
    if rc != 0 or not m or not os.path.exists(out):
        raise Inconclusive("xsim explorer failed (rc=%d):\n%s" % (rc, o[-3000:]))
    res = {"states": int(m.group(1)), "generated": int(m.group(2)), "out_of_bounds": int(m.group(3)),
           "lines": int(m.group(4)), "depth": int(m.group(5)), "complete": m.group(6) == "true", "actions": {}}
    m = re.search(r"XSIM-STATS (.*)", o)
    if m:
        for kv in m.group(1).split():
            k, v = kv.rsplit("=", 1)
            res["actions"][k] = int(v)
    return res


def validate(scr, cfg, tree, tag, workers=8, timeout=3000):
    name = os.path.basename(tree)
    p = scr.path("cfg", tag + ".tree.cfg")
    with open(p, "w") as fh:
        fh.write(TREE_CFG % (cfg["replica_set"], "TRUE" if cfg["prevote"] else "FALSE",
                             "TRUE" if cfg["checkquorum"] else "FALSE", name))
    res = run_tlc(scr, "RaftTree", p, workers=workers, timeout=timeout, deadlock=False, spec_files=[tree],
                  tag=tag + ".tree", jvm=["-Xmx16g"])
    if res.error or res.violated:
        raise Inconclusive("TLC failed on the xsim tree %s: %s\n%s" % (name, res.error or res.violated, res.out[-3000:]))
    txt = res.out
    viol = []
    for m in re.finditer(r'<<"TREE-VIOL", (\d+), \{([^}]*)\}>>', txt):
        viol.append((int(m.group(1)), re.findall(r'"(\w+)"', m.group(2))))
    drift = []
    for m in re.finditer(r'<<"TREE-DRIFT", <<(\d+), "(\w+)", \{([^}]*)\}>>>>', txt):
        drift.append((int(m.group(1)), m.group(2), m.group(3)))
    panics = []
    for m in re.finditer(r'<<"TREE-PANIC", \{<<(\d+), "((?:[^"\\]|\\.)*)">>\}>>', txt):
        panics.append((int(m.group(1)), m.group(2)))
    n_marks = txt.count('"TREE-VIOL"') + txt.count('"TREE-DRIFT"') + txt.count('"TREE-PANIC"')
    if n_marks != len(viol) + len(drift) + len(panics):
        raise Inconclusive("cannot parse every finding TLC printed for %s" % name)
    return {"distinct": res.distinct, "viol": viol, "drift": drift, "panics": panics, "wall": res.wall}


def spec_count(scr, cfgpath, tag, workers=8, timeout=1800):
    """number of reachable (node, net, cnt) combinations of the specification: MCRaft with the history hidden"""
    p = scr.path("cfg", tag + ".view.cfg")
    with open(cfgpath) as fh:
        lines = [l for l in fh if not l.startswith("INVARIANT")]
    with open(p, "w") as fh:
        fh.write("".join(lines) + "\nVIEW ViewNoH\n")
    res = run_tlc(scr, "MCRaft", p, workers=workers, timeout=timeout, deadlock=False, tag=tag + ".view", jvm=["-Xmx12g"])
    if res.error or res.violated:
        return None
    return res.distinct


def path_to(tree, line_id, keep=60):
    """events on the path from the root to line `line_id` (parents are recovered from the kids lists)"""
    parent = {}
    want = line_id
    rows = {}
    with open(tree) as fh:
        for l in fh:
            m = re.match(r'\{"id":(\d+),"kids":\[([\d,]*)\]', l)
            i = int(m.group(1))
            for k in m.group(2).split(","):
                if k:
                    parent[int(k) - 1] = i
    chain = []
    while want in parent or want == 0:
        chain.append(want)
        if want == 0:
            break
        want = parent[want]
    keepset = set(chain[:keep])
    with open(tree) as fh:
        for l in fh:
            m = re.match(r'\{"id":(\d+),', l)
            if int(m.group(1)) in keepset:
                rows[int(m.group(1))] = json.loads(l)
    return [rows[i] for i in reversed(chain[:keep]) if i in rows]


def run_config(scr, binary, cfgname, prop, props_names, panic_props, verdict, go_workers=12, tlc_workers=8,
               max_states=3000000, compare=True):
    """explore + validate one configuration; returns the coverage record; findings go to `verdict`"""
    cfgpath = os.path.join(SPEC, cfgname)
    cfg = parse_cfg(cfgpath)
    tag = "x." + cfgname.replace(".cfg", "")
    tree = scr.path("xsim", tag + ".ndjson")
    t0 = time.time()
    ex = explore(binary, cfg, tree, workers=go_workers, max_states=max_states)
    t1 = time.time()
    val = validate(scr, cfg, tree, tag, workers=tlc_workers)
    t2 = time.time()
    if val["distinct"] != ex["lines"]:
        raise Inconclusive("TLC consumed %d of the %d lines of the xsim tree %s" % (val["distinct"], ex["lines"], cfgname))
    names = set(props_names)
    nviol = 0
    for (lid, ps) in val["viol"]:
        for name in ps:
            if name not in names:
                continue
            nviol += 1
            rp = save_replay(prop, "xsim-%s-line%d.json" % (cfgname.replace(".cfg", ""), lid),
                             {"kind": "xsim", "cfg": cfgname, "violated": name, "line": lid,
                              "events": path_to(tree, lid)})
            verdict.violation("%s:%s" % (prop, name),
                              "%s false on a state of the real code reached by exhaustive exploration (%s, tree line %d)"
                              % (name, cfgname, lid), rp)
    for (lid, msg) in val["panics"]:
        owners = []
        for rx, ps in panic_props:
            if rx.search(msg):
                owners = ps
                break
        if prop in (owners or ["C02"]):
            nviol += 1
            rp = save_replay(prop, "xsim-%s-panic-line%d.json" % (cfgname.replace(".cfg", ""), lid),
                             {"kind": "xsim", "cfg": cfgname, "panic": msg, "line": lid, "events": path_to(tree, lid)})
            verdict.violation("%s:panic" % prop, "the code under test panicked on a legal schedule: %s" % msg[:200], rp)
    for (lid, act, fields) in val["drift"][:8]:
        log("DRIFT property=%s xsim %s line=%d action=%s fields={%s}: the implementation left Raft.tla; not a verdict"
            % (prop, cfgname, lid, act, fields))
    sc = None
    if compare and ex["complete"]:
        sc = spec_count(scr, cfgpath, tag, workers=tlc_workers)
        if sc is not None and sc != ex["states"]:
            log("DRIFT property=%s xsim %s: the real code reaches %d states, MCRaft %d (same constants); not a verdict"
                % (prop, cfgname, ex["states"], sc))
    os.remove(tree)
    return {"cfg": cfgname, "impl_states": ex["states"], "impl_transitions": ex["generated"],
            "tree_lines": ex["lines"], "depth": ex["depth"], "complete": ex["complete"],
            "out_of_bounds_successors": ex["out_of_bounds"], "spec_states_same_constants": sc,
            "state_spaces_equal": (sc == ex["states"]) if sc is not None else None,
            "conformance_rejections": len(val["drift"]), "property_findings": nviol,
            "actions": {k[4:]: v for k, v in ex["actions"].items() if k.startswith("act:")},
            "explore_s": round(t1 - t0, 1), "tlc_s": round(t2 - t1, 1)}


if __name__ == "__main__":
    # development aid: python3 lib/xraft.py <cfg name> [max states]
    import sys
    from common import Scratch, Verdict, build_test_binary
    import raftcheck as rc
    scr = Scratch("xdev")
    try:
        b = build_test_binary(scr, ["raft"], "internal/raft", "raft")
        v = Verdict("C02")
        allnames = sorted({n for ns in rc.PROPS.values() for n in ns})
        r = run_config(scr, b, sys.argv[1], "C02", allnames, rc.PANIC_PROPS, v,
                       max_states=int(sys.argv[2]) if len(sys.argv) > 2 else 3000000)
        print(json.dumps(r, indent=1))
        print("exit", v.finish())
    finally:
        scr.cleanup()
