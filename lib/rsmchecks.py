"""C05 (client sessions), C08 (snapshot equivalence), and the rule-table half of C07: RSM.tla bound to the
real rsm.StateMachine by smsim traces."""
import tvcheck

def _f(fields):
    return set(x.strip().strip('"') for x in fields.split(",") if x.strip())


SESSION_FIELDS = {"callback", "kv", "cnt", "sess", "idx", "term"}

OWN = {
    # a difference in the membership only (possibly seen at the end of a batch) belongs to C07
    "C05": lambda op, fields: (op in ("Apply_prop", "Apply_reg", "Apply_unreg", "Apply_noop") and bool(_f(fields) & SESSION_FIELDS)) or op == "Panic"
                                  or (op == "Recover" and "sess" in _f(fields)),   # the session table must survive a snapshot unchanged
    "C08": lambda op, fields: op in ("Save", "Recover", "Panic"),
    "C07": lambda op, fields: op == "Apply_cc" or (op.startswith("Apply_") and bool(_f(fields) & {"mem", "membership"})),
}
WHAT = {
    "C05": "session handling of the real rsm.StateMachine differs from RSM.tla (result, rejected/ignored, sessions, user state)",
    "C08": "the state recovered from a snapshot differs from the state that was saved",
    "C07": "outcome of a membership change on the real rsm membership differs from the rule table of RSM.tla / a membership property fails",
}


def run(prop, tier, replay_path, mc, merge=False):
    if tier == "thorough":
        batches = [{"first": k * 300, "traces": 300, "steps": 150} for k in range(28)]
    else:
        batches = [{"first": k * 100, "traces": 100, "steps": 100} for k in range(8)]
    return tvcheck.tv_run(
        prop, tier, replay_path,
        harness_dirs=["rsm"], pkg="internal/rsm", test="TestVerifSmsim",
        trace_module="RSMTrace", tag="SM-REPORT", batches=batches,
        env_of=lambda b, seed, out: {"VERIF_OUT": out, "VERIF_SEED": seed, "VERIF_FIRST": b["first"],
                                     "VERIF_TRACES": b["traces"], "VERIF_STEPS": b["steps"]},
        mc=mc, stats_tag="SMSIM-STATS", what=WHAT[prop], owns=OWN[prop], merge_into_existing=merge,
        sig_of=lambda op, fields: "%s:%s" % (prop, op),
        assumptions=["user state machine of the driver is a register file whose results expose the number of Update calls",
                     "LRUMaxSessionCount is lowered to 2..4 for the run (package variable); regular and concurrent state machines, with and without snapshot compression",
                     "the snapshotter of the driver uses the real snapshot writer/reader but one flat directory (directory protocol: C16)"])


def check_c05(prop, tier, replay_path):
    return run(prop, tier, replay_path, [("MCRSM", "MC_RSM_sessions.cfg", 900, 8)])


def check_c08(prop, tier, replay_path):
    return run(prop, tier, replay_path, [("MCRSM", "MC_RSM_sessions.cfg", 900, 8)])


def check_c07_rules(prop, tier, replay_path):
    return run(prop, tier, replay_path, [("MCRSM", "MC_RSM_members.cfg", 900, 8)], merge=True)


def check_c08_ondisk(prop, tier, replay):
    """on-disk state machines: the snapshot a replica records for itself while the apply worker has a batch waiting (odsim)"""
    import tvcheck
    n, tr = (4, 30) if tier == "quick" else (12, 100)
    batches = [{"first": k * tr, "traces": tr} for k in range(n)]
    return tvcheck.tv_run(
        prop, tier, replay, harness_dirs=["rsm"], pkg="internal/rsm", test="TestVerifOdsim",
        trace_module="OnDiskSnapshotTrace", tag="OD-REPORT", count_tag="OD-COUNT", batches=batches,
        env_of=lambda b, seed, out: {"VERIF_OUT": out, "VERIF_SEED": seed, "VERIF_FIRST": b["first"], "VERIF_TRACES": b["traces"]},
        mc=(), level="model_checking", build_name="c08", merge_into_existing=True, max_workers=8, panic_ok=True,
        what="on-disk state machine: the snapshot the replica recorded for itself is ahead of what the state machine had "
             "persisted, or a replica restarted at the persisted state does not recover to the state of a replica that never stopped",
        sig_of=lambda op, f: "C08:ondisk:%s" % op,
        assumptions=["on-disk state machines at rsm level (odsim): real rsm.StateMachine.concurrentSave with the next batch of the "
                     "apply worker queued behind the state machine's lock from inside the user's Sync; the record's OnDiskIndex vs "
                     "what Sync persisted; restart at the persisted state + recovery from the record + the rest of the stream"])
