"""C19: EntryLog.tla bound to the real raft entry log + LogReader by elsim traces."""
import tvcheck


def check(prop, tier, replay_path):
    if tier == "thorough":
        batches = [{"first": k * 400, "traces": 400, "steps": 200} for k in range(28)]
        mc = [("MCEntryLog", "MC_EntryLog_big.cfg", 1500, 14)]
    else:
        batches = [{"first": k * 150, "traces": 150, "steps": 150} for k in range(8)]
        mc = [("MCEntryLog", "MC_EntryLog.cfg", 600, 8)]
    return tvcheck.tv_run(
        prop, tier, replay_path,
        harness_dirs=["raftexport", "logdb"], pkg="internal/logdb", test="TestVerifElsim",
        trace_module="EntryLogTrace", tag="EL-REPORT", batches=batches,
        env_of=lambda b, seed, out: {"VERIF_OUT": out, "VERIF_SEED": seed, "VERIF_FIRST": b["first"],
                                     "VERIF_TRACES": b["traces"], "VERIF_STEPS": b["steps"]},
        mc=mc, stats_tag="ELSIM-STATS",
        what="an answer of the real entry log differs from the logical log defined by EntryLog.tla",
        assumptions=["the persistent store behind the LogReader is a faithful in-memory ILogDB (C09 checks the real stores)",
                     "payload identity is checked through unique 8-byte values assigned by the driver"])
