"""C14: SnapshotFile.tla (layout, size formula, expected outcome of every perturbation) judging cases executed on
the real BlockWriter/blockReader (small block size) and SnapshotWriter/Reader/Validator/ShrinkSnapshot (production
constants)."""
import tvcheck

KNOWN = {
    "ValidatorAcceptsHeaderFlip": "C14:header-block-not-protected:validator",
    "HeaderFlipYieldsDifferentBytes": "C14:header-block-not-protected:reader",
}


def _sig(op, fields, lines, at):
    f = fields.strip().strip('"')
    return KNOWN.get(f, "C14:%s:%s" % (op, f.split(":")[0]))


def check(prop, tier, replay_path):
    if tier == "thorough":
        batches = [{"first": k * 24, "traces": 24, "big": 1} for k in range(28)]
    else:
        batches = [{"first": k * 16, "traces": 16, "big": 1 if k == 0 else 0} for k in range(12)]
    return tvcheck.tv_run(
        prop, tier, replay_path,
        harness_dirs=["rsm"], pkg="internal/rsm", test="TestVerifSfsim",
        trace_module="SnapshotFileTrace", tag="SF-REPORT", batches=batches,
        env_of=lambda b, seed, out: {"VERIF_OUT": out, "VERIF_SEED": seed, "VERIF_FIRST": b["first"],
                                     "VERIF_TRACES": b["traces"], "VERIF_BIG": b["big"]},
        mc=[], stats_tag="SFSIM-STATS", sig_ctx=_sig, level="exploration", max_workers=8,
        what="the real snapshot file code disagrees with SnapshotFile.tla (layout / read-back / undetected perturbation)",
        assumptions=["the strength of CRC32 against single-bit changes is a property of the polynomial, not modelled",
                     "small-block cases enumerate every bit and every cut of the block stream; production-size files sample offsets in every region (all region boundaries +- 1, 12 random offsets)",
                     "TLA+ contributes the layout, the size formula and the expectation table; the enumeration is execution of the real code"])
