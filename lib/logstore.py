"""C09 / C10: LogStore.tla bound to the real log stores (sharded Pebble plain+batched, Tan regular+multiplexed)
by lssim traces: operation sequences with query panels (C09), crash at a file-system operation of a save on a
strict in-memory file system and KV-call error injection (C10)."""
import tvcheck


def _sig(prop):
    def f(op, fields, lines, at):
        flavour = ""
        removed_before = False
        for e in lines:
            if e.get("op") == "Init":
                flavour = e.get("flavour", "")
            if e.get("i", 0) < at and e.get("op") == "RemoveNode":
                removed_before = True
        if op == "Imported" and flavour == "tan":
            # structural signature of the recorded finding: Tan, the power was lost inside ImportSnapshot (the
            # Import event just before is marked crashed) and the replica has nothing at all afterwards
            cur = [e for e in lines if e.get("i") == at]
            prev = [e for e in lines if e.get("i") == at - 1]
            if cur and prev and prev[0].get("op") == "Import" and prev[0].get("crashed") and \
                    all(p.get("rserr") == "nosavedlog" for p in cur[0].get("panels", [])):
                return "C10:tan:ImportSnapshot-interrupted-by-power-loss-leaves-nothing"
        if flavour == "tanmux" and removed_before:
            # structural signature of the recorded finding: multiplexed Tan + an earlier RemoveNodeData
            return "C09:tanmux:RemoveNodeData-deletes-log-files-shared-with-other-replicas"
        return "%s:%s:%s" % (prop, flavour, op)
    return f


def check_c09(prop, tier, replay_path):
    if tier == "thorough":
        batches = [{"first": k * 48, "traces": 48, "steps": 120, "mode": "", "big": "1" if k % 7 == 0 else "0"} for k in range(42)]
    else:
        batches = [{"first": k * 40, "traces": 40, "steps": 80, "mode": "", "big": "0"} for k in range(14)]
    return tvcheck.tv_run(
        prop, tier, replay_path,
        harness_dirs=["raftexport", "logdb"], pkg="internal/logdb", test="TestVerifLssim",
        trace_module="LogStoreTrace", tag="LS-REPORT", batches=batches,
        env_of=lambda b, seed, out: {"VERIF_OUT": out, "VERIF_SEED": seed, "VERIF_FIRST": b["first"],
                                     "VERIF_TRACES": b["traces"], "VERIF_STEPS": b["steps"],
                                     "VERIF_MODE": b["mode"], "VERIF_BIG": b["big"]},
        mc=[], stats_tag="LSSIM-STATS", sig_ctx=_sig(prop), max_workers=8,
        what="an answer of the real log store differs from the logical log / state / snapshot record defined by LogStore.tla",
        assumptions=["stores run on an in-memory file system; Pebble with 2 partitions; batched format with batch size 4 in 3 of 4 traces (package variable) and 48 otherwise",
                     "Tan's log-file size is a constant (64MB): rollover is reached only by the multi-megabyte-payload traces of the thorough tier",
                     "size-limited range queries are normalised with the rule LogReader applies"])


def check_c10(prop, tier, replay_path):
    if tier == "thorough":
        batches = [{"first": k * 32, "traces": 32, "steps": 100, "mode": "crash", "big": "0"} for k in range(28)]
        batches += [{"first": 100000 + k * 32, "traces": 32, "steps": 0, "mode": "kverr", "big": "0"} for k in range(14)]
    else:
        batches = [{"first": k * 40, "traces": 40, "steps": 80, "mode": "crash", "big": "0"} for k in range(10)]
        batches += [{"first": 100000 + k * 12, "traces": 24, "steps": 0, "mode": "kverr", "big": "0"} for k in range(4)]
    return tvcheck.tv_run(
        prop, tier, replay_path,
        harness_dirs=["raftexport", "logdb"], pkg="internal/logdb", test="TestVerifLssim",
        trace_module="LogStoreTrace", tag="LS-REPORT", batches=batches,
        env_of=lambda b, seed, out: {"VERIF_OUT": out, "VERIF_SEED": seed, "VERIF_FIRST": b["first"],
                                     "VERIF_TRACES": b["traces"], "VERIF_STEPS": b["steps"],
                                     "VERIF_MODE": b["mode"], "VERIF_BIG": b["big"]},
        mc=[], stats_tag="LSSIM-STATS", sig_ctx=_sig(prop), level="fault_enumeration", max_workers=8,
        what="after a crash / injected I/O error the real log store shows a state LogStore.tla does not allow "
             "(acknowledged save lost, interrupted save partly visible, failed write reported as success)",
        assumptions=["crash in front of a chosen file-system operation of a save, two kinds: power loss = all data not synced before it is dropped (strict MemFS); "
                     "process death (one crash in three) = everything written before it survives, nothing after it does (the operating system writes its cache back), "
                     "in half of these the machine loses power as soon as the reopen has returned (a repair made by the reopen must be durable); no torn single write",
                     "Tan traces 14, 15 mod 16 of the crash mode use entries of 4-28 KB so that records straddle the 32 KB blocks of the log (a record is then written with several writes)",
                     "I/O errors are injected at KV-store calls of the Pebble-backed store (above Pebble), not inside Pebble or Tan"])
