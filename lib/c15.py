"""C15: Chunks.tla bound to the real transport.Chunk receiver (and the real sender-side splitting) by cksim."""
import tvcheck

KNOWN = {
    "FinalizedWithCorruptExternalFile": "C15:corrupt-external-file-chunk-finalizes",
    "FinalizedWithCorruptHeaderBlock": "C15:corrupt-header-block-finalizes",
}


def _sig(op, fields, lines, at):
    f = fields.strip().strip('"')
    return KNOWN.get(f, "C15:%s:%s" % (op, f.split(":")[0]))


def check(prop, tier, replay_path):
    if tier == "thorough":
        batches = [{"first": k * 1500, "traces": 1500, "steps": 90} for k in range(28)]
    else:
        batches = [{"first": k * 300, "traces": 300, "steps": 60} for k in range(12)]
    return tvcheck.tv_run(
        prop, tier, replay_path,
        harness_dirs=["transport"], pkg="internal/transport", test="TestVerifCksim",
        trace_module="ChunksTrace", tag="CK-REPORT", batches=batches,
        env_of=lambda b, seed, out: {"VERIF_OUT": out, "VERIF_SEED": seed, "VERIF_FIRST": b["first"],
                                     "VERIF_TRACES": b["traces"], "VERIF_STEPS": b["steps"]},
        mc=[], stats_tag="CKSIM-STATS", sig_ctx=_sig,
        what="the real chunk receiver did something Chunks.tla does not allow (Add result / tracked streams / directories / notifications / finalized bytes)",
        assumptions=["chunk size lowered to 1 KB (package variable) so that small snapshots have several chunks per file; GC interval/timeout and slot count lowered likewise",
                     "whether the validator notices a corrupted main-file chunk at once or at the end is left open by the specification"])


def check_c16_received(prop, tier, replay_path):
    """second engine of C16: durability of finalized received snapshots on the real chunk receiver"""
    if tier == "thorough":
        batches = [{"first": k * 1500, "traces": 1500, "steps": 90} for k in range(16)]
    else:
        batches = [{"first": k * 300, "traces": 300, "steps": 60} for k in range(8)]
    return tvcheck.tv_run(
        prop, tier, replay_path,
        harness_dirs=["transport"], pkg="internal/transport", test="TestVerifCksim",
        trace_module="ChunksDurableTrace", tag="CD-REPORT", count_tag="CD-COUNT", batches=batches,
        env_of=lambda b, seed, out: {"VERIF_OUT": out, "VERIF_SEED": seed, "VERIF_FIRST": b["first"],
                                     "VERIF_TRACES": b["traces"], "VERIF_STEPS": b["steps"]},
        mc=[], stats_tag="CKSIM-STATS", merge_into_existing=True, build_name="c15",
        sig_of=lambda op, f: "C16:%s" % op,
        what="a received snapshot directory that already carried its final name lost a file (snapshot file, flag "
             "file or external file) in a power loss",
        assumptions=["receiving side with external files (not producible through NodeHosts on the in-memory file "
                     "system): the real chunk receiver on a strict in-memory file system, power loss at the end of "
                     "each trace, every finalized directory compared file by file before / after"])
