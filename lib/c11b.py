"""C11, life cycle engine: spec/Lifecycle.tla (who holds a reference to a replica object, when the user state
machine is closed) model-checked exhaustively, and every complete schedule TLC finds (sampled) replayed on the
real exec engine through a gated nodeLoader (harness/root/lcsim_test.go), judged by LifecycleTrace."""
import json
import os
import random
import re

from common import Scratch, SPEC, env_seed, log, run_tlc, Inconclusive
from tvcheck import tv_run


def schedules(seed, k):
    """all complete schedules of MC_Lifecycle_behaviours.cfg, a seeded sample of k of them"""
    scr = Scratch("lcgen")
    try:
        res = run_tlc(scr, "MCLifecycle", os.path.join(SPEC, "MC_Lifecycle_behaviours.cfg"), workers=6, timeout=900,
                      tag="gen", jvm=["-Xmx6g"], deadlock=False)
        if res.error or res.violated:
            raise Inconclusive("schedule generation failed: %s\n%s" % (res.error or res.violated, res.out[-2000:]))
        parts = res.out.split('"LC-BEHAVIOUR"')[1:]
        allb = []
        for p in parts:
            end = p.find(">> >>")
            acts = re.findall(r'<<"(\w+)", "(\w*)">>', p[:end + 5] if end >= 0 else p)
            if acts:
                allb.append([list(a) for a in acts])
        rng = random.Random(int(seed) * 7919 + 17)
        total = len(allb)
        if total > k:
            allb = rng.sample(allb, k)
        return total, allb
    finally:
        scr.cleanup()


def check(prop, tier, replay):
    k, nb = (240, 8) if tier == "quick" else (6000, 24)
    seed = env_seed()
    total = 0
    batches = []
    if not replay:
        total, sample = schedules(seed, k)
        log("Lifecycle: %d complete schedules, %d replayed" % (total, len(sample)))
        per = (len(sample) + nb - 1) // nb
        for b in range(nb):
            chunk = sample[b * per:(b + 1) * per]
            if not chunk:
                continue
            text = "".join(json.dumps({"id": b * per + i, "workers": ["step", "apply", "ss"], "acts": a}) + "\n"
                           for i, a in enumerate(chunk))
            batches.append({"first": b * per, "traces": len(chunk), "schedules_text": text})

    def env_of(b, seed, out):
        # the schedules travel with the batch (and with a replay file)
        p = out + ".schedules"
        with open(p, "w") as fh:
            fh.write(b["schedules_text"])
        return {"VERIF_OUT": out, "VERIF_SCHEDULES": p}

    if True:
        return tv_run(prop, tier, replay, harness_dirs=["root"], pkg=".", test="TestVerifLcsim",
                      trace_module="LifecycleTrace", tag="LC-REPORT", drift_tag="LC-DRIFT", count_tag="LC-COUNT",
                      batches=batches,
                      env_of=env_of,
                      mc=[("MCLifecycle", "MC_Lifecycle.cfg", 300, 4)], mc_deadlock=False,
                      mc_expect_violation=[("MCLifecycle", "MC_Lifecycle_noguard.cfg", "InvCloseOnce")],
                      level="model_checking", stats_tag="LCSIM-STATS", panic_ok=True, max_workers=8,
                      build_name="nhsim", merge_into_existing=True,
                      what="life cycle of a replica object: the user state machine was closed twice or called after Close "
                           "under a schedule of the engine workers and shard stop generated from Lifecycle.tla",
                      sig_of=lambda op, f: "C11:lifecycle:%s" % op,
                      extra_cov=lambda st: {"lifecycle_schedules_total": total},
                      assumptions=["Lifecycle.tla: one replica object, workers step / apply / snapshot pool, one action per "
                                   "critical section; every complete schedule is enumerated by TLC (250 284 for three "
                                   "workers) and a seeded sample is replayed on the real engine with a gated nodeLoader; "
                                   "the node is a skeleton (real rsm.StateMachine + NativeSM, no raft peer)"])


def check_jobs(prop, tier, replay):
    """snapshot job protocol (SnapshotJobs.tla): MCSnapshotJobs exhaustively + spsim (real node / snapshotState / workerPool
    with the pool's main loop on its own goroutine, gated at its nodeLoader) judged by SnapshotJobsTrace"""
    n, tr, st = (6, 100, 60) if tier == "quick" else (16, 400, 120)
    batches = [{"first": k * tr, "traces": tr, "steps": st} for k in range(n)]
    return tv_run(prop, tier, replay, harness_dirs=["root"], pkg=".", test="TestVerifSpsim",
                  trace_module="SnapshotJobsTrace", tag="SP-REPORT", drift_tag="SP-DRIFT", batches=batches,
                  cfg_extra="  Ablate = {}",
                  env_of=lambda b, seed, out: {"VERIF_OUT": out, "VERIF_SEED": seed, "VERIF_FIRST": b["first"],
                                               "VERIF_TRACES": b["traces"], "VERIF_STEPS": b["steps"]},
                  mc=[("MCSnapshotJobs", "MC_SnapshotJobs_conc.cfg", 600, 4), ("MCSnapshotJobs", "MC_SnapshotJobs_plain.cfg", 300, 4)] +
                     ([("MCSnapshotJobs", "MC_SnapshotJobs_big.cfg", 900, 8)] if tier == "thorough" else []),
                  mc_deadlock=False,
                  mc_expect_violation=[("MCSnapshotJobs", "MC_SnapshotJobs_abl_recover_ignores_streams.cfg", "Inv"),
                                       ("MCSnapshotJobs", "MC_SnapshotJobs_abl_stream_flag.cfg", "Inv"),
                                       ("MCSnapshotJobs", "MC_SnapshotJobs_abl_save_flag.cfg", "Inv")],
                  level="model_checking", panic_ok=True, max_workers=8, build_name="nhsim", merge_into_existing=True,
                  what="snapshot jobs of a replica: a recover job overlapped a save / stream job, the pool's books were wrong, "
                       "a job was forgotten or waited for nothing, or a request was not told that it was ignored / refused",
                  sig_of=lambda op, f: "%s:snapshotjobs:%s" % (prop, op),
                  assumptions=["SnapshotJobs.tla: one replica, the apply worker / the arms of workerPoolMain / the snapshot workers "
                               "as operators named after the Go functions; MCSnapshotJobs checks every interleaving (exclusion of "
                               "recover vs save / stream, books, no panic, progress under fairness) and refutes three ablations; "
                               "spsim runs the real node + workerPool (main loop on its own goroutine, held at its nodeLoader so that "
                               "stimuli pile up; every order the loop may pick is accepted), the jobs themselves are not executed"])
