"""Checks decided by Raft.tla / RaftSys.tla bound to internal/raft through rsim:
C02 C03 C06 C07 C18 (and C17 via lib/progress.py).

quick  : committed attack schedules + seeded rsim schedules validated by TLC (conformance +
         monitor in one pass) + the small exhaustive configurations of MCRaft.
thorough: more schedules, larger exhaustive configurations, regenerated attacks.
"""
import concurrent.futures as cf
import json
import os
import re
import shutil
import time

from common import (Inconclusive, Scratch, Verdict, build_test_binary, env_seed, log,
                    run_test_binary, run_tlc, save_replay, write_evidence, SPEC, VERIF)

# property -> names of RaftSys predicates that state it
PROPS = {
    "C02": ["CommittedAgree", "CommitWithinLog", "LogMatching", "ApplyAgreement", "ApplyOrder",
            "AppliedIsCommitted", "Monotonic"],
    "C03": ["ElectionSafety", "NoTwoLeadersNow", "OneVotePerTerm", "LeaderCompleteness",
            "DurableVote", "ElectionQuorum"],
    "C06": ["ReadIndexSafe", "ReadIndexRespSafe", "ReadIndexMechanism"],
    "C07": ["OneCCAtATime", "RemovedNeverReadmitted", "KindsDisjoint", "MembershipHasVoter",
            "KindOnlyPromotes", "ElectionSafety", "NoTwoLeadersNow", "CommittedAgree",
            "ApplyAgreement", "SnapshotMembershipInstalled"],
    "C17": ["BoundedProgress"],
    "C18": ["OnlyVotersLead", "NonVotingWitnessRoles", "ElectionQuorum", "CommitQuorum",
            "WitnessNoPayload", "WitnessLogMeta", "ReadIndexMechanism", "CheckQuorumLease",
            "SnapshotMembershipInstalled"],
}

# which internal assertion (panic) of the code under test is attributed to which property
PANIC_PROPS = [
    (re.compile(r"readIndex|ReadIndex|index moved backward|inconsistent pending", re.I), ["C06"]),
    (re.compile(r"config change|nonVoting|witness|not a nonVoting|promot", re.I), ["C07", "C18"]),
    (re.compile(r"leader|candidate|vote|term", re.I), ["C03", "C02"]),
]

COMBOS = [(False, False), (True, False), (False, True), (True, True)]

TRACE_CFG = """SPECIFICATION TraceSpec
CONSTANTS
  Replica = {1, 2, 3, 4, 5, 6}
  ET = 5
  HT = 1
  PreVote = %s
  CheckQuorum = %s
  G <- GAll
  TraceFile = "%s"
  Conformance = %s
  TrackEvidence = TRUE
INVARIANT Report
CHECK_DEADLOCK FALSE
"""


def tla_bool(b):
    return "TRUE" if b else "FALSE"


def parse_report(out):
    """Parse the <<"TRACE-REPORT", n, drifts, panicked, viol>> tuple TLC printed."""
    i = out.find('"TRACE-REPORT"')
    if i < 0:
        return None
    j = out.find("Model checking completed", i)
    txt = out[i:j if j > 0 else len(out)]
    txt = " ".join(txt.split())
    m = re.match(r'"TRACE-REPORT", (\d+), (\{.*\}), (\{.*?\}), (\{.*?\}) >>', txt)
    n = int(re.match(r'"TRACE-REPORT", (\d+)', txt).group(1))
    # the three sets: split at top level
    sets, depth, start = [], 0, None
    for k, c in enumerate(txt):
        if c == "{":
            if depth == 0:
                start = k
            depth += 1
        elif c == "}":
            depth -= 1
            if depth == 0:
                sets.append(txt[start:k + 1])
    drifts = re.findall(r"<< ?(\d+), (\d+), \"(\w+)\", \{([^}]*)\} ?>>", sets[0]) if sets else []
    panics = re.findall(r"<< ?(\d+), \"((?:[^\"\\]|\\.)*)\" ?>>", sets[1]) if len(sets) > 1 else []
    viol = re.findall(r"<< ?(\d+), (\d+), \"(\w+)\" ?>>", sets[2]) if len(sets) > 2 else []
    for k, (s, found) in enumerate(zip(sets, (drifts, panics, viol))):
        if s.replace(" ", "") != "{}" and len(found) == 0:
            raise Inconclusive("cannot parse set %d of the TRACE-REPORT: %s" % (k, s[:300]))
    return {
        "lines": n,
        "drifts": [(int(a), int(b), c, d) for a, b, c, d in drifts],
        "panics": [(int(a), b) for a, b in panics],
        "viol": [(int(a), int(b), c) for a, b, c in viol],
    }


def gen_traces(binary, out, seed, first, traces, steps, prevote, checkq, extra_env=None):
    env = {"VERIF_OUT": out, "VERIF_SEED": seed, "VERIF_FIRST": first, "VERIF_TRACES": traces,
           "VERIF_STEPS": steps, "VERIF_PREVOTE": "1" if prevote else "0",
           "VERIF_CHECKQUORUM": "1" if checkq else "0"}
    if extra_env:
        env.update(extra_env)
    rc, o = run_test_binary(binary, "^TestVerifRsim$", env=env, timeout=1800)
    if rc != 0 or not os.path.exists(out):
        raise Inconclusive("rsim driver failed (rc=%d):\n%s" % (rc, o[-3000:]))
    m = re.search(r"RSIM-STATS (.*)", o)
    stats = {}
    if m:
        for kv in m.group(1).split():
            k, v = kv.split("=")
            stats[k] = int(v)
    return stats


def validate_trace_file(scr, path, prevote, checkq, tag, timeout=1800):
    """TLC pass over one ndjson file; falls back to monitor-only if conformance evaluation
    itself raises an evaluation error (possible on a changed tree)."""
    name = os.path.basename(path)
    for conformance in (True, False):
        cfg = scr.path("cfg", tag + (".c" if conformance else ".m") + ".cfg")
        with open(cfg, "w") as fh:
            fh.write(TRACE_CFG % (tla_bool(prevote), tla_bool(checkq), name, tla_bool(conformance)))
        res = run_tlc(scr, "RaftTrace", cfg, workers=1, timeout=timeout, deadlock=False,
                      spec_files=[path], tag=tag + (".c" if conformance else ".m"),
                      jvm=["-Xmx2560m"])
        rep = parse_report(res.out)
        if rep is not None and res.error is None and res.violated is None:
            rep["conformance_evaluated"] = conformance
            rep["states"] = res.distinct
            return rep
        if conformance:
            log("  conformance evaluation of %s failed (%s); monitor-only pass" % (name, res.error or res.violated))
            continue
        raise Inconclusive("TLC failed on %s: %s\n%s" % (name, res.error or res.violated, res.out[-3000:]))


def extract_trace(path, tid):
    lines = []
    with open(path) as fh:
        for l in fh:
            if l.startswith('{"t":%d,' % tid):
                lines.append(l)
    return lines


def run_rsim_batches(scr, binary, seed, n_batches, traces_per_batch, steps, combos=COMBOS,
                     workers=10, extra_env=None):
    """Generate and validate batches in parallel. Returns list of (meta, report)."""
    jobs = []
    k = 0
    for b in range(n_batches):
        for (pv, cq) in combos:
            jobs.append((k, b, pv, cq))
            k += 1

    def one(job):
        k, b, pv, cq = job
        out = scr.path("traces", "t%d.ndjson" % k)
        first = b * traces_per_batch
        stats = gen_traces(binary, out, seed, first, traces_per_batch, steps, pv, cq, extra_env)
        rep = validate_trace_file(scr, out, pv, cq, "b%d" % k)
        meta = {"file": out, "prevote": pv, "checkquorum": cq, "first": first,
                "traces": traces_per_batch, "steps": steps, "seed": seed, "stats": stats}
        return meta, rep

    results = []
    with cf.ThreadPoolExecutor(max_workers=workers) as ex:
        for r in ex.map(one, jobs):
            results.append(r)
    return results


def c17_signature(lines):
    """Structural signature of a progress failure (for known findings): looks at the last logged state of
    every replica. Returns None when the failure does not have a known shape."""
    last = {}
    for x in lines:
        try:
            e = json.loads(x)
        except Exception:
            continue
        if e.get("post"):
            last[e["n"]] = e["post"]
    up = {n: p for n, p in last.items() if p.get("up")}
    for n, p in up.items():
        if n in p["mem"]["rm"]:                      # n has applied its own removal
            for o, q in up.items():
                if o != n and n in q["mem"]["v"] and len(q["mem"]["v"]) == 2 and q["role"] in ("C", "P", "F") \
                        and len(p["log"]) + p.get("sidx", 0) > len(q["log"]) + q.get("sidx", 0):
                    return "C17:self-removed-leader-with-longer-log-blocks-the-last-voter"
    return None


def judge(prop, verdict, results, scr):
    """Turn monitor violations / panics into VIOLATION lines for `prop`; report drift."""
    names = set(PROPS[prop])
    n_viol = 0
    drift_total = 0
    for meta, rep in results:
        for (tid, step, name) in rep["viol"]:
            if name not in names:
                continue
            n_viol += 1
            lines = extract_trace(meta["file"], tid)
            rp = save_replay(prop, "rsim-s%d-t%d-pv%d-cq%d.json" % (meta["seed"], tid, meta["prevote"], meta["checkquorum"]),
                             {"kind": "rsim", "seed": meta["seed"], "trace": tid, "steps": meta["steps"],
                              "prevote": meta["prevote"], "checkquorum": meta["checkquorum"],
                              "progress": meta.get("progress", 0),
                              "violated": name, "at_step": step,
                              "events": [json.loads(x) for x in lines[:step + 1]][-40:]})
            sig = "%s:%s" % (prop, name)
            if prop == "C17":
                sig = c17_signature(lines[:step + 1]) or sig
            verdict.violation(sig,
                              "%s false on an observed state of the real code (trace %d step %d)" % (name, tid, step), rp)
        for (tid, msg) in rep["panics"]:
            owners = []
            for rx, ps in PANIC_PROPS:
                if rx.search(msg):
                    owners = ps
                    break
            if not owners:
                owners = ["C02"]
            if prop in owners:
                n_viol += 1
                rp = save_replay(prop, "rsim-panic-s%d-t%d.json" % (meta["seed"], tid),
                                 {"kind": "rsim", "seed": meta["seed"], "trace": tid, "steps": meta["steps"],
                                  "prevote": meta["prevote"], "checkquorum": meta["checkquorum"],
                                  "panic": msg})
                verdict.violation("%s:panic" % prop, "the code under test panicked on a legal schedule: %s" % msg[:200], rp)
        for (tid, step, act, fields) in rep["drifts"]:
            drift_total += 1
            log("DRIFT property=%s trace=%d step=%d action=%s fields={%s} (pv=%s cq=%s seed=%d)" %
                (prop, tid, step, act, fields, meta["prevote"], meta["checkquorum"], meta["seed"]))
    return n_viol, drift_total
