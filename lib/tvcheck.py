"""Generic 'sequential object' check: a Go driver (overlaid into a /repo package) runs the real
object under seeded operation sequences and logs every operation with its observable results;
a TLA+ trace specification recomputes every result from the specification state (TLC is the
oracle); the specification's own invariants are model-checked exhaustively for small bounds.
"""
import concurrent.futures as cf
import json
import os
import re
import time

import common

from common import (Inconclusive, Scratch, Verdict, build_test_binary, env_seed, log,
                    run_test_binary, run_tlc, save_replay, write_evidence, SPEC)


def classify_go_panic(o):
    """(message, function, file:line) of a Go panic in the driver output whose innermost non-runtime frame is
    code under test; None when there is no panic or the frame belongs to a harness file (zz_verif_*)."""
    m = re.search(r"^panic: (.*)$", o, re.M)
    if not m:
        return None
    msg = m.group(1).replace(" [recovered]", "")
    g = re.search(r"^goroutine \d+ \[running\]:\n((?:.*\n)*?)(?:\n|\Z)", o[m.end():], re.M)
    if not g:
        return None
    fr = g.group(1).split("\n")
    for i in range(0, len(fr) - 1):
        fn, loc = fr[i], fr[i + 1]
        if not loc.startswith("\t"):
            continue
        if fn.startswith(("runtime.", "testing.", "panic(", "runtime/")):
            continue
        path = loc.strip().split(" ")[0]
        base = os.path.basename(path)
        if base.startswith("zz_verif"):
            return None
        return (msg, fn.rsplit("(", 1)[0], base)
    return None


def parse_bad(out, tag):
    """<<"TAG", n, {<<t, i, "op", {fields}>>, ...}>>  ->  (n, [(t, i, op, fields)])"""
    i = out.find('"%s"' % tag)
    if i < 0:
        return None
    j = out.find("Model checking completed", i)
    # the tuple ends where the next tagged tuple (drift, counters) starts
    nx = re.search(r'<<\s*"[A-Z0-9]+-[A-Z]+"', out[i + len(tag) + 2:])
    if nx and (j < 0 or i + len(tag) + 2 + nx.start() < j):
        j = i + len(tag) + 2 + nx.start()
    txt = " ".join(out[i:j if j > 0 else len(out)].split())
    n = int(re.match(r'"%s", (\d+)' % tag, txt).group(1))
    bad = re.findall(r"<< ?(\d+), (\d+), \"(\w+)\", \{([^}]*)\} ?>>", txt)
    # safety net: a non-empty set that the pattern cannot read must never pass as "no violation"
    rest = txt[txt.index(",", txt.index(",") + 1) + 1:].strip()
    if not rest.startswith("{}") and len(bad) == 0:
        raise Inconclusive("cannot parse the violation set printed by TLC: %s" % txt[:400])
    return n, [(int(a), int(b), c, d) for a, b, c, d in bad]


def parse_bad_in_error_state(out):
    """findings in the last state TLC printed with an evaluation error: `/\\ bad = {...}` and `/\\ l = n`.
    None unless there is at least one readable finding (an empty set stays inconclusive)."""
    i = out.rfind("/\\ bad = ")
    if i < 0 or "Error: The error occurred when TLC was evaluating" not in out:
        return None
    j = out.find("\n/\\ ", i + 5)
    k = out.find("\n\n", i)
    end = min(x for x in (j, k, len(out)) if x > 0)
    txt = " ".join(out[i:end].split())
    bad = re.findall(r"<< ?(\d+), (\d+), \"(\w+)\", \{([^}]*)\} ?>>", txt)
    if not bad:
        return None
    m = re.findall(r"/\\ l = (\d+)", out)
    return (int(m[-1]) if m else 0), [(int(a), int(b), c, d) for a, b, c, d in bad]


def tv_run(prop, tier, replay_path, *, harness_dirs, pkg, test, trace_module, tag, batches,
           env_of, cfg_extra="", mc=(), level="model_checking", what, sig_of=None,
           assumptions=(), build_name=None, stats_tag=None, samples_keep=6, race=False, owns=None, merge_into_existing=False, sig_ctx=None, max_workers=14,
           panic_ok=False, mc_deadlock=True, mc_expect_violation=(), drift_tag=None, count_tag=None, extra_cov=None, traces_of=None):
    """batches: list of dicts (per-batch parameters); env_of(batch, seed, out) -> env for the driver."""
    t0 = time.time()
    seed = env_seed()
    scr = Scratch(prop)
    verdict = Verdict(prop)
    try:
        binary = build_test_binary(scr, harness_dirs, pkg, build_name or prop.lower(), race=race)
        if replay_path:
            with open(replay_path) as fh:
                r = json.load(fh)
            batches = [r["batch"]]
            seed = r["seed"]

        def one(k_b):
            k, b = k_b
            out = scr.path("traces", "t%d.ndjson" % k)
            rc, o = run_test_binary(binary, "^%s$" % test, env=env_of(b, seed, out), timeout=3000)
            if rc != 0 and panic_ok and os.path.exists(out):
                # the code under test panicked and took the process down: the driver flushed a
                # Panic event first; judge the (truncated) trace
                with open(out) as fh:
                    data = fh.read()
                data = data[:data.rfind("\n") + 1]
                if '"ev":"Panic"' not in data:
                    # a raw Go panic (not plog.Panicf): nothing flushed an event. If the panicking frame is
                    # code under test (not a harness file) it is judged like a recorded Panic.
                    pm = classify_go_panic(o)
                    if pm is None:
                        raise Inconclusive("driver %s failed (rc=%d):\n%s" % (test, rc, o[-3000:]))
                    lines = data.strip().split("\n") if data.strip() else []
                    last = json.loads(lines[-1]) if lines else {"t": b.get("first", 0), "i": 0}
                    data += json.dumps({"t": last["t"], "i": last["i"] + 1, "ev": "Panic",
                                        "msg": ("%s at %s (%s)" % pm)[:300]}) + "\n"
                with open(out, "w") as fh:
                    fh.write(data)
                log("driver died after a panic of the code under test; judging the trace up to it")
            elif rc != 0 or not os.path.exists(out):
                raise Inconclusive("driver %s failed (rc=%d):\n%s" % (test, rc, o[-3000:]))
            stats = {}
            if stats_tag:
                m = re.search(stats_tag + r" map\[(.*?)\]", o)
                if m:
                    for kv in m.group(1).split():
                        a, v = kv.rsplit(":", 1)
                        stats[a] = int(v)
            cfg = scr.path("cfg", "b%d.cfg" % k)
            with open(cfg, "w") as fh:
                fh.write('SPECIFICATION Spec\nCONSTANTS\n  TraceFile = "%s"\n%s\nINVARIANT Report\nCHECK_DEADLOCK FALSE\n'
                         % (os.path.basename(out), cfg_extra))
            res = run_tlc(scr, trace_module, cfg, workers=1, timeout=3000, deadlock=False,
                          spec_files=[out], tag="b%d" % k, jvm=["-Xmx3g"])
            pr = parse_bad(res.out, tag)
            if pr is None and res.error and res.error != "timeout":
                # TLC could not evaluate the specification on a later event (the driver derives its operations
                # from the answers of the real object; after a wrong answer they may leave the domain of the
                # specification's operators). The findings recorded before that are in the error state TLC prints.
                pr = parse_bad_in_error_state(res.out)
                if pr is not None:
                    log("  TLC stopped at event %d of batch %d on an operation outside the specification's domain; "
                        "%d finding(s) recorded before it are judged" % (pr[0], k, len(pr[1])))
                    res.error = None
            if pr is None or res.error or res.violated:
                raise Inconclusive("TLC failed on batch %d: %s\n%s" % (k, res.error or res.violated, res.out[-3000:]))
            if drift_tag:
                dr = parse_bad(res.out.replace('"%s",' % drift_tag, '"%s", 0,' % drift_tag), drift_tag)
                for (dt, di, dop, df) in (dr[1] if dr else []):
                    print("DRIFT property=%s %s: trace %d event %d: the implementation left the specification (%s {%s}); "
                          "not a verdict" % (prop, test, dt, di, dop, df), flush=True)
            if count_tag:
                m = re.search(r'"%s",\s*\[(.*?)\]' % count_tag, " ".join(res.out.split()))
                if m:
                    for kv in m.group(1).split(","):
                        a, v = kv.split("|->")
                        stats["tlc_" + a.strip()] = int(v)
            return b, out, stats, pr, res.distinct

        results = []
        with cf.ThreadPoolExecutor(max_workers=max_workers) as ex:
            for r in ex.map(one, list(enumerate(batches))):
                results.append(r)
        events = 0
        nviol = 0
        stats_all = {}
        sample = []
        for b, out, stats, (n, bad), distinct in results:
            events += n
            for k, v in stats.items():
                stats_all[k] = stats_all.get(k, 0) + v
            if not sample:
                with open(out) as fh:
                    for i, l in enumerate(fh):
                        if i >= samples_keep:
                            break
                        sample.append(json.loads(l))
            for (t, i, op, fields) in bad:
                if owns is not None and not owns(op, fields):
                    continue
                nviol += 1
                lines = []
                with open(out) as fh:
                    for l in fh:
                        if l.startswith('{"t":%d,' % t):
                            lines.append(json.loads(l))
                pos = next((k for k, x in enumerate(lines) if x.get("i") == i), min(i, len(lines) - 1))
                rp = save_replay(prop, "%s-s%d-t%d.json" % (test, seed, t),
                                 {"kind": test, "seed": seed, "batch": b, "trace": t, "at": i, "op": op,
                                  "fields": fields, "events": lines[max(0, pos - 25):pos + 1]})
                if sig_ctx:
                    sig = sig_ctx(op, fields, lines, i)
                else:
                    sig = sig_of(op, fields) if sig_of else "%s:%s" % (prop, op)
                verdict.violation(sig, "%s (trace %d step %d, op %s, differing: {%s})" % (what, t, i, op, fields), rp)
        # exhaustive model checking of the specification's own invariants
        states = transitions = 0
        mc_runs = []
        if not replay_path:
            for (module, cfgname, timeout, workers) in mc:
                res = run_tlc(scr, module, os.path.join(SPEC, cfgname), workers=workers, timeout=timeout,
                              tag="mc." + cfgname, jvm=["-Xmx8g"], deadlock=mc_deadlock)
                if res.error == "timeout":
                    mc_runs.append({"cfg": cfgname, "distinct": res.distinct, "generated": res.generated,
                                    "complete": False, "wall_s": round(res.wall, 1)})
                elif res.error or res.violated:
                    raise Inconclusive("model checking of %s/%s failed: %s (a counterexample in the model alone "
                                       "means the specification is wrong, never a violation of the code)\n%s"
                                       % (module, cfgname, res.error or res.violated, res.out[-2500:]))
                else:
                    mc_runs.append({"cfg": cfgname, "distinct": res.distinct, "generated": res.generated,
                                    "depth": res.depth, "complete": True, "wall_s": round(res.wall, 1)})
                states += res.distinct
                transitions += res.generated
            for (module, cfgname, inv) in mc_expect_violation:
                # vacuity checks: a deliberately broken model / an "everything is fine" invariant
                # MUST be refuted by TLC, otherwise the specification constrains nothing
                res = run_tlc(scr, module, os.path.join(SPEC, cfgname), workers=4, timeout=300,
                              tag="mcv." + cfgname, jvm=["-Xmx4g"], deadlock=mc_deadlock)
                if res.violated != inv:
                    raise Inconclusive("vacuity check %s/%s: expected TLC to refute %s, got %s %s"
                                       % (module, cfgname, inv, res.violated, res.error))
                mc_runs.append({"cfg": cfgname, "expected_counterexample": inv, "found": True,
                                "wall_s": round(res.wall, 1)})
        traces = sum(b.get("traces", 1) for b, *_ in results)
        if traces_of:
            traces = traces_of(stats_all, traces)
        cov = {
            "states": max(1, states + events),
            "transitions": max(1, transitions + events),
            "traces_validated_against_impl": traces - len({(id(b), x[0]) for b, _, _, (n, bad), _ in results for x in bad}),
            "samples": sample,
            "evaluations": events,
            "distinct_nontrivial": traces,
            "rule": "one evaluation = one operation of the real object whose observable results TLC compared with "
                    "the specification; distinct_nontrivial = distinct seeded operation sequences",
            "driver_op_counts": stats_all,
            "tlc_exhaustive": mc_runs,
            "exhaustive": False,
        }
        if extra_cov:
            cov.update(extra_cov(stats_all))
        if merge_into_existing:
            # second engine of a property whose first engine already wrote the evidence file
            p = os.path.join(common.OUTDIR, "evidence", prop + ".json")
            with open(p) as fh:
                ev = json.load(fh)
            c0 = ev["coverage"]
            c0["states"] += cov["states"]
            c0["transitions"] += cov["transitions"]
            c0["traces_validated_against_impl"] += cov["traces_validated_against_impl"]
            c0["evaluations"] += cov["evaluations"]
            c0["distinct_nontrivial"] += cov["distinct_nontrivial"]
            c0["samples"] += cov["samples"][:3]
            c0.setdefault("extra_engines", []).append(
                {"driver": test, "trace_module": trace_module, "driver_op_counts": stats_all,
                 "tlc_exhaustive": mc_runs, "events": events, "traces": traces})
            write_evidence(prop, tier, seed, ev["level"], c0, ev["wall_s"] + time.time() - t0,
                           ev.get("violations", 0) + nviol, assumptions=ev.get("assumptions", []) + list(assumptions))
        else:
            write_evidence(prop, tier, seed, level, cov, time.time() - t0, nviol, assumptions=list(assumptions))
        return verdict.finish()
    finally:
        scr.cleanup()
