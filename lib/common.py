"""Shared runner machinery: scratch dirs, overlay builds of /repo, TLC, evidence, verdicts.

Everything a registered check does goes through here so that the exit-code / VIOLATION /
KNOWN-FINDING contract (DESIGN.md section 2.4 and 8) is implemented once.
"""
import json
import os
import re
import shutil
import subprocess
import sys
import time

VERIF = os.path.dirname(os.path.dirname(os.path.abspath(__file__)))
REPO = os.environ.get("VERIF_REPO", "/repo")
# development aid (seed matrix runs against scratch worktrees): evidence and replays go elsewhere so
# that the committed ones always describe /repo itself
OUTDIR = os.environ.get("VERIF_OUTDIR", VERIF)
SPEC = os.path.join(VERIF, "spec")
HARNESS = os.path.join(VERIF, "harness")
TLA_JAR = "/opt/veriftools/tla/tla2tools.jar"
COMMUNITY = "/opt/veriftools/tla/CommunityModules-deps.jar"

GOENV = {
    "GOFLAGS": "-mod=mod",
    "GOPROXY": "off",
    "GOSUMDB": "off",
    "GOTOOLCHAIN": "local",
}


class Inconclusive(Exception):
    """Internal error / inconclusive run: exit code 2, never a violation."""


def log(*a):
    print(*a, flush=True)


class Scratch:
    def __init__(self, tag):
        base = os.environ.get("VERIF_SCRATCH", "/var/tmp")
        self.dir = os.path.join(base, "verif.%s.%d" % (tag, os.getpid()))
        shutil.rmtree(self.dir, ignore_errors=True)
        os.makedirs(self.dir)

    def path(self, *p):
        d = os.path.join(self.dir, *p)
        os.makedirs(os.path.dirname(d), exist_ok=True)
        return d

    def cleanup(self):
        if os.environ.get("VERIF_KEEP"):
            log("scratch kept at", self.dir)
            return
        shutil.rmtree(self.dir, ignore_errors=True)


def env_seed():
    try:
        return int(os.environ.get("VERIF_SEED", "1"))
    except ValueError:
        return 1


# --------------------------------------------------------------------------- go builds

# harness directory -> package directory (relative to /repo) it is overlaid into
OVERLAY_PKGS = {
    "raft": "internal/raft",
    "raftexport": "internal/raft",
    "logdb": "internal/logdb",
    "rsm": "internal/rsm",
    "transport": "internal/transport",
    "tan": "internal/tan",
    "root": ".",
    "tools": "tools",
    "server": "internal/server",
}


def overlay_json(scr, harness_dirs, extra_replace=None):
    """Build the -overlay file injecting /verif/harness/<d>/*.go into /repo packages.

    File names are prefixed zz_verif_ so they can never collide with repository files.
    """
    rep = {}
    for d in harness_dirs:
        pkg = OVERLAY_PKGS[d]
        src = os.path.join(HARNESS, d)
        for f in sorted(os.listdir(src)):
            if not f.endswith(".go"):
                continue
            rep[os.path.join(REPO, pkg, "zz_verif_" + f)] = os.path.join(src, f)
    if extra_replace:
        rep.update(extra_replace)
    p = scr.path("overlay.json")
    with open(p, "w") as fh:
        json.dump({"Replace": rep}, fh)
    return p


def go_env():
    e = dict(os.environ)
    e.update(GOENV)
    return e


def build_test_binary(scr, harness_dirs, pkg_dir, name, race=False, extra_replace=None):
    """go test -c of one /repo package with the harness overlaid; returns path of the binary.

    A build failure is inconclusive (exit 2): e.g. a change renamed an unexported field the
    projection reads. It is never reported as a violation.
    """
    ov = overlay_json(scr, harness_dirs, extra_replace)
    out = scr.path("bin", name + ".test")
    cmd = ["go", "test", "-c", "-vet=off", "-tags", "verif", "-overlay", ov, "-o", out]
    if race:
        cmd.append("-race")
    cmd.append("./" + pkg_dir if pkg_dir != "." else ".")
    t0 = time.time()
    r = subprocess.run(cmd, cwd=REPO, env=go_env(), stdout=subprocess.PIPE,
                       stderr=subprocess.STDOUT, text=True)
    if r.returncode != 0 or not os.path.exists(out):
        raise Inconclusive("go build of %s failed:\n%s" % (pkg_dir, r.stdout[-4000:]))
    log("built %s in %.1fs" % (name, time.time() - t0))
    return out


def run_test_binary(binary, test_regex, env=None, cwd=None, timeout=3600, args=None):
    e = go_env()
    if env:
        e.update({k: str(v) for k, v in env.items()})
    cmd = [binary, "-test.run", test_regex, "-test.timeout", "%ds" % timeout, "-test.count", "1"]
    if args:
        cmd += args
    r = subprocess.run(cmd, cwd=cwd or os.path.dirname(binary), env=e,
                       stdout=subprocess.PIPE, stderr=subprocess.STDOUT, text=True,
                       timeout=timeout + 60)
    return r.returncode, r.stdout


# --------------------------------------------------------------------------- TLC

class TLCResult:
    def __init__(self):
        self.rc = None
        self.out = ""
        self.generated = 0
        self.distinct = 0
        self.depth = 0
        self.violated = None  # name of the violated invariant/property, if any
        self.error = None
        self.wall = 0.0
        self.prints = []


_re_states = re.compile(r"(\d+) states generated, (\d+) distinct states found")
_re_depth = re.compile(r"The depth of the complete state graph search is (\d+)")
_re_inv = re.compile(r"Invariant (\S+) is violated")
_re_prop = re.compile(r"(?:Action property|Temporal property|Property) (\S+) (?:is|was) violated")


def run_tlc(scr, module, cfg, workers=1, timeout=600, simulate=None, depth=None, seed=None,
            extra=None, spec_files=None, jvm=None, deadlock=True, dump_trace=None,
            tag=None):
    """Run TLC on spec/<module>.tla with config cfg (a path) in a scratch copy of spec/.

    Returns a TLCResult. Timeouts / JVM failures raise Inconclusive.
    """
    tag = tag or (module + "." + os.path.basename(cfg))
    wd = scr.path("tlc", tag, "x")
    wd = os.path.dirname(wd)
    for f in os.listdir(SPEC):
        if f.endswith(".tla"):
            shutil.copy(os.path.join(SPEC, f), wd)
    for f in (spec_files or []):
        shutil.copy(f, wd)
    shutil.copy(cfg, os.path.join(wd, module + ".cfg")) if os.path.abspath(cfg) != os.path.join(wd, module + ".cfg") else None
    meta = os.path.join(wd, "meta")
    cmd = ["java", "-XX:+UseParallelGC", "-Xss64m"]
    cmd += jvm or ["-Xmx12g"]
    cmd += ["-cp", TLA_JAR + ":" + COMMUNITY, "tlc2.TLC", "-metadir", meta, "-config",
            module + ".cfg", "-workers", str(workers), "-noGenerateSpecTE"]
    if not deadlock:
        cmd.append("-deadlock")
    if simulate:
        cmd += ["-simulate", simulate]
    if depth:
        cmd += ["-depth", str(depth)]
    if seed is not None:
        cmd += ["-seed", str(seed)]
    if dump_trace:
        cmd += ["-dumpTrace", "json", dump_trace]
    if extra:
        cmd += extra
    cmd.append(module + ".tla")
    res = TLCResult()
    t0 = time.time()
    try:
        r = subprocess.run(cmd, cwd=wd, stdout=subprocess.PIPE, stderr=subprocess.STDOUT,
                           text=True, timeout=timeout)
    except subprocess.TimeoutExpired as ex:
        subprocess.run(["pkill", "-f", meta], check=False)
        res.wall = time.time() - t0
        res.out = (ex.stdout or b"").decode() if isinstance(ex.stdout, bytes) else (ex.stdout or "")
        res.error = "timeout"
        for m in _re_states.finditer(res.out):
            res.generated, res.distinct = int(m.group(1)), int(m.group(2))
        return res
    res.wall = time.time() - t0
    res.rc = r.returncode
    res.out = r.stdout
    for m in _re_states.finditer(r.stdout):
        res.generated, res.distinct = int(m.group(1)), int(m.group(2))
    m = _re_depth.search(r.stdout)
    if m:
        res.depth = int(m.group(1))
    m = _re_inv.search(r.stdout) or _re_prop.search(r.stdout)
    if m:
        res.violated = m.group(1)
    elif "Deadlock reached" in r.stdout:
        res.violated = "Deadlock"
    if r.returncode != 0 and res.violated is None:
        # parse / semantic / runtime evaluation errors
        res.error = "tlc rc=%d" % r.returncode
    res.prints = [l for l in r.stdout.splitlines() if l.startswith('"') or l.startswith("<<")]
    shutil.rmtree(meta, ignore_errors=True)
    return res


def tlc_classpath():
    return TLA_JAR + ":" + COMMUNITY


# --------------------------------------------------------------------------- findings / evidence

def load_known_findings():
    p = os.path.join(VERIF, "known_findings.json")
    if not os.path.exists(p):
        return []
    with open(p) as fh:
        return json.load(fh).get("findings", [])


class Verdict:
    """Collects violations (each with a structural signature) and decides the exit code."""

    def __init__(self, prop):
        self.prop = prop
        self.violations = []   # (signature, what, replay_path)
        self.known_hit = []
        self.known = [f for f in load_known_findings()
                      if f.get("property") == prop and f.get("status") == "known"]

    def violation(self, signature, what, replay):
        for k in self.known:
            if k.get("signature") == signature:
                if signature not in [s for s, _ in self.known_hit]:
                    self.known_hit.append((signature, k.get("what", what)))
                return
        self.violations.append((signature, what, replay))

    def finish(self):
        for sig, what in self.known_hit:
            log("KNOWN-FINDING: property=%s %s [%s]" % (self.prop, what, sig))
        seen = set()
        for sig, what, replay in self.violations:
            if (sig, replay) in seen:
                continue
            seen.add((sig, replay))
            log("VIOLATION property=%s replay=%s" % (self.prop, replay))
            log("  what: %s [%s]" % (what, sig))
        return 1 if self.violations else 0


def save_replay(prop, name, content):
    d = os.path.join(OUTDIR, "replays", prop)
    os.makedirs(d, exist_ok=True)
    p = os.path.join(d, name)
    with open(p, "w") as fh:
        if isinstance(content, (dict, list)):
            json.dump(content, fh, indent=1)
        else:
            fh.write(content)
    return p


def write_evidence(prop, tier, seed, level, coverage, wall, violations, assumptions=None):
    d = os.path.join(OUTDIR, "evidence")
    os.makedirs(d, exist_ok=True)
    ev = {
        "property_id": prop,
        "tier": tier,
        "seed": int(seed),
        "level": level,
        "coverage": coverage,
        "assumptions": assumptions or [],
        "wall_s": round(wall, 2),
        "violations": int(violations),
    }
    with open(os.path.join(d, prop + ".json"), "w") as fh:
        json.dump(ev, fh, indent=1, sort_keys=True)
    return ev


def main_wrapper(fn):
    """Run a check function with the exit-code contract."""
    try:
        rc = fn()
    except Inconclusive as ex:
        log("INCONCLUSIVE:", ex)
        rc = 2
    except subprocess.TimeoutExpired as ex:
        log("INCONCLUSIVE: timeout", ex)
        rc = 2
    sys.exit(rc)
