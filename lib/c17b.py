"""C17, supporting mechanisms: quiesce (quiesce.go) and the in-memory rate limiter
(internal/server/rate.go) as sequential objects: TLC model checking of the resume / release lemmas
(MCQuiesce, MCRateLimit) + trace evaluation of the real objects."""
from tvcheck import tv_run


def _env(b, seed, out):
    return {"VERIF_OUT": out, "VERIF_SEED": seed, "VERIF_TRACES": b["traces"], "VERIF_FIRST": b["first"],
            "VERIF_STEPS": b["steps"]}


def _batches(tier):
    n, tr, st = (4, 50, 400) if tier == "quick" else (16, 200, 600)
    return [{"first": k * tr, "traces": tr, "steps": st} for k in range(n)]


def check_quiesce(prop, tier, replay):
    return tv_run(prop, tier, replay, harness_dirs=["root"], pkg=".", test="TestVerifQssim",
                  trace_module="QuiesceTrace", tag="QS-REPORT", drift_tag="QS-DRIFT", batches=_batches(tier),
                  env_of=_env, mc=[("MCQuiesce", "MC_Quiesce.cfg", 600, 8)], mc_deadlock=False,
                  level="model_checking", build_name="nhsim", merge_into_existing=True,
                  what="quiesce: a shard did not resume on activity / did not go quiescent when idle",
                  sig_of=lambda op, f: "C17:quiesce:%s" % op,
                  assumptions=["quiesce (quiesce.go) is decided as a sequential object: real quiesceState vs "
                               "Quiesce.tla, lemmas Resumes / HeartbeatOK / GoesIdle / Announced / NoPingPong "
                               "model-checked by MCQuiesce"])


def check_ratelimit(prop, tier, replay):
    return tv_run(prop, tier, replay, harness_dirs=["server"], pkg="internal/server", test="TestVerifRlsim",
                  trace_module="RateLimitTrace", tag="RL-REPORT", drift_tag="RL-DRIFT", batches=_batches(tier),
                  env_of=_env, mc=[("MCRateLimit", "MC_RateLimit.cfg", 600, 8)], mc_deadlock=False,
                  level="model_checking", build_name="rlsim", merge_into_existing=True,
                  what="rate limiter: limiting started without cause or was not released",
                  sig_of=lambda op, f: "C17:ratelimit:%s" % op,
                  assumptions=["the in-memory rate limiter (internal/server/rate.go) is decided as a sequential "
                               "object: real InMemRateLimiter vs RateLimit.tla, lemmas OnlyWhenLarge / Releases / "
                               "GcBounded model-checked by MCRateLimit"])


def check_msgqueue(prop, tier, replay):
    return tv_run(prop, tier, replay, harness_dirs=["server"], pkg="internal/server", test="TestVerifMqsim",
                  trace_module="MsgQueueTrace", tag="MQ-REPORT", batches=_batches(tier),
                  env_of=_env, mc=[("MCMsgQueue", "MC_MsgQueue.cfg", 900, 8)], mc_deadlock=False,
                  level="model_checking", build_name="rlsim", merge_into_existing=True,
                  what="message queue of a replica: an accepted message was lost, duplicated, handed over early or out of order",
                  sig_of=lambda op, f: "C17:msgqueue:%s" % op,
                  assumptions=["the message queue between transport / NodeHost and the step worker (internal/server/message.go) "
                               "is decided as a sequential object: real MessageQueue vs MsgQueue.tla; MCMsgQueue checks "
                               "ExactlyOnce / DueHandedOver / NoEarlyDelivery exhaustively for a small queue"])


def check_sendqueue(prop, tier, replay):
    n, tr, st = (8, 6, 40) if tier == "quick" else (16, 20, 60)
    batches = [{"first": k * tr, "traces": tr, "steps": st} for k in range(n)]
    return tv_run(prop, tier, replay, harness_dirs=["transport"], pkg="internal/transport", test="TestVerifTqsim",
                  trace_module="SendQueueTrace", tag="TQ-REPORT", count_tag="TQ-COUNT", batches=batches,
                  env_of=_env, mc=[("MCSendQueue", "MC_SendQueue.cfg", 300, 4)], mc_deadlock=False,
                  mc_expect_violation=[("MCSendQueue", "MC_SendQueue_abl.cfg", "Inv")],
                  level="model_checking", build_name="cksim", merge_into_existing=True, max_workers=8,
                  what="sending side of the transport: a message reached the connection that was never accepted, twice or out "
                       "of order, or nothing got through in the fair period after the connection was healed",
                  sig_of=lambda op, f: "C17:sendqueue:%s" % op,
                  assumptions=["the per-target send queue of the transport (internal/transport/transport.go send / connectAndProcess / "
                               "processMessages) is decided by SendQueue.tla: MCSendQueue checks that a registered queue always has a "
                               "worker (ablation refuted); the real Transport over the in-package NOOP connection (connect and send "
                               "failures on request, idle timeout lowered to 25 ms) is judged on what reaches the connection and on "
                               "bounded progress after the heal; wall-clock timing never decides a verdict"])


def check_snapshotsend(prop, tier, replay):
    n, tr, st = (6, 20, 30) if tier == "quick" else (16, 60, 40)
    batches = [{"first": k * tr, "traces": tr, "steps": st} for k in range(n)]
    return tv_run(prop, tier, replay, harness_dirs=["transport"], pkg="internal/transport", test="TestVerifTssim",
                  trace_module="SnapshotSendTrace", tag="TS-REPORT", count_tag="TS-COUNT", batches=batches,
                  cfg_extra="  Ablate = {}",
                  env_of=_env, mc=[("MCSnapshotSend", "MC_SnapshotSend.cfg", 300, 4)], mc_deadlock=False,
                  mc_expect_violation=[("MCSnapshotSend", "MC_SnapshotSend_abl_no_report_on_connect_failure.cfg", "Inv"),
                                       ("MCSnapshotSend", "MC_SnapshotSend_abl_success_on_poison.cfg", "Inv")],
                  level="model_checking", build_name="cksim", merge_into_existing=True, max_workers=8, panic_ok=True,
                  what="sending side of a snapshot transfer: a request did not end in exactly one truthful report to raft, "
                       "the producer of a stream was left hanging, or the snapshot's reference was not given back",
                  sig_of=lambda op, f: "C17:snapshotsend:%s" % op,
                  assumptions=["snapshot transfers as the sender sees them (internal/transport/snapshot.go, job.go) are decided by "
                               "SnapshotSend.tla: MCSnapshotSend checks exactly-one / truthful report for every interleaving of "
                               "producer, job and connection state (two ablations refuted); the real Transport over the in-package "
                               "NOOP transport is driven with seeded faults (unknown target, refused connection, k-th chunk fails, "
                               "producer gives up) for witness snapshots (file path) and streams"])
