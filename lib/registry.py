"""property id -> check function(prop, tier, replay_path) -> exit code"""
import raftfamily
import c19

CHECKS = {}
CHECKS["RAFT"] = raftfamily.check_all
for _p in ("C02", "C03", "C06", "C07", "C18"):
    CHECKS[_p] = raftfamily.check
CHECKS["C19"] = c19.check
