"""property id -> check function(prop, tier, replay_path) -> exit code"""
import raftfamily
import c19
import rsmchecks
import logstore
import c12
import c15
import c14
import nhfamily
import c17b
import c11b

CHECKS = {}
CHECKS["RAFT"] = raftfamily.check_all
for _p in ("C02", "C03", "C06", "C07", "C18", "C17"):
    CHECKS[_p] = raftfamily.check
CHECKS["C19"] = c19.check
CHECKS["C05"] = rsmchecks.check_c05


def _c08(prop, tier, replay_path):
    """C08 = snapshot + suffix == replay (RSM.tla via smsim) + compaction covered by a snapshot (nhsim snap)"""
    import json
    if replay_path:
        with open(replay_path) as fh:
            kind = json.load(fh).get("kind")
        if kind == "TestVerifNhsim":
            with open(replay_path) as fh:
                mode = json.load(fh).get("batch", {}).get("mode")
            if mode == "member":
                return nhfamily.check_c08_joiners(prop, tier, replay_path)
            return nhfamily.check_c08_compaction(prop, tier, replay_path)
        if kind == "TestVerifSpsim":
            return c11b.check_jobs(prop, tier, replay_path)
        if kind == "TestVerifOdsim":
            return rsmchecks.check_c08_ondisk(prop, tier, replay_path)
        return rsmchecks.check_c08(prop, tier, replay_path)
    a = rsmchecks.check_c08(prop, tier, None)
    b = nhfamily.check_c08_compaction(prop, tier, None)
    c = nhfamily.check_c08_joiners(prop, tier, None)
    d = c11b.check_jobs(prop, tier, None)
    e = rsmchecks.check_c08_ondisk(prop, tier, None)
    return 1 if 1 in (a, b, c, d, e) else max(a, b, c, d, e)


CHECKS["C08"] = _c08



def _c12(prop, tier, replay_path):
    """C12 = the request tables (Requests.tla via rqsim) + request handles of real NodeHosts under faults (nhsim)"""
    import json
    if replay_path:
        with open(replay_path) as fh:
            kind = json.load(fh).get("kind")
        if kind == "TestVerifNhsim":
            return nhfamily.check_c12_hosts(prop, tier, replay_path)
        if kind == "TestVerifQqsim":
            return c12.check_queues(prop, tier, replay_path)
        return c12.check(prop, tier, replay_path)
    a = c12.check(prop, tier, None)
    q = c12.check_queues(prop, tier, None)
    b = nhfamily.check_c12_hosts(prop, tier, None)
    return 1 if 1 in (a, q, b) else max(a, q, b)


CHECKS["C12"] = _c12
CHECKS["C15"] = c15.check
CHECKS["C14"] = c14.check
CHECKS["C01"] = nhfamily.check_c01
CHECKS["C04"] = nhfamily.check_c04


def _c11(prop, tier, replay_path):
    """C11 = contract observed on real NodeHost clusters (nhsim smc) + life cycle schedules from Lifecycle.tla
    replayed on the real engine (lcsim)"""
    import json
    if replay_path:
        with open(replay_path) as fh:
            kind = json.load(fh).get("kind")
        if kind == "TestVerifLcsim":
            return c11b.check(prop, tier, replay_path)
        if kind == "TestVerifSpsim":
            return c11b.check_jobs(prop, tier, replay_path)
        return nhfamily.check_c11(prop, tier, replay_path)
    a = nhfamily.check_c11(prop, tier, None)
    b = c11b.check(prop, tier, None)
    c = c11b.check_jobs(prop, tier, None)
    return 1 if 1 in (a, b, c) else max(a, b, c)


CHECKS["C11"] = _c11


def _c16(prop, tier, replay_path):
    """C16 = snapshot directories of real NodeHosts under power loss (nhsim snap) + received snapshots with
    external files on the real chunk receiver (cksim)"""
    import json
    if replay_path:
        with open(replay_path) as fh:
            kind = json.load(fh).get("kind")
        if kind == "TestVerifCksim":
            return c15.check_c16_received(prop, tier, replay_path)
        if kind == "TestVerifSdsim":
            return nhfamily.check_c16_snapshotter(prop, tier, replay_path)
        return nhfamily.check_c16(prop, tier, replay_path)
    a = nhfamily.check_c16(prop, tier, None)
    b = c15.check_c16_received(prop, tier, None)
    c = nhfamily.check_c16_snapshotter(prop, tier, None)
    return 1 if 1 in (a, b, c) else max(a, b, c)


CHECKS["C16"] = _c16
CHECKS["C20"] = nhfamily.check_c20
CHECKS["C09"] = logstore.check_c09
CHECKS["C10"] = logstore.check_c10


def _c07(prop, tier, replay_path):
    """C07 = protocol part (Raft.tla via rsim) + rule table (RSM.tla via smsim on the real membership code)"""
    import json
    if replay_path:
        with open(replay_path) as fh:
            kind = json.load(fh).get("kind")
        if kind in ("rsim", "xsim"):
            return raftfamily.check(prop, tier, replay_path)
        if kind == "TestVerifNhsim":
            return nhfamily.check_c07_nodes(prop, tier, replay_path)
        return rsmchecks.run(prop, tier, replay_path, [])
    a = raftfamily.check(prop, tier, None)
    b = rsmchecks.check_c07_rules(prop, tier, None)
    c = nhfamily.check_c07_nodes(prop, tier, None)
    return 1 if 1 in (a, b, c) else max(a, b, c)


CHECKS["C07"] = _c07


def _c17(prop, tier, replay_path):
    """C17 = bounded progress of the protocol (rsim) + quiesce and rate limiter as sequential objects"""
    import json
    if replay_path:
        with open(replay_path) as fh:
            kind = json.load(fh).get("kind")
        if kind == "TestVerifQssim":
            return c17b.check_quiesce(prop, tier, replay_path)
        if kind == "TestVerifRlsim":
            return c17b.check_ratelimit(prop, tier, replay_path)
        if kind == "TestVerifMqsim":
            return c17b.check_msgqueue(prop, tier, replay_path)
        if kind == "TestVerifTqsim":
            return c17b.check_sendqueue(prop, tier, replay_path)
        if kind == "TestVerifTssim":
            return c17b.check_snapshotsend(prop, tier, replay_path)
        if kind == "TestVerifNhsim":
            with open(replay_path) as fh:
                mode = json.load(fh).get("batch", {}).get("mode")
            if mode == "catchup":
                return nhfamily.check_c17_catchup(prop, tier, replay_path)
            return nhfamily.check_c17_hosts(prop, tier, replay_path)
        return raftfamily.check(prop, tier, replay_path)
    rs = [raftfamily.check(prop, tier, None), c17b.check_quiesce(prop, tier, None), c17b.check_ratelimit(prop, tier, None),
          c17b.check_msgqueue(prop, tier, None), c17b.check_sendqueue(prop, tier, None), c17b.check_snapshotsend(prop, tier, None),
          nhfamily.check_c17_hosts(prop, tier, None),
          nhfamily.check_c17_catchup(prop, tier, None)]
    return 1 if 1 in rs else max(rs)


CHECKS["C17"] = _c17


def _c03(prop, tier, replay_path):
    """C03 = protocol (rsim + MCRaft) + votes / leaders of real NodeHost clusters across power losses (nhsim)"""
    import json
    if replay_path:
        with open(replay_path) as fh:
            kind = json.load(fh).get("kind")
        if kind == "TestVerifNhsim":
            with open(replay_path) as fh:
                mode = json.load(fh).get("batch", {}).get("mode")
            if mode == "staleview":
                return nhfamily.check_c03_staleview(prop, tier, replay_path)
            return nhfamily.check_c03_nodes(prop, tier, replay_path)
        return raftfamily.check(prop, tier, replay_path)
    a = raftfamily.check(prop, tier, None)
    b = nhfamily.check_c03_nodes(prop, tier, None)
    c = nhfamily.check_c03_staleview(prop, tier, None)
    return 1 if 1 in (a, b, c) else max(a, b, c)


CHECKS["C03"] = _c03
