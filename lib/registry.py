"""property id -> check function(prop, tier, replay_path) -> exit code"""
import raftfamily
import c19
import rsmchecks
import logstore
import c12
import c15
import c14
import nhfamily

CHECKS = {}
CHECKS["RAFT"] = raftfamily.check_all
for _p in ("C02", "C03", "C06", "C07", "C18", "C17"):
    CHECKS[_p] = raftfamily.check
CHECKS["C19"] = c19.check
CHECKS["C05"] = rsmchecks.check_c05
CHECKS["C08"] = rsmchecks.check_c08

CHECKS["C12"] = c12.check
CHECKS["C15"] = c15.check
CHECKS["C14"] = c14.check
CHECKS["C01"] = nhfamily.check_c01
CHECKS["C04"] = nhfamily.check_c04
CHECKS["C11"] = nhfamily.check_c11
CHECKS["C16"] = nhfamily.check_c16
CHECKS["C20"] = nhfamily.check_c20
CHECKS["C09"] = logstore.check_c09
CHECKS["C10"] = logstore.check_c10


def _c07(prop, tier, replay_path):
    """C07 = protocol part (Raft.tla via rsim) + rule table (RSM.tla via smsim on the real membership code)"""
    import json
    if replay_path:
        with open(replay_path) as fh:
            kind = json.load(fh).get("kind")
        if kind == "rsim":
            return raftfamily.check(prop, tier, replay_path)
        return rsmchecks.run(prop, tier, replay_path, [])
    a = raftfamily.check(prop, tier, None)
    b = rsmchecks.check_c07_rules(prop, tier, None)
    return 1 if 1 in (a, b) else max(a, b)


CHECKS["C07"] = _c07
