"""nhsim family: C01 (linearizable client histories), C04 (persist-before-send, crash recovery),
C11 (state machine contract).  One driver (harness/root/nhsim_*_test.go, real NodeHosts in one
process), one event stream, three TLA+ trace specifications."""
from tvcheck import tv_run

HARNESS = ["root"]

TIERS = {
    "quick": dict(batches=12, traces=6, dur=1200),
    "thorough": dict(batches=32, traces=20, dur=1500),
}


def _batches(tier, mode, stores=(None,)):
    p = TIERS[tier]
    out = []
    for k in range(p["batches"]):
        out.append({"first": k * p["traces"], "traces": p["traces"], "mode": mode, "dur": p["dur"],
                    "store": stores[k % len(stores)]})
    return out


def _env(b, seed, out):
    e = {"VERIF_OUT": out, "VERIF_SEED": seed, "VERIF_TRACES": b["traces"], "VERIF_FIRST": b["first"],
         "VERIF_MODE": b["mode"], "VERIF_DURMS": b["dur"]}
    if b.get("store"):
        e["VERIF_STORE"] = b["store"]
    return e


def _hist(stats, traces):
    return traces


def check_c01(prop, tier, replay):
    mc = [("MCClientHistory", "MC_ClientHistory.cfg", 600, 8)]
    if tier == "thorough":
        mc += [("MCClientHistory", "MC_ClientHistory_big.cfg", 1800, 12),
               ("MCClientHistory", "MC_ClientHistory_2keys.cfg", 1800, 12)]
    return tv_run(prop, tier, replay, harness_dirs=HARNESS, pkg=".", test="TestVerifNhsim",
                  trace_module="ClientHistoryTrace", tag="CH-REPORT", count_tag="CH-COUNT",
                  batches=_batches(tier, "hist"), env_of=_env, mc=mc, mc_deadlock=False,
                  mc_expect_violation=[("MCClientHistory", "MC_ClientHistory_vacuity.cfg", "AllLinearizable")],
                  level="model_checking", stats_tag="NHSTATS", panic_ok=True, max_workers=8,
                  build_name="nhsim",
                  what="client history of a shard is not linearizable (or a replica panicked)",
                  sig_of=lambda op, f: "C01:%s" % op,
                  assumptions=[
                      "the network wrapper never duplicates or fabricates a message (premise of the property)",
                      "a response produced by a host after its crash instant is treated as never received",
                      "histories are samples of real goroutine schedules; TLC decides each history completely",
                  ])


def check_c04(prop, tier, replay):
    mc = [("MCPipeline", "MC_Pipeline.cfg", 600, 8), ("MCPipeline", "MC_Pipeline_solo.cfg", 600, 8)]
    return tv_run(prop, tier, replay, harness_dirs=HARNESS, pkg=".", test="TestVerifNhsim",
                  trace_module="PipelineTrace", tag="PL-REPORT", drift_tag="PL-DRIFT", count_tag="PL-COUNT",
                  batches=_batches(tier, "pipe", stores=(None, "tan", None, "pebble")), env_of=_env, mc=mc,
                  mc_expect_violation=[("MCPipeline", "MC_Pipeline_mutated.cfg", "PersistBeforeSend"),
                                       ("MCPipeline", "MC_Pipeline_applyfirst.cfg", "ApplyNotAheadOfSave"),
                                       ("MCPipeline", "MC_Pipeline_solo_early.cfg", "CommitToldIsDurable")],
                  level="model_checking", stats_tag="NHSTATS", panic_ok=True, max_workers=8,
                  build_name="nhsim",
                  what="acknowledged state was not durable (message left before its state was saved, restart lost "
                       "term/vote/acknowledged entries, or a completed proposal disappeared)",
                  sig_of=lambda op, f: "C04:%s" % op,
                  assumptions=[
                      "crash = one instant at which the host's strict in-memory file system stops honouring syncs "
                      "and its network is cut; torn writes inside one Write call are not modelled",
                      "Save events are stamped after SaveRaftState returned, Send events when the batch reaches "
                      "ITransport: observation skew can only hide, never invent, a save-before-send order",
                  ])


def check_c11(prop, tier, replay):
    return tv_run(prop, tier, replay, harness_dirs=HARNESS, pkg=".", test="TestVerifNhsim",
                  trace_module="SMContractTrace", tag="SM-REPORT", count_tag="SM-COUNT",
                  batches=_batches(tier, "smc"), env_of=_env, mc=(),
                  level="exploration", stats_tag="NHSTATS", panic_ok=True, max_workers=8,
                  build_name="nhsim",
                  what="user state machine contract violated (overlapping / out of order / repeated / missing "
                       "Update, call after Close) or a replica panicked",
                  sig_of=lambda op, f: "C11:%s" % op,
                  assumptions=[
                      "real goroutine schedules are sampled (perturbed by seeded sleeps inside the callbacks), "
                      "not enumerated; the TLA+ monitor decides each recorded schedule completely",
                  ])


def _snap_batches(tier):
    n, tr, rounds = (12, 4, 10) if tier == "quick" else (32, 10, 12)
    return [{"first": k * tr, "traces": tr, "mode": "snap", "dur": 0, "rounds": rounds,
             "store": (None, "tan")[k % 2] if k % 4 == 3 else None} for k in range(n)]


def _snap_env(b, seed, out):
    e = _env(b, seed, out)
    e["VERIF_ROUNDS"] = b["rounds"]
    return e


def check_c16(prop, tier, replay):
    mc = [("MCSnapshotDir", "MC_SnapshotDir.cfg", 600, 8)]
    if tier == "thorough":
        mc.append(("MCSnapshotDir", "MC_SnapshotDir_big.cfg", 1800, 12))
    return tv_run(prop, tier, replay, harness_dirs=HARNESS, pkg=".", test="TestVerifNhsim",
                  trace_module="SnapshotDirTrace", tag="SD-REPORT", count_tag="SD-COUNT",
                  batches=_snap_batches(tier), env_of=_snap_env, mc=mc, mc_deadlock=False,
                  mc_expect_violation=[("MCSnapshotDir", "MC_SnapshotDir_nosync.cfg", "CrashWorthy"),
                                       ("MCSnapshotDir", "MC_SnapshotDir_nodirsync.cfg", "CrashWorthy")],
                  level="fault_enumeration", stats_tag="NHSTATS", panic_ok=True, max_workers=8,
                  build_name="nhsim",
                  what="snapshot directory not crash-atomic (recorded snapshot not on disk, incomplete / temporary / "
                       "orphaned directory left after the start-up cleanup, replica older than its recorded snapshot, "
                       "or a panic during recovery)",
                  sig_of=lambda op, f: "C16:%s" % op,
                  assumptions=[
                      "power loss = strict in-memory file system of lni/vfs reset to its synced state at a seeded "
                      "file-system operation; a quirk of that file system (Rename leaves the new name in the node "
                      "after the reset) is repaired by the harness (nhFixNames)",
                      "snapshots with external files cannot be produced on the in-memory file system "
                      "(rsm.Files.PrepareFiles uses os.Link): that path is not exercised",
                  ])


def check_c16_snapshotter(prop, tier, replay):
    """third engine of C16: the real snapshotter on a strict in-memory file system, power lost at EVERY file-system
    operation of save / commit / shrink / compact / the start of a receive, replica ids on both sides of 9 and 15"""
    n, tr = (4, 2) if tier == "quick" else (8, 2)
    batches = [{"first": k * tr, "traces": tr} for k in range(n)]
    return tv_run(prop, tier, replay, harness_dirs=HARNESS, pkg=".", test="TestVerifSdsim",
                  trace_module="SnapshotDirTrace", tag="SD-REPORT", count_tag="SD-COUNT",
                  batches=batches, env_of=lambda b, seed, out: {"VERIF_OUT": out, "VERIF_FIRST": b["first"], "VERIF_TRACES": b["traces"]},
                  mc=(), level="fault_enumeration", panic_ok=True, max_workers=8, build_name="nhsim", merge_into_existing=True,
                  what="snapshot directory of the real snapshotter not crash-atomic: after a power loss at a file-system operation "
                       "of save / commit / shrink / compact / receive the recorded snapshot is not on disk and complete, or the "
                       "start-up cleanup left a temporary / orphaned directory behind",
                  sig_of=lambda op, f: "C16:snapshotter:%s" % op,
                  traces_of=lambda st, tr: tr,
                  assumptions=["component level: the real snapshotter / SSEnv / snapshot files with a recording log store on the strict "
                               "in-memory file system; every file-system operation of the second save+commit(+shrink)+compact and of "
                               "the first file of a received snapshot is a crash point (enumerated, not sampled); replica ids 3, 12, "
                               "27, 200 and senders 2, 11, 26"])


def check_c20(prop, tier, replay):
    n, tr = (8, 15) if tier == "quick" else (24, 60)
    batches = [{"first": k * tr, "traces": tr, "mode": "import", "dur": 0,
                "store": "tan" if k % 3 == 2 else None} for k in range(n)]
    return tv_run(prop, tier, replay, harness_dirs=HARNESS, pkg=".", test="TestVerifNhsim",
                  trace_module="ImportTrace", tag="IM-REPORT", count_tag="IM-COUNT",
                  batches=batches, env_of=_env, mc=[("MCImport", "MC_Import.cfg", 900, 8)], mc_deadlock=False,
                  mc_expect_violation=[("MCImport", "MC_Import_vacuity.cfg", "NothingAccepted")],
                  level="exploration", stats_tag="NHSTATS", panic_ok=True, max_workers=8,
                  build_name="nhsim",
                  what="quorum-loss repair by ImportSnapshot: wrong accept/refuse decision, refused import modified "
                       "existing data, or the restarted shard does not have the given members / exported state / a "
                       "leader / does not accept a proposal",
                  sig_of=lambda op, f: "C20:%s" % op,
                  assumptions=[
                      "histories, export points and member lists are seeded samples of the case table of Import.tla; "
                      "the accept/refuse rule itself is enumerated exhaustively by TLC (MCImport)",
                      "corruptions of the 1 KB header block of the snapshot file are outside this check (known finding "
                      "C14: the header block is not protected)",
                      "external snapshot files cannot be produced on the in-memory file system",
                  ])


def check_c08_compaction(prop, tier, replay):
    """second engine of C08: the compaction part of the property on real NodeHosts"""
    return tv_run(prop, tier, replay, harness_dirs=HARNESS, pkg=".", test="TestVerifNhsim",
                  trace_module="CompactionTrace", tag="CP-REPORT", count_tag="CP-COUNT",
                  batches=_snap_batches(tier), env_of=_snap_env, mc=(),
                  level="model_checking", stats_tag="NHSTATS", panic_ok=True, max_workers=8,
                  build_name="nhsim", merge_into_existing=True,
                  what="log compaction left a gap between the recorded snapshot and the log the replica restarts "
                       "from (or the restart panicked)",
                  sig_of=lambda op, f: "C08:%s" % op,
                  assumptions=["compaction part: real NodeHosts (nhsim snap scenarios: slow concurrent snapshot "
                               "saves under continuous writes with compaction overhead 0-2, power loss, restart); "
                               "what the log store returns at restart must continue the recorded snapshot"])


def check_c03_nodes(prop, tier, replay):
    """second engine of C03: votes and leaders as told to the world by real NodeHosts across power losses"""
    return tv_run(prop, tier, replay, harness_dirs=HARNESS, pkg=".", test="TestVerifNhsim",
                  trace_module="NodeSafetyTrace", tag="NS-REPORT", count_tag="NS-COUNT",
                  batches=_batches(tier, "pipe", stores=(None, "tan", None, "pebble")), env_of=_env, mc=(),
                  level="model_checking", stats_tag="NHSTATS", panic_ok=True, max_workers=8,
                  build_name="nhsim", merge_into_existing=True,
                  what="a replica of a real NodeHost cluster voted twice in a term (across restarts) or two replicas "
                       "were reported leader for the same term",
                  sig_of=lambda op, f: "C03:%s" % op,
                  assumptions=["NodeHost level: votes are read off the messages that reach the transport, leaders "
                               "off the RaftEventListener; power losses and restarts of the real node / engine / log "
                               "store stack lie in between (nhsim pipe scenarios, Pebble and Tan)"])


def check_c03_staleview(prop, tier, replay):
    """third engine of C03: a follower that is brought up to date by a snapshot holding two membership changes must
    not be electable with the membership it knew before (its snapshot worker is held between the recovery and
    RestoreRemotes by the verif gate of internal/rsm while the shard splits)"""
    n, tr = (1, 3) if tier == "quick" else (4, 6)
    batches = [{"first": k * tr, "traces": tr, "mode": "staleview", "dur": 0, "rounds": 0,
                "store": "tan" if k % 2 == 1 else None} for k in range(n)]
    return tv_run(prop, tier, replay, harness_dirs=HARNESS, pkg=".", test="TestVerifNhsim",
                  trace_module="NodeSafetyTrace", tag="NS-REPORT", count_tag="NS-COUNT",
                  batches=batches, env_of=_snap_env, mc=(),
                  level="model_checking", stats_tag="NHSTATS", panic_ok=True, max_workers=4,
                  build_name="nhsim", merge_into_existing=True,
                  what="two replicas of a real NodeHost cluster were reported leader for the same term (a replica was "
                       "elected with the membership it knew before the snapshot it had just recovered from)",
                  sig_of=lambda op, f: "C03:%s" % op,
                  assumptions=["directed schedule on real NodeHosts: the snapshot worker of the lagging replica is held at "
                               "the verif gate in rsm.StateMachine.Recover for as long as the scenario needs (a legal "
                               "schedule: nothing bounds the time between two statements of a goroutine)"])


def check_c07_nodes(prop, tier, replay):
    """third engine of C07: membership requests through the public API of real NodeHosts"""
    n, tr, rounds = (8, 3, 14) if tier == "quick" else (24, 10, 20)
    batches = [{"first": k * tr, "traces": tr, "mode": "member", "dur": 0, "rounds": rounds,
                "store": "tan" if k % 4 == 3 else None} for k in range(n)]
    return tv_run(prop, tier, replay, harness_dirs=HARNESS, pkg=".", test="TestVerifNhsim",
                  trace_module="MemberTrace", tag="MB-REPORT", count_tag="MB-COUNT",
                  batches=batches, env_of=_snap_env, mc=(),
                  level="model_checking", stats_tag="NHSTATS", panic_ok=True, max_workers=8,
                  build_name="nhsim", merge_into_existing=True,
                  what="membership change through the NodeHost API: accept/reject decision or resulting membership "
                       "differs from the rule table (or hosts report a malformed membership)",
                  sig_of=lambda op, f: "C07:%s" % op,
                  assumptions=["NodeHost level: seeded sequences of AddReplica / AddNonVoting / promotion / "
                               "DeleteReplica and of requests that must be refused, with and without "
                               "OrderedConfigChange, while clients write; memberships read through "
                               "SyncGetShardMembership on every running host"])


def check_c17_hosts(prop, tier, replay):
    """fourth engine of C17: requests on real NodeHosts after the shard went quiescent"""
    n, tr, rounds = (8, 2, 4) if tier == "quick" else (16, 6, 8)
    batches = [{"first": k * tr, "traces": tr, "mode": "quiesce", "dur": 0, "rounds": rounds,
                "store": "tan" if k % 4 == 3 else None} for k in range(n)]
    return tv_run(prop, tier, replay, harness_dirs=HARNESS, pkg=".", test="TestVerifNhsim",
                  trace_module="QuiesceHostTrace", tag="QH-REPORT", count_tag="QH-COUNT",
                  batches=batches, env_of=_snap_env, mc=(),
                  level="exploration", stats_tag="NHSTATS", panic_ok=True, max_workers=8,
                  build_name="nhsim", merge_into_existing=True,
                  what="request on a shard with Quiesce enabled: hangs without a quorum, times out long before its "
                       "deadline, or does not complete on a connected shard",
                  sig_of=lambda op, f: "C17:quiesce-host:%s" % op,
                  assumptions=["wall-clock engine: a Timeout counts as early only before half of the requested time, "
                               "a request as hanging only 3 s after its deadline, a connected shard as not serving "
                               "only after 20 s of paced attempts of 4 s each",
                               "samples of real schedules (3 and 5 hosts, CheckQuorum / PreVote on and off, crash or "
                               "partition of the other replicas while the shard sleeps)"])


def check_c17_catchup(prop, tier, replay):
    """sixth engine of C17: two cut-off followers of a five-replica shard must both be brought up to date"""
    n, tr = (3, 2) if tier == "quick" else (8, 6)
    batches = [{"first": k * tr, "traces": tr, "mode": "catchup", "dur": 0, "rounds": 0,
                "store": "tan" if k % 3 == 2 else None} for k in range(n)]
    return tv_run(prop, tier, replay, harness_dirs=HARNESS, pkg=".", test="TestVerifNhsim",
                  trace_module="CatchUpHostTrace", tag="CU-REPORT", count_tag="CU-COUNT",
                  batches=batches, env_of=_snap_env, mc=(),
                  level="exploration", stats_tag="NHSTATS", panic_ok=True, max_workers=6,
                  build_name="nhsim", merge_into_existing=True,
                  what="a reachable lagging replica was not brought up to date (30 s after the heal, leader unchanged)",
                  sig_of=lambda op, f: "C17:catchup-host:%s" % op,
                  assumptions=["wall-clock engine: a laggard counts as stuck only when it lacks the last write 30 s after the "
                               "heal while the leader of that moment is still the leader (a healthy shard needs well under a second)"])


def check_c12_hosts(prop, tier, replay):
    """second engine of C12: request handles of real NodeHosts under faults always deliver a result"""
    n, tr = (6, 4) if tier == "quick" else (24, 12)
    batches = [{"first": k * tr, "traces": tr, "mode": "hang", "dur": 1200, "store": None} for k in range(n)]
    return tv_run(prop, tier, replay, harness_dirs=HARNESS, pkg=".", test="TestVerifNhsim",
                  trace_module="RequestsHostTrace", tag="RH-REPORT", count_tag="RH-COUNT",
                  batches=batches, env_of=_env, mc=(),
                  level="exploration", stats_tag="NHSTATS", panic_ok=True, max_workers=8,
                  build_name="nhsim", merge_into_existing=True,
                  what="a request handle of a running NodeHost delivered no result five seconds after its deadline",
                  sig_of=lambda op, f: "C12:hosts:%s" % op,
                  assumptions=["NodeHost level: the client programs and fault schedules of the C01 runs; a handle "
                               "counts as hanging when nothing arrived 5 s after the requested deadline and the "
                               "NodeHost that issued it is still running"])


def check_c08_joiners(prop, tier, replay):
    """third engine of C08: on-disk replicas that join quietly, are brought up to date by a streamed snapshot whose
    index is ahead of the last user update, snapshot themselves and restart (nhsim member mode, on-disk only)"""
    n, tr, rounds = (4, 2, 14) if tier == "quick" else (12, 6, 20)
    batches = [{"first": k * tr, "traces": tr, "mode": "member", "dur": 0, "rounds": rounds, "sm": "ondisk",
                "store": "tan" if k % 4 == 3 else None} for k in range(n)]

    def env(b, seed, out):
        e = _snap_env(b, seed, out)
        e["VERIF_SM"] = b["sm"]
        e["VERIF_NH_VIRGIN"] = 1
        return e

    def sig(op, fields, lines, at):
        # structural signature of the recorded finding: the state machine wrote an empty image (it had applied
        # nothing) and a replica that was streamed a snapshot panicked because the image looks like a shrunk one
        if op == "Panic" and "not initial recovery but snapshot shrunk" in fields and \
                any(e.get("ev") == "EmptyImage" for e in lines if e.get("i", 0) < at):
            return "C08:joiners:empty-image-streamed-looks-shrunk"
        return "C08:joiners:%s" % op
    return tv_run(prop, tier, replay, harness_dirs=HARNESS, pkg=".", test="TestVerifNhsim",
                  trace_module="MemberTrace", tag="MB-REPORT", count_tag="MB-COUNT",
                  batches=batches, env_of=env, mc=(),
                  level="model_checking", stats_tag="NHSTATS", panic_ok=True, max_workers=8,
                  build_name="nhsim", merge_into_existing=True,
                  what="an on-disk replica that joined through a streamed snapshot, took a snapshot of its own and "
                       "restarted did not come back (panic), or its membership differs from the rule table",
                  sig_ctx=sig,
                  assumptions=["on-disk state machines only: members join while nothing is written (the snapshot they "
                               "receive has Index > OnDiskIndex), apply one more non-update entry, snapshot and restart"])
