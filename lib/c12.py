"""C12: Requests.tla (what a client may observe for an accepted request) judging executions of the real
pending-request tables under seeded interleavings of their critical sections (rqsim)."""
import tvcheck


def check(prop, tier, replay_path):
    if tier == "thorough":
        batches = [{"first": k * 1500, "traces": 1500, "steps": 200} for k in range(28)]
    else:
        batches = [{"first": k * 300, "traces": 300, "steps": 150} for k in range(12)]
    return tvcheck.tv_run(
        prop, tier, replay_path,
        harness_dirs=["root"], pkg=".", test="TestVerifRqsim",
        trace_module="RequestsTrace", tag="RQ-REPORT", batches=batches,
        env_of=lambda b, seed, out: {"VERIF_OUT": out, "VERIF_SEED": seed, "VERIF_FIRST": b["first"],
                                     "VERIF_TRACES": b["traces"], "VERIF_STEPS": b["steps"]},
        mc=[], stats_tag="RQSIM-STATS",
        sig_of=lambda op, fields: "C12:%s" % fields.strip('"').split(":")[0].split(" ")[0],
        what="a client-visible result of the real request tables is not allowed by Requests.tla",
        assumptions=["every mutex-protected method of the tables is one step; proposalShard.propose is taken as one step (its internal window between the pending insert and the queue add is not split)",
                     "raft's side (committed / dropped / applied / ready-to-read) is played by the driver; the end-to-end path is covered by C01"])


def check_queues(prop, tier, replay_path):
    """the double-buffered queues in front of the tables (queue.go) as sequential objects"""
    n, tr, st = (4, 60, 300) if tier == "quick" else (16, 200, 500)
    batches = [{"first": k * tr, "traces": tr, "steps": st} for k in range(n)]
    return tvcheck.tv_run(
        prop, tier, replay_path,
        harness_dirs=["root"], pkg=".", test="TestVerifQqsim",
        trace_module="QueuesTrace", tag="QQ-REPORT", batches=batches,
        env_of=lambda b, seed, out: {"VERIF_OUT": out, "VERIF_SEED": seed, "VERIF_FIRST": b["first"],
                                     "VERIF_TRACES": b["traces"], "VERIF_STEPS": b["steps"]},
        mc=[("MCQueues", "MC_Queues_entry.cfg", 300, 4), ("MCQueues", "MC_Queues_read.cfg", 300, 4)], mc_deadlock=False,
        build_name="nhsim", merge_into_existing=True,
        sig_of=lambda op, fields: "C12:queue:%s" % op,
        what="a queue in front of the request tables lost, duplicated or reordered an accepted item, or modified a batch it had handed over",
        assumptions=["entryQueue / readIndexQueue / readyShard (queue.go) are decided as sequential objects: real objects vs "
                     "Queues.tla; MCQueues checks ExactlyOnceInOrder exhaustively for a small queue"])
