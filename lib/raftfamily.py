"""C02 C03 C06 C07 C18: Raft.tla / RaftSys.tla, bound to internal/raft by rsim traces."""
import json
import os
import time

import raftcheck as rc
from common import (Inconclusive, Scratch, Verdict, build_test_binary, env_seed, log,
                    write_evidence)

# exhaustive MCRaft configurations: (cfg, timeout s, workers)
MC_CFGS = {
    "quick": [("MC_raft_quick.cfg", 600, 8)],
    "thorough": [("MC_raft_quick.cfg", 600, 8), ("MC_raft_core3.cfg", 3000, 14)],
}

# thorough tier: further exhaustive configurations, chosen per property (measured on 4-6 workers of a
# loaded machine: read 962k states / 4 min, prevote+checkquorum 1.39M / 4 min, dup 64k / 17 s, snap 142k / 1 min)
MC_EXTRA = {
    "C02": [("MC_raft_dup.cfg", 1200, 12), ("MC_raft_snap.cfg", 1800, 12)],
    "C03": [("MC_raft_prevote.cfg", 1800, 12)],
    "C06": [("MC_raft_read.cfg", 1800, 12)],
    "C07": [],
    "C17": [],
    "C18": [("MC_raft_prevote.cfg", 1800, 12)],
}

# quick tier extras: small configurations that exercise a mechanism the base configuration has switched off
MC_QUICK_EXTRA = {
    "C18": [("MC_raft_cq_small.cfg", 600, 8)],      # CheckQuorum on: CheckQuorumLease
    "C03": [("MC_raft_cq_small.cfg", 600, 8), ("MC_raft_crash.cfg", 600, 8)],   # votes across a crash
    "C02": [("MC_raft_crash.cfg", 600, 8)],         # committed entries across a crash (41 494 states)
    "C07": [("MC_raft_cc_small.cfg", 600, 8)],      # a membership change (remove) in flight (15 004 states)
}

# xsim: exhaustive exploration of the REAL raft code under MCRaft's transition system for the constants of
# these configurations, every transition validated by TLC (RaftTree.tla), reachable state count compared with
# MCRaft's (lib/xraft.py). (cfg, state cap). Measured on 12 explorer workers: cc_small 9 316 states / 116 k tree
# lines / 12 s + 14 s TLC; MC_raft_quick 73 706 / 898 k / 105 s + 109 s; cc_crash 91 502 / 1.24 M / 150 s.
XSIM_QUICK = {
    "C02": [("MC_x_crash2.cfg", 400000)],
    "C03": [("MC_x_elect3.cfg", 400000), ("MC_x_prevote3_t2.cfg", 400000)],
    "C06": [("MC_x_read2.cfg", 400000)],
    "C07": [("MC_raft_cc_small.cfg", 400000)],
    "C18": [("MC_x_nonvoting.cfg", 400000), ("MC_x_witness.cfg", 400000)],
}
XSIM_THOROUGH = {
    "C02": [("MC_raft_quick.cfg", 1000000), ("MC_raft_crash.cfg", 1000000), ("MC_x_noneager.cfg", 600000)],
    "C03": [("MC_x_elect3_m3.cfg", 1000000), ("MC_raft_cq_small.cfg", 1000000), ("MC_raft_crash.cfg", 1000000),
            ("MC_x_prevote3.cfg", 1000000)],
    # read_remove: a ReadIndex and the removal of the other voter of a two-voter shard in one configuration
    "C06": [("MC_raft_read.cfg", 1000000), ("MC_x_nonvoting_read.cfg", 1000000), ("MC_x_read_remove.cfg", 400000)],
    "C07": [("MC_x_cc_crash.cfg", 1000000), ("MC_raft_cc.cfg", 1000000)],
    "C18": [("MC_x_nonvoting_read.cfg", 1000000), ("MC_raft_cq_small.cfg", 1000000)],
}

TIERS = {
    # batches per combo, traces per batch, steps per trace
    "quick": (2, 60, 300),
    "thorough": (24, 150, 400),
}


# C17: fault prefix of `steps` steps, then `progress` fair rounds before and after the probes
TIERS_C17 = {
    "quick": (2, 40, 150, 40),
    "thorough": (20, 120, 250, 60),
}


def replay(prop, path, scr, binary):
    with open(path) as fh:
        r = json.load(fh)
    if r.get("kind") == "xsim":
        return []
    out = scr.path("traces", "replay.ndjson")
    extra = {"VERIF_PROGRESS": r["progress"]} if r.get("progress") else None
    rc.gen_traces(binary, out, r["seed"], r["trace"], 1, r["steps"], r["prevote"], r["checkquorum"], extra)
    rep = rc.validate_trace_file(scr, out, r["prevote"], r["checkquorum"], "replay")
    meta = {"file": out, "prevote": r["prevote"], "checkquorum": r["checkquorum"], "first": r["trace"],
            "traces": 1, "steps": r["steps"], "seed": r["seed"], "stats": {}}
    return [(meta, rep)]


def check(prop, tier, replay_path):
    t0 = time.time()
    seed = env_seed()
    scr = Scratch(prop)
    verdict = Verdict(prop)
    try:
        binary = build_test_binary(scr, ["raft"], "internal/raft", "raft")
        if replay_path:
            results = replay(prop, replay_path, scr, binary)
        else:
            if prop == "C17":
                nb, tpb, steps, progress = TIERS_C17[tier]
                results = rc.run_rsim_batches(scr, binary, seed, nb, tpb, steps,
                                              extra_env={"VERIF_PROGRESS": progress})
                for m, _ in results:
                    m["progress"] = progress
            else:
                nb, tpb, steps = TIERS[tier]
                results = rc.run_rsim_batches(scr, binary, seed, nb, tpb, steps)
        nviol, ndrift = rc.judge(prop, verdict, results, scr)
        # exhaustive exploration of the real code under MCRaft's transition system (xsim)
        xsim_runs = []
        xcfgs = []
        if replay_path:
            with open(replay_path) as fh:
                rr = json.load(fh)
            if rr.get("kind") == "xsim":
                xcfgs = [(rr["cfg"], 3000000)]
        elif prop in XSIM_QUICK:
            xcfgs = XSIM_QUICK[prop] + (XSIM_THOROUGH[prop] if tier == "thorough" else [])
        for cfgname, cap in xcfgs:
            import xraft
            xr = xraft.run_config(scr, binary, cfgname, prop, rc.PROPS[prop], rc.PANIC_PROPS, verdict, max_states=cap)
            xsim_runs.append(xr)
            nviol += xr["property_findings"]
            ndrift += xr["conformance_rejections"]
        # exhaustive exploration of the specification itself (MCRaft) for small constants
        mc_runs = []
        mc_states = mc_trans = 0
        if not replay_path:
            from common import run_tlc, SPEC
            import os as _os
            for cfgname, timeout, workers in MC_CFGS[tier] + MC_QUICK_EXTRA.get(prop, []) + (MC_EXTRA.get(prop, []) if tier == "thorough" else []):
                res = run_tlc(scr, "MCRaft", _os.path.join(SPEC, cfgname), workers=workers, timeout=timeout,
                              tag="mc." + cfgname, jvm=["-Xmx14g"])
                if res.error == "timeout":
                    mc_runs.append({"cfg": cfgname, "distinct": res.distinct, "generated": res.generated,
                                    "complete": False, "wall_s": round(res.wall, 1)})
                elif res.error or res.violated:
                    raise Inconclusive("model checking of MCRaft/%s failed: %s - a counterexample in the model alone means the "
                                       "specification is wrong, never a violation of the code\n%s"
                                       % (cfgname, res.error or res.violated, res.out[-2500:]))
                else:
                    mc_runs.append({"cfg": cfgname, "distinct": res.distinct, "generated": res.generated,
                                    "depth": res.depth, "complete": True, "wall_s": round(res.wall, 1)})
                mc_states += res.distinct
                mc_trans += res.generated
        events = sum(r["lines"] for _, r in results)
        traces = sum(m["traces"] for m, _ in results)
        conf_ok = sum(m["traces"] for m, r in results if r["conformance_evaluated"]) - \
            len({(m["file"], d[0]) for m, r in results for d in r["drifts"]}) + \
            sum(1 for x in xsim_runs if x["conformance_rejections"] == 0)
        stats = {}
        for m, _ in results:
            for k, v in m["stats"].items():
                stats[k] = stats.get(k, 0) + v
        sample = []
        if results:
            with open(results[0][0]["file"]) as fh:
                for i, l in enumerate(fh):
                    if i >= 12:
                        break
                    e = json.loads(l)
                    e.pop("post", None)
                    sample.append(e)
        cov = {
            "states": max(1, sum(r["states"] for _, r in results) + mc_states + sum(x["tree_lines"] for x in xsim_runs)),
            "transitions": max(1, events + mc_trans + sum(x["tree_lines"] for x in xsim_runs)),
            "tlc_exhaustive": mc_runs,
            "impl_exhaustive_xsim": xsim_runs,
            "traces_validated_against_impl": max(0, conf_ok),
            "samples": [{"trace_prefix_without_state": sample}],
            "evaluations": events,
            "distinct_nontrivial": traces,
            "rule": "one evaluation = one step of the real raft code judged by TLC against Raft.tla "
                    "(conformance) and RaftSys.tla (properties); distinct_nontrivial counts distinct seeded "
                    "schedules (trace ids x PreVote/CheckQuorum settings)",
            "rsim_event_counts": stats,
            "conformance_rejections": ndrift,
            "properties_monitored": rc.PROPS[prop],
            "settings": [{"prevote": pv, "checkquorum": cq} for pv, cq in rc.COMBOS],
            "exhaustive": False,
        }
        write_evidence(prop, tier, seed, "model_checking", cov, time.time() - t0, nviol,
                       assumptions=["rsim replaces the engine's goroutines by a seeded scheduler; Ready is atomic here (C04 splits it)",
                                    "Raft.tla abstractions listed in its header (no rate limiter, no pagination, no quiesce)"])
        return verdict.finish()
    finally:
        scr.cleanup()


def check_all(prop, tier, replay_path):
    """development helper: one rsim run judged for every raft-family property"""
    seed = env_seed()
    scr = Scratch("RAFT")
    try:
        binary = build_test_binary(scr, ["raft"], "internal/raft", "raft")
        nb, tpb, steps = TIERS[tier]
        results = rc.run_rsim_batches(scr, binary, seed, nb, tpb, steps)
        out = 0
        for p in sorted(rc.PROPS):
            v = Verdict(p)
            nv, nd = rc.judge(p, v, results, scr)
            names = sorted({n for _, r in results for (_, _, n) in r["viol"] if n in rc.PROPS[p]})
            log("== %s: %d violations %s; drifts %d; panics %d" % (p, nv, names, nd, sum(len(r["panics"]) for _, r in results)))
            out |= 1 if v.violations else 0
        for _, r in results:
            for pn in r["panics"][:2]:
                log("   panic:", pn[1][:160])
        return out
    finally:
        scr.cleanup()
