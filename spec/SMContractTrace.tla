-------------------------- MODULE SMContractTrace --------------------------
(* SMContract.tla evaluated on the Enter / Exit event streams of nhsim.  Both events get    *)
(* their sequence number under the recorder's mutex as the first / last statement of the    *)
(* method, so an overlap in the trace is a real overlap.                                    *)
EXTENDS SMContract, Json, TLC

CONSTANT TraceFile
VARIABLES sms,     \* object id -> state
          shardOf, \* object id -> shard
          known,   \* index -> op id for every entry that reached Update somewhere
          l, bad, cnt

Trace == ndJsonDeserialize(TraceFile)
vars == <<sms, shardOf, known, l, bad, cnt>>

Flag(ev, what, detail) == IF \E x \in bad : x[1] = ev.t /\ x[3] = what THEN bad ELSE bad \cup {<<ev.t, ev.i, what, detail>>}
AppliedOf(ev) == IF "applied" \in DOMAIN ev THEN ev.applied ELSE 0
IdxOf(ev) == IF "idx" \in DOMAIN ev THEN ev.idx ELSE <<>>

\* end of a history: the exactly-once comparison over all objects
KnownOf(sh) == {x[2] : x \in {y \in DOMAIN known : y[1] = sh}}
Late(t, i) == LET m == UNION {{<<o, g>> : g \in Missing(sms[o], KnownOf(shardOf[o]))} : o \in DOMAIN sms}
              IN IF m = {} THEN bad ELSE bad \cup {<<t, i, "entry_not_delivered", m>>}

Init == /\ sms = <<>> /\ shardOf = <<>> /\ known = <<>> /\ l = 1 /\ bad = {}
        /\ cnt = [enter |-> 0, update |-> 0, objects |-> 0, overlapping |-> 0]

Next ==
  /\ l <= Len(Trace)
  /\ l' = l + 1
  /\ LET ev == Trace[l] IN
     CASE ev.ev = "Init" ->
            /\ bad' = IF l = 1 THEN bad ELSE Late(Trace[l - 1].t, Trace[l - 1].i)
            /\ sms' = <<>> /\ shardOf' = <<>> /\ known' = <<>> /\ UNCHANGED cnt
       [] ev.ev = "Panic" -> bad' = Flag(ev, "Panic", {ev.msg}) /\ UNCHANGED <<sms, shardOf, known, cnt>>
       [] ev.ev = "SMNew" ->
            /\ sms' = [o \in (DOMAIN sms) \cup {ev.sm} |-> IF o = ev.sm THEN SMInit(ev.kind, ev.h) ELSE sms[o]]
            /\ shardOf' = [o \in (DOMAIN sms) \cup {ev.sm} |-> IF o = ev.sm THEN ev.shard ELSE shardOf[o]]
            /\ cnt' = [cnt EXCEPT !.objects = @ + 1]
            /\ UNCHANGED <<known, bad>>
       [] ev.ev = "Enter" /\ ev.sm \in DOMAIN sms ->
            LET s == sms[ev.sm]
                v == EnterViolations(s, ev.m, IdxOf(ev))
                ix == IdxOf(ev)
                sh == shardOf[ev.sm]
                clash == {k \in 1..Len(ix) : <<sh, ix[k]>> \in DOMAIN known /\ known[<<sh, ix[k]>>] # ev.ids[k]}
            IN
            /\ sms' = [sms EXCEPT ![ev.sm] = Enter(s, ev.m, ix)]
            /\ known' = IF ev.m = "Update"
                          THEN [g \in (DOMAIN known) \cup {<<sh, ix[k]>> : k \in 1..Len(ix)} |->
                                  IF g \in DOMAIN known THEN known[g] ELSE ev.ids[CHOOSE k \in 1..Len(ix) : ix[k] = g[2]]]
                          ELSE known
            /\ bad' = IF v # {} THEN Flag(ev, "contract", v \cup {ev.m})
                      ELSE IF clash # {} THEN Flag(ev, "different_entry_at_same_index", {ix[k] : k \in clash})
                      ELSE bad
            /\ cnt' = [cnt EXCEPT !.enter = @ + 1, !.update = @ + (IF ev.m = "Update" THEN 1 ELSE 0),
                                  !.overlapping = @ + (IF s.active # <<>> THEN 1 ELSE 0)]
            /\ UNCHANGED shardOf
       [] ev.ev = "Exit" /\ ev.sm \in DOMAIN sms ->
            /\ sms' = [sms EXCEPT ![ev.sm] = Exit(@, ev.m, AppliedOf(ev))]
            /\ UNCHANGED <<shardOf, known, bad, cnt>>
       [] OTHER -> UNCHANGED <<sms, shardOf, known, bad, cnt>>

Spec == Init /\ [][Next]_vars
Report == IF l = Len(Trace) + 1
            THEN PrintT(<<"SM-REPORT", Len(Trace), Late(Trace[Len(Trace)].t, Trace[Len(Trace)].i)>>) /\ PrintT(<<"SM-COUNT", cnt>>)
            ELSE TRUE
=============================================================================
