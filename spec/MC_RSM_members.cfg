SPECIFICATION Spec
CONSTANTS
  Clients = {1}
  MaxSeries = 1
  LRU = 1
  MaxLen = 5
  Ids = {1, 2, 3}
  Addrs = {"a1", "a2", "a3"}
  Ordered = TRUE
  DoSessions = FALSE
  DoMembership = TRUE
INVARIANT Inv
CHECK_DEADLOCK FALSE
