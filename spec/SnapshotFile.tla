----------------------------- MODULE SnapshotFile -----------------------------
(***************************************************************************)
(* C14: layout of the v2 snapshot file and what must happen to a perturbed  *)
(* one.                                                                      *)
(*   file   = header block (HeaderSize bytes: length | header | crc32 slot   *)
(*            | padding) ++ block stream ++ tail (total: 8 | magic: 8)       *)
(*   block stream of a payload of n bytes with block size B =                *)
(*            ceil(n / B) blocks, each payload part followed by a 4 byte     *)
(*            checksum; an empty payload has no block                        *)
(* Every byte of the block stream and of the tail is covered (a changed bit  *)
(* or a cut must make reading fail and the stream validator refuse); bytes   *)
(* of the header block must at least never make the reader return different  *)
(* payload bytes.                                                            *)
(***************************************************************************)
EXTENDS Integers, Sequences

HeaderSize == 1024
TailSize == 16
CrcSize == 4
ProdBlock == 2 * 1024 * 1024

Ceil(a, b) == (a + b - 1) \div b
BlockStreamSize(n, B) == n + CrcSize * Ceil(n, B)
BlockSizes(n, B) == [k \in 1..Ceil(n, B) |-> IF k < Ceil(n, B) THEN B ELSE n - B * (Ceil(n, B) - 1)]
FileSize(p, B) == HeaderSize + BlockStreamSize(p, B) + TailSize

\* version 1 (read side only): header block ++ payload, one CRC32 over the whole payload kept in the
\* header, checked when the reader is closed; no blocks, no tail
V1FileSize(p) == HeaderSize + p

\* cumulative ends of complete blocks in the block stream (cut points that leave whole blocks)
BlockEnds(n, B) == {k * (B + CrcSize) : k \in 0..(Ceil(n, B) - 1)}

Region(off, size, hsz) ==
  CASE off < 8 -> "hlen"
    [] off < 8 + hsz -> "hbody"
    [] off < 8 + hsz + 4 -> "hcrcslot"
    [] off < HeaderSize -> "hpad"
    [] off >= size - 8 -> "tmagic"
    [] off >= size - TailSize -> "ttotal"
    [] OTHER -> "block"
InHeader(off) == off < HeaderSize
=============================================================================
