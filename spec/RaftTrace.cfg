SPECIFICATION TraceSpec
CONSTANTS
  Replica = {1, 2, 3, 4, 5, 6}
  ET = 5
  HT = 1
  PreVote = FALSE
  CheckQuorum = FALSE
  G <- GAll
  TraceFile = "trace.ndjson"
  Conformance = TRUE
  TrackEvidence = TRUE
INVARIANT Report
CHECK_DEADLOCK FALSE
