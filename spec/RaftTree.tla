------------------------------ MODULE RaftTree ------------------------------
(***************************************************************************)
(* Validation of the TREE of executions that xsim (harness/raft/xsim_test) *)
(* produces by exploring the real internal/raft code exhaustively under    *)
(* the transition system of MCRaft.tla (same actions, enabling conditions, *)
(* budgets and state constraint).                                          *)
(*                                                                         *)
(* The file holds one line per harness step; every line names its children.*)
(* TLC walks the tree (its own breadth-first search, any number of         *)
(* workers): a TLC state is one line together with the system state        *)
(* (node, net) observed along the path from the root and the history h of  *)
(* that path.  At every line                                               *)
(*   - conformance: the step is recomputed with the operators of Raft.tla  *)
(*     from the observed pre-state and compared with the observed          *)
(*     post-state (`drift`, this step only);                               *)
(*   - monitor: the predicates of RaftSys.tla are evaluated on the         *)
(*     observed state; `viol` holds the names that are false somewhere on  *)
(*     the path so far, `fresh` the ones that became false at this line.   *)
(* Findings are printed from the invariant Report; the run is accepted     *)
(* when TLC found one state per line.                                      *)
(* The lines carry the projected state of the acting replica as the set of *)
(* fields that changed (`d`), or in full (`post`) for a new replica.       *)
(***************************************************************************)
EXTENDS RaftTrace

VARIABLE fresh    \* property names that became false at this line

ttvars == <<node, net, h, l, drift, drifts, panicked, viol, fresh>>

ConvField(f, v) ==
  CASE f \in {"vg", "vr", "V", "NV", "W", "dropE", "dropR"} -> ToSet(v)
    [] f = "rem" -> RemOf(v)
    [] f = "riq" -> RiqOf(v)
    [] f = "msgs" -> {MsgOf(x) : x \in ToSet(v)}
    [] f \in {"snap", "dsnap", "aq"} -> SnapOf(v)
    [] f = "mem" -> [v |-> ToSet(v.v), nv |-> ToSet(v.nv), w |-> ToSet(v.w), rm |-> ToSet(v.rm)]
    [] OTHER -> v

PostOf(ev, pre) ==
  IF "post" \in DOMAIN ev THEN NodeOf(ev.post)
  ELSE IF "d" \in DOMAIN ev
    THEN [f \in DOMAIN pre |-> IF f \in DOMAIN ev.d THEN ConvField(f, ev.d[f]) ELSE pre[f]]
    ELSE pre

TreeInit ==
  /\ node = [i \in Replica |-> Fresh(i)]
  /\ net = {}
  /\ h = HInit
  /\ l = 1
  /\ drift = <<>>
  /\ drifts = {}
  /\ panicked = {}
  /\ viol = {}
  /\ fresh = {}

TStepDrop(ev) ==
  /\ net' = IF ev.dup THEN net ELSE net \ {MsgOf(ev.m)}
  /\ UNCHANGED <<node, h>>
  /\ drift' = <<>>
  /\ panicked' = {}

TStepPanic(ev) ==
  /\ panicked' = {<<ev.id, ev.panic>>}
  /\ UNCHANGED <<node, net, h>>
  /\ drift' = <<>>

TStepNode(ev) ==
  LET n == ev.n
      pre == node[n]
      post == PostOf(ev, pre)
      m == IF ev.a = "Deliver" THEN MsgOf(ev.m)
           ELSE IF ev.a \in {"Propose", "ProposeCC", "ReadIndex", "Transfer", "SnapStatus", "Unreachable"}
             THEN LocalMsg(ev) ELSE NoMsg
      en == Enabled(ev, pre)
      exp == IF en /\ Conformance THEN Expected(ev, pre, post) ELSE post
      diff == IF en THEN DiffFields(exp, post) ELSE {"<not enabled>"}
      hh == IF ev.a = "ReadIndex" THEN HIssue(h, ev.val) ELSE h
  IN
  /\ node' = [node EXCEPT ![n] = post]
  /\ net' = CASE ev.a = "Deliver" -> IF ev.dup THEN net ELSE net \ {m}
              [] ev.a = "Ready" -> net \cup (IF pre.up THEN pre.msgs ELSE {})
              [] OTHER -> net
  /\ h' = IF ev.a = "Env" THEN h ELSE HStep(hh, pre, post, m, ev.a)
  /\ drift' = IF diff = {} THEN <<>> ELSE <<ev.id, ev.a, diff>>
  /\ panicked' = {}

TreeStep(c) ==
  LET ev == Trace[c] IN
  /\ l' = c
  /\ CASE ev.a = "Drop" -> TStepDrop(ev)
       [] ev.a = "Panic" -> TStepPanic(ev)
       [] OTHER -> TStepNode(ev)
  /\ LET now == {q \in PropNames : ~PropHolds(q)'} IN
       /\ fresh' = now \ viol
       /\ viol' = viol \cup now
  /\ UNCHANGED drifts

TreeNext == \E c \in ToSet(Trace[l].kids) : TreeStep(c)

TreeSpec == TreeInit /\ [][TreeNext]_ttvars

\* reporting: one line per finding
TreeReport ==
  /\ (fresh = {} \/ PrintT(<<"TREE-VIOL", Trace[l].id, fresh>>))
  /\ (drift = <<>> \/ PrintT(<<"TREE-DRIFT", drift>>))
  /\ (panicked = {} \/ PrintT(<<"TREE-PANIC", panicked>>))
=============================================================================
