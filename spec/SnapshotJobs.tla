---------------------------- MODULE SnapshotJobs ----------------------------
(* The snapshot job protocol of one replica between the apply worker, the snapshot worker pool  *)
(* and the snapshot workers.                                                                    *)
(*                                                                                              *)
(* CODE  snapshotstate.go (flags + one-slot mailboxes `snapshotTask`), node.go                  *)
(*       handleSnapshotTask / processStatusTransition / reportSave|Recover|StreamSnapshot /     *)
(*       saveDone / recoverDone / streamDone, engine.go processApplies, workerPool (canSave /   *)
(*       canRecover / canStream / scheduleWorker / start / completed / workerPoolMain), ssWorker.*)
(*                                                                                              *)
(* Three kinds of job: "save" (SaveSnapshot of the user state machine), "recover"               *)
(* (RecoverFromSnapshot, or the initial recovery / Open of a replica that just started),        *)
(* "stream" (on-disk state machines: SaveSnapshot into a chunk stream for a lagging replica).   *)
(* What the listed properties need from this protocol:                                          *)
(*   C11 / C08  a recover job never runs while a save or a stream of the same replica runs, at  *)
(*              most one save and one recover at a time (several streams may overlap);          *)
(*   C12 / C17  every job that was asked for runs and its completion is seen by the apply       *)
(*              worker (no job is forgotten, no mailbox is written twice - that is a panic),    *)
(*              a snapshot request that arrives during a save is told that it was ignored and   *)
(*              a stream request that cannot be served is reported to raft as failed.           *)
(*                                                                                              *)
(* The node side is a record n, the pool side a record p; every Go function is an operator from *)
(* records to records (+ what it told the outside), shared by MCSnapshotJobs (every             *)
(* interleaving) and SnapshotJobsTrace (executions of the real code, spsim).                    *)
(***************************************************************************)
EXTENDS Integers, Sequences, FiniteSets
CONSTANT Ablate       \* {} is the code; vacuity checks remove one mechanism: "recover_ignores_streams", "stream_flag", "save_flag"

Kinds == {"save", "recover", "stream"}
NoJob == "none"

\* ---- node side ------------------------------------------------------------------------------
\* flag  = ss.savingFlag / recoveringFlag / streamingFlag
\* req   = ss.saveReady / recoverReady / streamReady hold a task
\* done  = ss.saveCompleted / recoverCompleted / streamCompleted hold a task
\* dinit = the task in recoverCompleted is the completion of the initial recovery
NInit(concurrent, ondisk) ==
  [flag |-> [k \in Kinds |-> FALSE], req |-> [k \in Kinds |-> FALSE], done |-> [k \in Kinds |-> FALSE],
   dinit |-> FALSE, initialized |-> FALSE, concurrent |-> concurrent, ondisk |-> ondisk,
   panic |-> "", bits |-> {}, told |-> ""]

\* snapshotTask.setTask: a mailbox that still holds a task panics
SetReq(n, k) == IF n.req[k] THEN [n EXCEPT !.panic = "setting snapshot task again"]
                ELSE [n EXCEPT !.req[k] = TRUE, !.bits = @ \cup {k}]
SetDone(n, k, initial) ==
  IF n.done[k] THEN [n EXCEPT !.panic = "setting snapshot task again"]
  ELSE [n EXCEPT !.done[k] = TRUE, !.dinit = IF k = "recover" THEN initial ELSE @]

\* reportSaveSnapshot / reportRecoverSnapshot / reportStreamSnapshot
ReportJob(n, k, initial) == SetReq([n EXCEPT !.flag[k] = TRUE], k)

\* processSaveStatus; <<n', skip>>
ProcessSave(n) ==
  IF ~n.flag["save"] THEN <<n, FALSE>>
  ELSE IF ~n.done["save"] THEN <<n, ~n.concurrent>>
  ELSE IF ~n.initialized THEN <<[n EXCEPT !.panic = "taking snapshot when uninitialized"], FALSE>>
  ELSE <<[n EXCEPT !.done["save"] = FALSE, !.flag["save"] = FALSE], FALSE>>
ProcessStream(n) ==
  IF ~n.flag["stream"] THEN n
  ELSE IF ~n.ondisk THEN [n EXCEPT !.panic = "non-on disk sm is streaming snapshot"]
  ELSE IF ~n.done["stream"] THEN n
  ELSE [n EXCEPT !.done["stream"] = FALSE, !.flag["stream"] = FALSE]
ProcessRecover(n) ==
  IF ~n.flag["recover"] THEN <<n, FALSE>>
  ELSE IF ~n.done["recover"] THEN <<n, TRUE>>
  ELSE <<[n EXCEPT !.done["recover"] = FALSE, !.flag["recover"] = FALSE, !.dinit = FALSE,
                   !.initialized = IF n.dinit THEN TRUE ELSE @], FALSE>>
ProcessUninit(n) ==
  IF n.initialized THEN <<n, FALSE>> ELSE <<ReportJob(n, "recover", TRUE), TRUE>>

\* node.processStatusTransition; <<n', skip>>  (skip = processApplies handles no task this round)
ProcessStatusTransition(n0) ==
  LET n == [n0 EXCEPT !.bits = {}, !.told = ""]
      a == ProcessSave(n) IN
  IF a[2] \/ a[1].panic # "" THEN a ELSE
  LET b == ProcessStream(a[1]) IN
  IF b.panic # "" THEN <<b, FALSE>> ELSE
  LET c == ProcessRecover(b) IN
  IF c[2] THEN c ELSE ProcessUninit(c[1])

\* node.handleSnapshotTask(task); rts = what sm.ReadyToStream() answers. told: "" | "ignored" | "refused"
HandleSnapshotTask(n0, k, rts) ==
  LET n == [n0 EXCEPT !.bits = {}, !.told = ""] IN
  IF n.flag["recover"] THEN [n EXCEPT !.panic = "recovering from snapshot again"]
  ELSE CASE k = "recover" -> ReportJob(n, "recover", FALSE)
         [] k = "save" -> IF n.flag["save"] /\ "save_flag" \notin Ablate THEN [n EXCEPT !.told = "ignored"] ELSE ReportJob(n, "save", FALSE)
         [] k = "stream" -> IF (n.flag["stream"] /\ "stream_flag" \notin Ablate) \/ ~rts THEN [n EXCEPT !.told = "refused"]
                            ELSE ReportJob(n, "stream", FALSE)

\* the end of a job on a snapshot worker: node.saveDone / recoverDone / streamDone
JobDone(n, k, initial) ==
  SetDone([n EXCEPT !.bits = {}, !.told = ""], k, IF k = "recover" THEN ~n.initialized ELSE FALSE)

\* ---- pool side ------------------------------------------------------------------------------
\* pend = workerPool.pending (kinds, in order), busy = what each worker was handed and has not reported
\* completed, sv / rc = saving[shard] / recovering[shard] set, st = streaming[shard] (0 = absent)
PInit(W) == [pend |-> <<>>, busy |-> [w \in W |-> NoJob], sv |-> FALSE, rc |-> FALSE, st |-> 0, panic |-> ""]

InProgress(p) == p.sv \/ p.rc \/ p.st > 0
CanSchedule(p, k) == CASE k = "stream" -> ~p.sv /\ ~p.rc
                       [] k = "recover" /\ "recover_ignores_streams" \in Ablate -> ~p.sv /\ ~p.rc
                       [] OTHER -> ~InProgress(p)

\* workerPoolMain, arm saveReady / recoverReady / streamReady: getXJob empties the mailbox
\* <<n', p'>> (the schedule() that follows is Schedule)
TakeReq(n, p, k) == IF n.req[k] THEN <<[n EXCEPT !.req[k] = FALSE], [p EXCEPT !.pend = Append(@, k)]>> ELSE <<n, p>>

FreeWorkers(p) == {w \in DOMAIN p.busy : p.busy[w] = NoJob}
MinOf(S) == CHOOSE x \in S : \A y \in S : x <= y
RemoveAt(s, i) == [j \in 1..(Len(s) - 1) |-> IF j < i THEN s[j] ELSE s[j + 1]]
StartJob(p, k, w) ==
  LET q == [p EXCEPT !.busy[w] = k] IN
  CASE k = "save" -> IF p.sv THEN [q EXCEPT !.panic = "trying to start saving again"] ELSE [q EXCEPT !.sv = TRUE]
    [] k = "recover" -> IF p.rc THEN [q EXCEPT !.panic = "trying to start recovering again"] ELSE [q EXCEPT !.rc = TRUE]
    [] k = "stream" -> [q EXCEPT !.st = @ + 1]
\* scheduleWorker: the first pending job that can be scheduled goes to the first free worker
RECURSIVE Schedule(_)
Schedule(p) ==
  IF Len(p.pend) = 0 \/ FreeWorkers(p) = {} \/ p.panic # "" THEN p
  ELSE LET ok == {i \in 1..Len(p.pend) : CanSchedule(p, p.pend[i])} IN
       IF ok = {} THEN p
       ELSE LET i == MinOf(ok) IN
            Schedule(StartJob([p EXCEPT !.pend = RemoveAt(p.pend, i)], p.pend[i], MinOf(FreeWorkers(p))))

\* workerPool.completed(workerID): which kind is finished is read off the maps, not off the worker
Completed(p, w) ==
  IF p.busy[w] = NoJob THEN [p EXCEPT !.panic = "worker is not busy"]
  ELSE LET cnt == (IF p.sv THEN 1 ELSE 0) + (IF p.rc THEN 1 ELSE 0) + (IF p.st > 0 THEN 1 ELSE 0) IN
       IF cnt = 0 THEN [p EXCEPT !.panic = "not sure what got completed"]
       ELSE IF cnt > 1 THEN [p EXCEPT !.panic = "completed more than one type of snapshot op"]
       ELSE [p EXCEPT !.busy[w] = NoJob, !.sv = FALSE, !.rc = FALSE, !.st = IF @ > 0 THEN @ - 1 ELSE 0]

\* ---- what the properties need ------------------------------------------------------------------
Running(p, k) == {w \in DOMAIN p.busy : p.busy[w] = k}
\* C11 / C08: jobs that are with a worker
Exclusion(p) ==
  /\ Cardinality(Running(p, "save")) <= 1
  /\ Cardinality(Running(p, "recover")) <= 1
  /\ (Running(p, "recover") # {} => Running(p, "save") = {} /\ Running(p, "stream") = {})
  /\ (Running(p, "save") # {} => Running(p, "stream") = {})
\* the pool's books say what the workers do
Books(p) == /\ p.sv = (Running(p, "save") # {})
            /\ p.rc = (Running(p, "recover") # {})
            /\ p.st = Cardinality(Running(p, "stream"))
NoPanic(n, p) == n.panic = "" /\ p.panic = ""
\* a flag that is set is on its way: the request is in the mailbox, pending, running, or its completion is in the
\* mailbox of the apply worker (jobsdone = kinds whose worker has finished the job but not yet reported to the pool)
OnItsWay(n, p, k) == n.req[k] \/ (\E i \in 1..Len(p.pend) : p.pend[i] = k) \/ Running(p, k) # {} \/ n.done[k]
FlagsJustified(n, p) == \A k \in Kinds : n.flag[k] => OnItsWay(n, p, k)
NothingWithoutFlag(n, p) == \A k \in {"save", "recover"} : (n.req[k] \/ (\E i \in 1..Len(p.pend) : p.pend[i] = k)) => n.flag[k]
\* nothing waits for no reason: with a free worker, the first pending job waits only for a conflicting job
NoIdleWait(p) == (Len(p.pend) > 0 /\ FreeWorkers(p) # {}) => \A i \in 1..Len(p.pend) : ~CanSchedule(p, p.pend[i])
=============================================================================
