SPECIFICATION Spec
CONSTANTS
  W = {1, 2, 3}
  MaxTasks = 14
  Concurrent = TRUE
  OnDisk = TRUE
  Ablate = {}
INVARIANT Inv
PROPERTY Progress
PROPERTY Initialised
CHECK_DEADLOCK FALSE
