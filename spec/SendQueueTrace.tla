--------------------------- MODULE SendQueueTrace ---------------------------
(* Executions of the real Transport send path (tqsim, harness/transport/tqsim_test.go) judged with the         *)
(* observable part of SendQueue.tla: what reaches the connection was accepted by Send, nothing twice, in the   *)
(* order of the sends (one queue, one connection at a time), and in the fair period after the heal - the       *)
(* connection works, the breaker is ready, a message is sent every 2 ms - messages get through (a registered   *)
(* queue has a worker: MCSendQueue).  Timing only decides how much happens, never a verdict: how long the      *)
(* breaker stays open and whether a pause outlasted the idle timer are not judged.                             *)
EXTENDS Integers, Sequences, FiniteSets, Json, TLC
CONSTANT TraceFile
VARIABLES acc, last, l, bad, cnt
Trace == ndJsonDeserialize(TraceFile)
vars == <<acc, last, l, bad, cnt>>
Init == acc = {} /\ last = 0 /\ l = 1 /\ bad = {} /\ cnt = [sends |-> 0, accepted |-> 0, delivered |-> 0, idle_exits |-> 0, fair |-> 0]
Flag(ev, what) == bad \cup {<<ev.t, ev.i, ev.ev, what>>}
RECURSIVE Judge(_, _, _, _)
\* <<last', findings>> after the deliveries got[k..]
Judge(got, k, la, a) ==
  IF k > Len(got) THEN <<la, {}>>
  ELSE LET r == Judge(got, k + 1, got[k], a) IN
       <<r[1], r[2] \cup (IF got[k] \in a THEN {} ELSE {"delivered_but_never_accepted"})
                    \cup (IF got[k] > la THEN {} ELSE {"delivered_twice_or_out_of_order"})>>
Deliver(ev) == LET r == Judge(ev.got, 1, last, acc) IN
               /\ last' = r[1]
               /\ bad' = IF r[2] = {} THEN bad ELSE Flag(ev, r[2])
               /\ cnt' = [cnt EXCEPT !.delivered = @ + Len(ev.got),
                                     !.idle_exits = IF ev.ev = "Wait" /\ ev.ms >= 30 /\ ~ev.reg THEN @ + 1 ELSE @]
Next ==
  /\ l <= Len(Trace)
  /\ l' = l + 1
  /\ LET ev == Trace[l] IN
     CASE ev.ev = "Init" -> acc' = {} /\ last' = 0 /\ UNCHANGED <<bad, cnt>>
       [] ev.ev = "Send" -> /\ acc' = IF ev.ret THEN acc \cup {ev.id} ELSE acc
                            /\ cnt' = [cnt EXCEPT !.sends = @ + 1, !.accepted = IF ev.ret THEN @ + 1 ELSE @]
                            /\ UNCHANGED <<last, bad>>
       [] ev.ev \in {"Wait", "End"} -> Deliver(ev) /\ UNCHANGED acc
       [] ev.ev = "Fair" ->
            LET r == Judge(ev.got, 1, last, acc)
                n == Cardinality({k \in 1..Len(ev.got) : ev.got[k] >= ev.id})
                what == r[2] \cup (IF n >= 5 THEN {} ELSE {"no_progress_after_heal"})
            IN /\ last' = r[1] /\ UNCHANGED acc
               /\ bad' = IF what = {} THEN bad ELSE Flag(ev, what)
               /\ cnt' = [cnt EXCEPT !.delivered = @ + Len(ev.got), !.fair = @ + 1]
       [] OTHER -> UNCHANGED <<acc, last, bad, cnt>>
Spec == Init /\ [][Next]_vars
Report == IF l = Len(Trace) + 1 THEN PrintT(<<"TQ-REPORT", Len(Trace), bad>>) /\ PrintT(<<"TQ-COUNT", cnt>>) ELSE TRUE
=============================================================================
