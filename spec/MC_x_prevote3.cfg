SPECIFICATION Spec
CONSTANTS
  Replica = {1, 2, 3}
  InitVoters = {1, 2, 3}
  ET = 5
  HT = 1
  PreVote = TRUE
  CheckQuorum = FALSE
  G <- GAll
  TrackEvidence = FALSE
  MaxTerm = 3
  MaxLen = 3
  MaxMsgs = 2
  MaxDup = 0
  MaxCrash = 0
  MaxProp = 0
  MaxRead = 0
  MaxCC = 0
  MaxSnap = 0
  CCChoices = {}
  JoinKind <- NoJoin
  Eager = TRUE
CONSTRAINT Bounded
INVARIANT Safety
CHECK_DEADLOCK FALSE
