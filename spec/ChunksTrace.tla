----------------------------- MODULE ChunksTrace -----------------------------
(* Executions of the real chunk receiver (harness/transport/cksim_test.go) judged against      *)
(* Chunks.tla: Add's return value, the tracked streams, the directory layout and the number   *)
(* of notifications must be one of the outcomes the specification allows; a finalized         *)
(* snapshot must be byte-identical to its source and described by the notification; a         *)
(* temporary directory never outlives its stream (checked once the collector has run).        *)
EXTENDS Chunks, Json, TLC, SequencesExt

CONSTANT TraceFile
VARIABLES s, cfg, l, bad, extbad    \* extbad: indexes of streams that carried an undetectable corruption

Trace == ndJsonDeserialize(TraceFile)
vars == <<s, cfg, l, bad, extbad>>

Flag(ev, what) == IF \E x \in bad : x[1] = ev.t /\ x[4] = {what} THEN bad ELSE bad \cup {<<ev.t, ev.i, ev.op, {what}>>}

Obs(ev) == [tr |-> {<<ev.tracked[k].key, ev.tracked[k].next, ev.tracked[k].from, ev.tracked[k].tick>> : k \in 1..Len(ev.tracked)},
            tmp |-> {<<ev.tmp[k][1], ev.tmp[k][2]>> : k \in 1..Len(ev.tmp)},
            final |-> ToSet(ev.final), notes |-> ev.notes]
Proj(st) == [tr |-> {<<k, st.tr[k].next, st.tr[k].from, st.tr[k].tick>> : k \in DOMAIN st.tr}, tmp |-> st.tmp, final |-> st.final, notes |-> st.notes]

Init == s = CInit /\ cfg = [slots |-> 1, gct |-> 1, timeout |-> 1] /\ l = 1 /\ bad = {} /\ extbad = {}

Next ==
  /\ l <= Len(Trace)
  /\ l' = l + 1
  /\ LET ev == Trace[l] IN
     CASE ev.op = "Init" ->
            /\ s' = CInit /\ cfg' = [slots |-> ev.slots, gct |-> ev.gctick, timeout |-> ev.timeout]
            /\ bad' = bad /\ extbad' = {}
       [] ev.op = "Panic" -> bad' = Flag(ev, "Panic: " \o ev.msg) /\ UNCHANGED <<s, cfg, extbad>>
       [] ev.op = "MarkRemoved" -> s' = [s EXCEPT !.removed = TRUE] /\ UNCHANGED <<cfg, bad, extbad>>
       [] ev.op = "Tick" ->
            LET st == TickStep(cfg, s) IN
            /\ s' = st
            /\ bad' = IF Proj(st) # Obs(ev) THEN Flag(ev, "GC") 
                      ELSE IF ev.other # <<>> THEN Flag(ev, "UnexpectedDirectoryEntry") ELSE bad
            /\ UNCHANGED <<cfg, extbad>>
       [] ev.op = "Add" ->
            LET outs == AddOutcomes(cfg, s, ev)
                ok == {o \in outs : Proj(o.st) = Obs(ev) /\ o.ret = ev.ret}
                pick == IF ok # {} THEN CHOOSE o \in ok : TRUE ELSE CHOOSE o \in outs : TRUE
                eb == IF ev.corrupt = "ext" THEN extbad \cup {<<ev.index, "ext">>}
                      ELSE IF ev.corrupt = "main" /\ ev.pad THEN extbad \cup {<<ev.index, "pad">>} ELSE extbad
            IN /\ s' = pick.st
               /\ extbad' = eb
               /\ bad' = IF ok = {} THEN Flag(ev, "AddOutcome")
                         ELSE IF pick.fin /\ ~ev.same
                           THEN Flag(ev, IF <<ev.index, "ext">> \in eb THEN "FinalizedWithCorruptExternalFile"
                                         ELSE IF <<ev.index, "pad">> \in eb THEN "FinalizedWithCorruptHeaderBlock"
                                         ELSE "FinalizedNotIdentical")
                         ELSE IF ev.other # <<>> THEN Flag(ev, "UnexpectedDirectoryEntry")
                         ELSE bad
               /\ UNCHANGED cfg
       \* the collector's tick overlaps an Add of a first chunk for the same snapshot (two goroutines,
       \* Chunk.Tick and Chunk.Add): the result must be that of one of the two orders
       [] ev.op = "AddDuringTick" ->
            LET tickFirst == AddOutcomes(cfg, TickStep(cfg, s), ev)
                addFirst == {[st |-> TickStep(cfg, o.st), ret |-> o.ret, fin |-> o.fin] : o \in AddOutcomes(cfg, s, ev)}
                outs == tickFirst \cup addFirst
                ok == {o \in outs : Proj(o.st) = Obs(ev) /\ o.ret = ev.ret}
                pick == IF ok # {} THEN CHOOSE o \in ok : TRUE ELSE CHOOSE o \in tickFirst : TRUE
            IN /\ s' = pick.st
               /\ bad' = IF ok = {} THEN Flag(ev, "CollectorInterferesWithNewStream") ELSE bad
               /\ UNCHANGED <<cfg, extbad>>
       [] OTHER -> UNCHANGED <<s, cfg, bad, extbad>>

Spec == Init /\ [][Next]_vars
Report == IF l = Len(Trace) + 1 THEN PrintT(<<"CK-REPORT", Len(Trace), bad>>) ELSE TRUE
=============================================================================
