------------------------------ MODULE MCImport ------------------------------
(* The rule table of Import.tla enumerated exhaustively: every old membership over a small  *)
(* universe of replicas and addresses (each replica in at most one role or removed), every   *)
(* member list, importer and host address.  Checked: an accepted import yields a            *)
(* well-formed membership (nobody both member and removed, nobody forgotten, the importer   *)
(* is a member at its own address, no address or role of a surviving replica changes).      *)
EXTENDS Import, TLC

CONSTANTS Replicas, Addrs

VARIABLES old, list, importer, cfgaddr, done
vars == <<old, list, importer, cfgaddr, done>>

PartialFns(S, T) == UNION {[D -> T] : D \in SUBSET S}

Init ==
  /\ \E role \in [Replicas -> {"voter", "nonvoting", "witness", "removed", "unknown"}], a \in [Replicas -> Addrs] :
       old = [addrs |-> [r \in {x \in Replicas : role[x] = "voter"} |-> a[r]],
              nonvotings |-> [r \in {x \in Replicas : role[x] = "nonvoting"} |-> a[r]],
              witnesses |-> [r \in {x \in Replicas : role[x] = "witness"} |-> a[r]],
              removed |-> {x \in Replicas : role[x] = "removed"}]
  /\ list \in PartialFns(Replicas, Addrs)
  /\ importer \in Replicas /\ cfgaddr \in Addrs /\ done = FALSE

Next == done = FALSE /\ done' = TRUE /\ UNCHANGED <<old, list, importer, cfgaddr>>
Spec == Init /\ [][Next]_vars

Sound ==
  Accepted(old, list, importer, cfgaddr, "none") =>
    /\ WellFormed(old, list)
    /\ importer \in DOMAIN PostMembers(old, list) /\ PostMembers(old, list)[importer] = cfgaddr
    /\ \A r \in DOMAIN list : r \in DOMAIN old.addrs => list[r] = old.addrs[r]
    /\ \A r \in DOMAIN list : r \notin old.removed /\ r \notin DOMAIN old.nonvotings /\ r \notin DOMAIN old.witnesses
\* expected to be violated: some imports are accepted (vacuity)
NothingAccepted == ~Accepted(old, list, importer, cfgaddr, "none")
=============================================================================
