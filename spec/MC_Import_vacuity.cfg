SPECIFICATION Spec
CONSTANTS
  Replicas = {1, 2, 3}
  Addrs = {"a", "b", "c"}
INVARIANT NothingAccepted
