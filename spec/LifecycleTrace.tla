--------------------------- MODULE LifecycleTrace ---------------------------
(* Schedules of MCLifecycle replayed on the real exec engine (harness/root/lcsim_test.go):     *)
(* after every step the driver logs the number of Loaded / Offloaded calls the managed state    *)
(* machine has seen, the number of Close calls the user state machine has seen, the destroyed   *)
(* flag, and every call the user state machine received after its Close.  The model is         *)
(* recomputed along the schedule.  Verdict (C11): the user state machine is never closed twice  *)
(* and never called after Close - judged on the observations alone; a difference between        *)
(* model and observation that is not such a violation is reported as drift (LC-DRIFT).          *)
EXTENDS Lifecycle, Json, TLC

CONSTANT TraceFile
VARIABLES s, W, l, bad, drift, cnt

Trace == ndJsonDeserialize(TraceFile)
vars == <<s, W, l, bad, drift, cnt>>

ToSetS(q) == {q[k] : k \in 1..Len(q)}

Apply(st, act) ==
  CASE act[1] = "Start" -> DoStart(st)
    [] act[1] = "Stop" -> DoStop(st)
    [] act[1] = "Collect" -> DoCollect(st, act[2])
    [] act[1] = "Proceed" -> DoProceed(st, act[2])
    [] act[1] = "CloseHandle" -> DoCloseHandle(st, TRUE)
    [] OTHER -> st

\* reference traffic the model expects: one Loaded per Start and per load, one Offloaded per Stop and per offload
Loads(st, n) == n
Init == s = LInit({}) /\ W = {} /\ l = 1 /\ bad = {} /\ drift = {} /\ cnt = [schedules |-> 0, steps |-> 0, closed |-> 0, loads |-> 0, offloads |-> 0]

Next ==
  /\ l <= Len(Trace)
  /\ l' = l + 1
  /\ LET ev == Trace[l] IN
     CASE ev.ev = "Init" ->
            /\ W' = ToSetS(ev.workers) /\ s' = [LInit(ToSetS(ev.workers)) EXCEPT !.cci = 0]
            /\ cnt' = [cnt EXCEPT !.schedules = @ + 1]
            /\ UNCHANGED <<bad, drift>>
       [] ev.ev = "Step" ->
            LET s1 == Apply(s, ev.act)
                viol == (IF ev.closes > 1 THEN {"user_state_machine_closed_twice"} ELSE {})
                        \cup (IF ev.afterclose # <<>> THEN {"called_after_Close: " \o ev.afterclose[1]} ELSE {})
                settle == ev.act[1] \in {"Settle", "EngineClose"}
                differs == ~settle /\ ev.note = "" /\
                           (ev.closes # s1.closeCalls \/ ev.destroyed # s1.destroyed)
            IN /\ s' = s1
               /\ bad' = bad \cup {<<ev.t, ev.i, "Step", {v}>> : v \in viol}
               /\ drift' = IF viol = {} /\ (differs \/ ev.note # "")
                           THEN drift \cup {<<ev.t, ev.i, ev.act[1], {IF ev.note # "" THEN ev.note ELSE "closes/destroyed differ from the model"}>>}
                           ELSE drift
               /\ cnt' = [cnt EXCEPT !.steps = @ + 1,
                                     !.closed = @ + (IF ev.act[1] = "Settle" /\ ev.closes = 1 THEN 1 ELSE 0),
                                     !.loads = IF ev.act[1] = "Settle" THEN @ + ev.loads ELSE @,
                                     !.offloads = IF ev.act[1] = "Settle" THEN @ + ev.offloads ELSE @]
               /\ UNCHANGED W
       [] ev.ev = "Panic" -> bad' = bad \cup {<<ev.t, ev.i, "Panic", {ev.msg}>>} /\ UNCHANGED <<s, W, drift, cnt>>
       [] OTHER -> UNCHANGED <<s, W, bad, drift, cnt>>
Spec == Init /\ [][Next]_vars
Report == IF l = Len(Trace) + 1
          THEN PrintT(<<"LC-REPORT", Len(Trace), bad>>) /\ PrintT(<<"LC-DRIFT", drift>>) /\ PrintT(<<"LC-COUNT", cnt>>)
          ELSE TRUE
=============================================================================
