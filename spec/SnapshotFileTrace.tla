-------------------------- MODULE SnapshotFileTrace --------------------------
(* Judges the cases executed by harness/rsm/sfsim_test.go on the real BlockWriter/blockReader,  *)
(* SnapshotWriter/Reader/Validator and ShrinkSnapshot against SnapshotFile.tla.                *)
EXTENDS SnapshotFile, Json, TLC, SequencesExt, FiniteSets

CONSTANT TraceFile
VARIABLES l, bad

Trace == ndJsonDeserialize(TraceFile)
vars == <<l, bad>>
Flag(ev, what) == IF \E x \in bad : x[1] = ev.t /\ x[4] = {what} THEN bad ELSE bad \cup {<<ev.t, ev.i, ev.op, {what}>>}
FlagAll(ev, ws) == bad \cup {<<ev.t, ev.i, ev.op, {w}>> : w \in {x \in ws : ~\E y \in bad : y[1] = ev.t /\ y[4] = {x}}}

BlocksProblems(ev) ==
  (IF ev.size = BlockStreamSize(ev.n, ev.b) /\ ev.blocks = BlockSizes(ev.n, ev.b) THEN {} ELSE {"BlockLayout"})
  \cup (IF ev.readok THEN {} ELSE {"ReadBackDiffers"})
  \cup (IF ev.eofzero THEN {"ReadAfterEOFReturnsData"} ELSE {})
  \* every changed bit of the block stream is noticed
  \cup (IF ev.flips = <<>> THEN {} ELSE {"BlockFlipNotDetected"})
  \* a cut is noticed unless it leaves whole blocks (the file tail records the total for that)
  \cup (IF \A k \in 1..Len(ev.truncs) : ev.truncs[k].off \in BlockEnds(ev.n, ev.b) THEN {} ELSE {"BlockCutNotDetected"})

FileProblems(ev) ==
  (IF ev.ct # 0 \/ (ev.size = (IF ev.ver = 1 THEN V1FileSize(16 + ev.n) ELSE FileSize(16 + ev.n, ProdBlock)) /\ ev.rec = ev.size)
     THEN {} ELSE {"FileSizeFormula"})
  \cup (IF ev.ct = 0 \/ ev.rec = ev.size THEN {} ELSE {"RecordedSizeDiffers"})
  \cup (IF ev.readok THEN {} ELSE {"ReadBackDiffers"})
  \cup (IF ev.vok THEN {} ELSE {"ValidatorRefusesWriterOutput"})
  \cup (IF ev.shrinkok THEN {} ELSE {"ShrunkNotLoadableAsEmpty"})
  \* a file with a non-empty payload is not a shrunk file; the writer leaves the caller's buffer alone
  \cup (IF ev.shrunkbefore /\ ev.n > 0 THEN {"UnshrunkFileReportedShrunk"} ELSE {})
  \cup (IF ev.bufkept THEN {} ELSE {"WriterModifiedCallersBuffer"})
  \* a flipped bit never makes the reader hand out different bytes
  \cup (IF \A k \in 1..Len(ev.flips) : ev.flips[k].res # "diff" \/ InHeader(ev.flips[k].off) THEN {} ELSE {"FlipYieldsDifferentBytes"})
  \cup (IF \A k \in 1..Len(ev.flips) : ev.flips[k].res # "diff" \/ ~InHeader(ev.flips[k].off) THEN {} ELSE {"HeaderFlipYieldsDifferentBytes"})
  \* the stream validator accepts exactly what the writer produced
  \cup (IF \A k \in 1..Len(ev.flips) : ev.flips[k].vres = "reject" \/ InHeader(ev.flips[k].off) THEN {} ELSE {"ValidatorAcceptsFlip"})
  \cup (IF \A k \in 1..Len(ev.flips) : ev.flips[k].vres = "reject" \/ ~InHeader(ev.flips[k].off) THEN {} ELSE {"ValidatorAcceptsHeaderFlip"})
  \cup (IF \A k \in 1..Len(ev.truncs) : ev.truncs[k].res = "fail" THEN {} ELSE {"CutFileLoads"})
  \cup (IF \A k \in 1..Len(ev.truncs) : ev.truncs[k].vres = "reject" THEN {} ELSE {"ValidatorAcceptsCutStream"})

Init == l = 1 /\ bad = {}
Next ==
  /\ l <= Len(Trace)
  /\ l' = l + 1
  /\ LET ev == Trace[l] IN
     bad' = CASE ev.op = "Blocks" -> FlagAll(ev, BlocksProblems(ev))
              [] ev.op = "File" -> FlagAll(ev, FileProblems(ev))
              [] ev.op = "Panic" -> Flag(ev, "Panic: " \o ev.msg)
              [] OTHER -> bad
Spec == Init /\ [][Next]_vars
Report == IF l = Len(Trace) + 1 THEN PrintT(<<"SF-REPORT", Len(Trace), bad>>) ELSE TRUE
=============================================================================
