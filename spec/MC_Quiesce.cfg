SPECIFICATION Spec
CONSTANTS
  Election = 2
  MaxTick = 50
INVARIANTS Resumes HeartbeatOK GoesIdle Announced NoPingPong
