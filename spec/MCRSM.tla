-------------------------------- MODULE MCRSM --------------------------------
(* Exhaustive exploration of RSM.tla for small bounds:                                     *)
(*  - every sequence of register / unregister / propose / retry / acknowledge operations   *)
(*    of more clients than the LRU limit (C05), with a snapshot/restore at every point     *)
(*    (a restore is the identity on the specification state, checked on the code by        *)
(*    RSMTrace), and                                                                       *)
(*  - every sequence of membership change requests over a few ids and addresses, ordered   *)
(*    and unordered (C07 rule table).                                                      *)
EXTENDS RSM, TLC

CONSTANTS Clients, MaxSeries, LRU, MaxLen,      \* session part
          Ids, Addrs, Ordered, DoSessions, DoMembership
VARIABLES r, done, inc, results, viol
\* done: <<cid, incarnation, series>> for which the user Update ran; inc: cid -> incarnation
\* results: <<cid, incarnation, series>> -> result first reported

mvars == <<r, done, inc, results, viol>>

Init == r = RInit /\ done = {} /\ inc = [c \in Clients |-> 0] /\ results = {} /\ viol = {}

Step(e) ==
  LET res == ApplyEntry(r, e, LRU, Ordered)
      ran == res.st.cnt # r.cnt
      key == <<e.cid, inc[e.cid], e.series>>
  IN /\ r' = res.st
     /\ done' = IF ran /\ e.kind = "prop" /\ e.series # 0 THEN done \cup {key} ELSE done
     /\ inc' = IF e.kind = "reg" /\ ~res.cb.rejected THEN [inc EXCEPT ![e.cid] = @ + 1] ELSE inc
     /\ results' = IF e.kind = "prop" /\ e.series # 0 /\ res.cb.called /\ ~res.cb.rejected
                      /\ ~\E x \in results : x[1] = key
                     THEN results \cup {<<key, res.cb.value>>} ELSE results
     /\ viol' = viol
          \* C05 at-most-once: the user Update never runs twice for one (session, series)
          \cup (IF (ran /\ e.kind = "prop" /\ e.series # 0) => key \notin done THEN {} ELSE {"AtMostOnce"})
          \* every completed retry returns the result of the single application
          \cup (IF (e.kind = "prop" /\ e.series # 0 /\ res.cb.called /\ ~res.cb.rejected) =>
                     \A x \in results : x[1] = key => x[2] = res.cb.value THEN {} ELSE {"RetrySameResult"})
          \* a proposal of an unknown session is rejected and touches nothing but index/term
          \cup (IF (e.kind = "prop" /\ e.series # 0 /\ SessPos(r.sess, e.cid) = 0) =>
                     (res.cb.rejected /\ res.st.kv = r.kv /\ res.st.cnt = r.cnt /\ res.st.sess = r.sess)
                 THEN {} ELSE {"UnknownSessionRejected"})
          \* an acknowledged duplicate is ignored
          \cup (IF (e.kind = "prop" /\ e.series # 0 /\ SessPos(r.sess, e.cid) # 0 /\ e.series <= e.resp) => ~res.cb.called
                 THEN {} ELSE {"AckedDuplicateIgnored"})
          \* C07 statement-level membership properties of the step
          \cup (IF MembershipStepOK(r, res.st) THEN {} ELSE {"MembershipStep"})

Base(k) == [idx |-> r.idx + 1, term |-> 1, kind |-> k, cid |-> 0, series |-> 0, resp |-> 0, key |-> 0, val |-> 1,
            cc |-> [typ |-> "AddNode", id |-> 0, addr |-> "", ccid |-> 0, init |-> FALSE]]

SessionNext ==
  /\ DoSessions /\ r.idx < MaxLen
  /\ \/ \E c \in Clients : Step([Base("reg") EXCEPT !.cid = c])
     \/ \E c \in Clients : Step([Base("unreg") EXCEPT !.cid = c])
     \/ \E c \in Clients : \E s \in 1..MaxSeries : \E a \in 0..MaxSeries :
          Step([Base("prop") EXCEPT !.cid = c, !.series = s, !.resp = a, !.val = s])

MemberNext ==
  /\ DoMembership /\ r.idx < MaxLen
  /\ \E t \in {"AddNode", "RemoveNode", "AddNonVoting", "AddWitness"} : \E i \in Ids : \E a \in Addrs :
       \E cid \in {r.mem.ccid, 0} :
         Step([Base("cc") EXCEPT !.cc = [typ |-> t, id |-> i, addr |-> a, ccid |-> cid, init |-> r.idx = 0]])

Next == SessionNext \/ MemberNext
Spec == Init /\ [][Next]_mvars

\* state invariants
SessionsWellFormed ==
  /\ Len(r.sess) <= LRU
  /\ \A i \in 1..Len(r.sess) : \A p \in r.sess[i].hist : p[1] > r.sess[i].resp
  /\ \A i, j \in 1..Len(r.sess) : r.sess[i].cid = r.sess[j].cid => i = j
MembershipWellFormed == RemovedNeverMember(r.mem) /\ KindsDisjointM(r.mem) /\ AddressUnique(r.mem)
Inv == SessionsWellFormed /\ MembershipWellFormed /\ viol = {}
=============================================================================
