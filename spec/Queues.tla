------------------------------- MODULE Queues -------------------------------
(***************************************************************************)
(* queue.go: the double-buffered queues between the client-facing entry    *)
(* points of a NodeHost and the step worker of a replica.                  *)
(*   entryQueue      - proposals (bounded; `paused` while the replica is   *)
(*                     rate limited: everything is refused until the next  *)
(*                     get says otherwise)                                 *)
(*   readIndexQueue  - ReadIndex requests (bounded)                        *)
(*   readyShard      - the set of shards that have work for a worker       *)
(* get() hands over everything added since the previous get(), in order,   *)
(* and flips the buffers: the slice handed over stays untouched until the  *)
(* next get() (the step worker finishes with it before it asks again).     *)
(* What the rest of the system relies on (C12: an accepted request gets    *)
(* exactly one result): whatever add() accepted is handed over by exactly  *)
(* one get(), nothing else is, and a refused add() leaves no trace.        *)
(* kind = "entry" | "read"; items are the integers the driver assigns.     *)
(***************************************************************************)
EXTENDS Integers, Sequences, FiniteSets

QInit(kind, size) == [kind |-> kind, size |-> size, buf |-> <<>>, stopped |-> FALSE, paused |-> FALSE]

\* add returns <<added, stopped>>
AddRet(q) == IF (q.kind = "entry" /\ q.paused) \/ Len(q.buf) >= q.size THEN <<FALSE, q.stopped>>
             ELSE IF q.stopped THEN <<FALSE, TRUE>> ELSE <<TRUE, FALSE>>
Add(q, x) == IF AddRet(q)[1] THEN [q EXCEPT !.buf = Append(@, x)] ELSE q
GetRet(q) == q.buf
Get(q, paused) == [q EXCEPT !.buf = <<>>, !.paused = (q.kind = "entry" /\ paused)]
Close(q) == [q EXCEPT !.stopped = TRUE]

\* readyShard
RInit == {}
RSet(r, k) == r \cup {k}
RGetRet(r) == r
RGet(r) == {}
=============================================================================
