------------------------------ MODULE Pipeline ------------------------------
(* One replica's step / save / send / commit pipeline (engine.go processSteps, node.go)    *)
(* seen from outside: what it has made durable (SaveRaftState) and what it has told the    *)
(* world (messages that reached the transport).  The operators are pure functions of a      *)
(* "durable image" record, so the same definitions serve                                    *)
(*   - MCPipeline.tla : exhaustive exploration of the pipeline with a crash at every pc,    *)
(*   - PipelineTrace.tla : evaluation on event streams recorded from real NodeHosts.        *)
(*                                                                                          *)
(* C04: before any vote, vote request, replication acknowledgement or heartbeat response    *)
(* leaves a replica, the term, vote and log entries it implies are durable; a restarted     *)
(* replica has a term no lower than before, the same vote for that term and every entry it  *)
(* acknowledged.                                                                            *)
EXTENDS Integers, Sequences, FiniteSets

Max2(a, b) == IF a > b THEN a ELSE b
Min2(a, b) == IF a < b THEN a ELSE b

\* ---------------------------------------------------------------- durable image
\* entries base+1 .. base+Len(log) are present, log[k] is the term of entry base+k;
\* ss/ssterm is the snapshot recorded in the log store.
DInit == [term |-> 0, vote |-> 0, commit |-> 0, base |-> 0, log |-> <<>>, ss |-> 0, ssterm |-> 0]

Last(d) == d.base + Len(d.log)
LastIdx(d) == Max2(d.ss, Last(d))
Has(d, i) == i > d.base /\ i <= Last(d)
TermAt(d, i) == IF Has(d, i) THEN d.log[i - d.base] ELSE 0

\* pb.Update as SaveRaftState makes it durable (internal/logdb/db.go saveRaftState,
\* internal/tan/db.go write): hard state replaced when present, snapshot record raised,
\* EntriesToSave overwrite everything from their first index on.
ApplyUpdate(d, u) ==
  LET d1 == IF u.hasstate THEN [d EXCEPT !.term = u.term, !.vote = u.vote, !.commit = u.commit] ELSE d
      d2 == IF u.ssindex > d1.ss THEN [d1 EXCEPT !.ss = u.ssindex, !.ssterm = u.ssterm] ELSE d1
  IN IF u.n = 0 THEN d2
     ELSE IF d2.log = <<>> \/ u.first <= d2.base + 1 \/ u.first > Last(d2) + 1
            THEN [d2 EXCEPT !.base = u.first - 1, !.log = u.terms]
            ELSE [d2 EXCEPT !.log = SubSeq(@, 1, u.first - 1 - d2.base) \o u.terms]

RECURSIVE ApplyUpdates(_, _, _)
ApplyUpdates(d, us, k) == IF k > Len(us) THEN d ELSE ApplyUpdates(ApplyUpdate(d, us[k]), us, k + 1)

\* ---------------------------------------------------------------- what a message implies
\* Replicate (and Ping) are the "free order" messages of node.sendReplicateMessages: they leave
\* before the save (raft thesis 10.2.1) and are excluded by the property.  A pre-vote request
\* carries a term the sender has not adopted; a granted pre-vote echoes that term.
Implies(m) == ~(m.type \in {"Replicate", "Ping", "RequestPreVote"})
              /\ ~(m.type = "RequestPreVoteResp" /\ ~m.reject)

MsgCovered(d, self, m) ==
  IF ~Implies(m) THEN TRUE
  ELSE /\ d.term >= m.term
       /\ (m.type = "RequestVote" /\ d.term = m.term) => d.vote = self
       /\ (m.type = "RequestVoteResp" /\ ~m.reject /\ d.term = m.term) => d.vote = m.to
       /\ (m.type = "ReplicateResp" /\ ~m.reject) => LastIdx(d) >= m.logindex

\* "Whatever a replica has told the outside world survives a crash": a Replicate message also tells the
\* receiver a commit index, and the receiver applies up to it.  With two or more voting members the
\* acknowledgement that completes a quorum is handled in a later step, after the leader's own save; a
\* leader that is the only voting member is the quorum on its own (raft.appendEntries commits at once),
\* so the commit index it tells a non-voting member or a witness must be covered by its own durable log.
CommitCovered(d, m) == (m.type = "Replicate") => m.commit <= LastIdx(d)

\* a replica hands entry i to the user state machine (and so may report a proposal Completed)
\* only when it has made the entry durable itself: engine.go applies the committed entries of an
\* update that still has entries to save after SaveRaftState (FastApply is only used when the
\* committed entries were saved by an earlier update)
ApplyCovered(d, i) == LastIdx(d) >= i

\* ---------------------------------------------------------------- what was told to the world
WInit == [maxterm |-> 0, voteterm |-> 0, votewho |-> 0, acked |-> 0]

Told(w, self, m) ==
  IF ~Implies(m) THEN w
  ELSE LET w1 == [w EXCEPT !.maxterm = Max2(@, m.term)]
           w2 == IF m.type = "RequestVote" /\ m.term >= w1.voteterm
                   THEN [w1 EXCEPT !.voteterm = m.term, !.votewho = self]
                 ELSE IF m.type = "RequestVoteResp" /\ ~m.reject /\ m.term >= w1.voteterm
                   THEN [w1 EXCEPT !.voteterm = m.term, !.votewho = m.to]
                 ELSE w1
       IN IF m.type = "ReplicateResp" /\ ~m.reject THEN [w2 EXCEPT !.acked = Max2(@, m.logindex)] ELSE w2

\* an overwrite made durable before the crash withdraws the acknowledgement of what it replaced
Withdraw(w, u) == IF u.n > 0 /\ u.first <= w.acked THEN [w EXCEPT !.acked = u.first - 1] ELSE w

\* ---------------------------------------------------------------- restart
\* r: image the log store returns after the restart; d: image built from the saves that
\* completed before the crash instant; w: what the replica had told the world.
RestartMonotone(r, d, w) ==
  /\ r.term >= w.maxterm
  /\ r.term >= d.term
  /\ (r.term = w.voteterm /\ w.votewho # 0) => r.vote = w.votewho
  /\ (r.term = d.term /\ d.vote # 0) => r.vote = d.vote
  /\ LastIdx(r) >= w.acked
  /\ \A i \in (r.ss + 1)..w.acked : Has(r, i)      \* acknowledged, not covered by the snapshot: still there
  /\ \A i \in (Max2(Max2(r.ss, r.base), d.base) + 1)..w.acked : TermAt(r, i) = TermAt(d, i)

\* C08 (compaction part): the log a replica restarts from continues its recorded snapshot - log
\* compaction never removed an entry that the recorded snapshot does not cover
LogContinuesSnapshot(r) == Len(r.log) > 0 => r.base <= r.ss

\* equality of two images where both have entries (compaction may have removed a prefix, a
\* locally generated snapshot may have raised the snapshot record)
SameImage(r, x) ==
  /\ r.term = x.term /\ r.vote = x.vote   \* the commit index is not required to be durable (Tan does not sync commit-only updates)
  /\ LastIdx(r) = LastIdx(x)
  /\ \A i \in (Max2(Max2(r.ss, r.base), x.base) + 1)..Last(x) : TermAt(r, i) = TermAt(x, i)
=============================================================================
