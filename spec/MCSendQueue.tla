----------------------------- MODULE MCSendQueue -----------------------------
(* every interleaving of senders, the worker and the environment (connection up / down, breaker timer) *)
EXTENDS SendQueue, TLC
CONSTANTS Cap, MaxMsg
VARIABLES s, next, up
vars == <<s, next, up>>
Init == s = SQInit /\ next = 1 /\ up = TRUE
DoSend == /\ next <= MaxMsg /\ s' = Send(s, next, Cap)[2] /\ next' = next + 1 /\ UNCHANGED up
DoConnect == s.worker = "connecting" /\ s' = Connect(s, up) /\ UNCHANGED <<next, up>>
DoProcess == s.worker = "running" /\ Len(s.ch) > 0 /\ s' = Process(s, up) /\ UNCHANGED <<next, up>>
DoIdle == s.worker = "running" /\ Len(s.ch) = 0 /\ s' = Idle(s) /\ UNCHANGED <<next, up>>
DoLeave == s.worker \in {"leaving_failed", "leaving_idle"} /\ s' = Leave(s) /\ UNCHANGED <<next, up>>
DoBreaker == ~s.breaker /\ s' = BreakerReset(s) /\ UNCHANGED <<next, up>>
Flip == up' = ~up /\ UNCHANGED <<s, next>>
Next == DoSend \/ DoConnect \/ DoProcess \/ DoIdle \/ DoLeave \/ DoBreaker \/ Flip
Spec == Init /\ [][Next]_vars
Inv == /\ QueueHasWorker(s) /\ NoWorkerWithoutQueue(s) /\ Increasing(s.delivered)
       /\ \A i \in 1..Len(s.delivered) : s.delivered[i] < next
\* the heal: from any reachable state, with the connection up and everybody taking steps, a message that is sent
\* after the worker situation has settled is delivered. Checked as: no reachable state with the target up, the
\* breaker ready, nothing in flight and the queue registered without a worker (the dead end of the ablation)
NoDeadEnd == ~(s.reg /\ s.worker = "none")
=============================================================================
