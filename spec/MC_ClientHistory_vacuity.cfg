SPECIFICATION Spec
CONSTANTS
  Clients = {1, 2}
  MaxOps = 3
  KeysUsed = {"a"}
INVARIANT AllLinearizable
