SPECIFICATION Spec
CONSTANTS
  Clients = {1, 2}
  MaxOps = 4
  KeysUsed = {"a", "b"}
INVARIANT Agree
