SPECIFICATION Spec
CONSTANTS
  W = {1, 2}
  MaxTasks = 5
  Concurrent = FALSE
  OnDisk = FALSE
  Ablate = {}
INVARIANT Inv
PROPERTY Progress
PROPERTY Initialised
CHECK_DEADLOCK FALSE
