-------------------------- MODULE SnapshotSendTrace --------------------------
(* Requests to send a snapshot made on the real Transport (tssim) with the fault the harness injected; TLC runs   *)
(* the operators of SnapshotSend.tla over the same request and compares what reached the connection and what the  *)
(* message handler was told: exactly one report, successful iff every chunk got through, never a hanging producer. *)
EXTENDS SnapshotSend, Json, TLC
CONSTANT TraceFile
VARIABLES l, bad, cnt
Trace == ndJsonDeserialize(TraceFile)
vars == <<l, bad, cnt>>
Init == l = 1 /\ bad = {} /\ cnt = [ops |-> 0, stop |-> 0, ok |-> 0, refused |-> 0, connect |-> 0, chunk |-> 0, giveup |-> 0]
Flag(ev, what) == bad \cup {<<ev.t, ev.i, ev.ev, what>>}
\* the request as the specification runs it: chunk by chunk, producer and job taking turns
RECURSIVE Run(_, _, _)
Run(j, c, ev) ==
  IF Ended(j) \/ c > ev.n THEN j
  ELSE IF ev.fault = "giveup" /\ c = ev.k THEN SendOne(Receive(j, 0, 8)[2], TRUE)
  ELSE Run(SendOne(Receive(j, c, 8)[2], ~(ev.fault = "chunk" /\ c = ev.k)), c + 1, ev)
Expected(ev) ==
  LET j0 == JInit(ev.n, ev.kind = "stream", ev.fault = "unknown") IN
  IF Ended(j0) THEN j0
  ELSE LET j1 == Connect(j0, ev.fault # "connect") IN
       \* the transport is closed under the job: however far it got, it ends as failed
       IF ev.fault = "stop" THEN [Stop(j1) EXCEPT !.sent = ev.sent] ELSE Run(j1, 1, ev)
Next ==
  /\ l <= Len(Trace)
  /\ l' = l + 1
  /\ LET ev == Trace[l] IN
     IF ev.ev # "Op" THEN UNCHANGED <<bad, cnt>>
     ELSE LET e == Expected(ev)
              what == (IF ev.hung THEN {"producer_or_job_hangs"} ELSE {})
                 \cup (IF ev.failed + ev.success = 1 THEN {} ELSE {"not_exactly_one_report"})
                 \cup (IF ev.failed + ev.success = 1 /\ (ev.success = 1) # (e.reports = <<FALSE>>) THEN {"report_not_truthful"} ELSE {})
                 \cup (IF ev.sent = e.sent THEN {} ELSE {"chunks_sent"})
                 \cup (IF ev.fault = "stop" /\ ~(ev.sent <= ev.accepted /\ ev.refused) THEN {"producer_not_sent_away_at_stop"} ELSE {})
                 \cup (IF ev.ret = (e.st # "refused") THEN {} ELSE {"answer"})
                 \cup (IF ev.kind = "file" /\ ev.released # 1 THEN {"snapshot_reference_not_given_back"} ELSE {})
          IN /\ bad' = IF what = {} THEN bad ELSE Flag(ev, what)
             /\ cnt' = [cnt EXCEPT !.ops = @ + 1, !.stop = @ + (IF ev.fault = "stop" THEN 1 ELSE 0), !.ok = @ + (IF ev.fault = "" THEN 1 ELSE 0),
                                   !.refused = @ + (IF ev.fault = "unknown" THEN 1 ELSE 0),
                                   !.connect = @ + (IF ev.fault = "connect" THEN 1 ELSE 0),
                                   !.chunk = @ + (IF ev.fault = "chunk" THEN 1 ELSE 0),
                                   !.giveup = @ + (IF ev.fault = "giveup" THEN 1 ELSE 0)]
Spec == Init /\ [][Next]_vars
Report == IF l = Len(Trace) + 1 THEN PrintT(<<"TS-REPORT", Len(Trace), bad>>) /\ PrintT(<<"TS-COUNT", cnt>>) ELSE TRUE
=============================================================================
