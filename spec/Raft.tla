------------------------------- MODULE Raft -------------------------------
(***************************************************************************)
(* The Raft core of lni/dragonboat (internal/raft) as it is implemented,   *)
(* together with the part of the node glue that feeds it (Update / save /  *)
(* send / Commit cycle, apply of committed entries incl. membership        *)
(* changes, snapshot, compaction, crash and restart).                      *)
(*                                                                         *)
(* The module is written in a functional style: every Go handler is a pure *)
(* operator from a replica record to a replica record (`s' = F(s, m)`),    *)
(* named after the Go function it transcribes.  Two specifications are     *)
(* built from the same operators:                                          *)
(*   - MCRaft.tla   : exhaustive exploration (network = set of messages,   *)
(*                    loss, duplication, reordering, crash/restart ...)    *)
(*   - RaftTrace.tla: validation of executions of the real code recorded   *)
(*                    by the simulator rsim (harness/raft), where the same *)
(*                    operators are evaluated as predicates on the logged  *)
(*                    (pre, post) pairs, and the property invariants are   *)
(*                    evaluated on the observed states.                    *)
(*                                                                         *)
(* Deliberate, documented abstractions: the in-memory rate limiter is off  *)
(* (MaxInMemLogSize = 0), LogQuery and quiesce are not modelled here,      *)
(* Replicate messages carry the whole suffix from `next` (maxEntrySize is  *)
(* never reached by the drivers), the delayed snapshot-status path         *)
(* (SnapshotStatus with Hint # 0) is not used, a ReadIndex context is one  *)
(* integer.  Deviations of the code from textbook Raft are modelled as the *)
(* code has them (see comments marked CODE:).                              *)
(***************************************************************************)
EXTENDS Integers, Sequences, FiniteSets, FiniteSetsExt, TLC

CONSTANTS Replica,        \* set of replica ids (positive integers)
          ET, HT,         \* election / heartbeat timeout in ticks
          PreVote, CheckQuorum,
          G               \* record of BOOLEAN guards; all TRUE = faithful model

None == 0

\* every safety / liveness mechanism switched on: the faithful model
GuardNames == {"UpToDateCheck", "OneVotePerTerm", "ExactQuorum", "VotesFromVotersOnly",
               "CommitCurrentTermOnly", "LogMatchingCheck", "NoTruncateCommitted", "CommitMinWithLastNew",
               "HeartbeatCommitCappedByMatch", "SnapshotRestoreCommitCheck", "OnePendingCC",
               "NoCampaignWithUnappliedCC", "LeaderStepsDownWhenRemoved", "ReadIndexNeedsTermCommit",
               "ReadIndexQuorum", "ReadIndexHintToVotersOnly", "WitnessMetadataOnly",
               "PersistBeforeRestart", "HeartbeatRespUnpauses", "NoOPFreesStuckCandidate"}
GAll == [g \in GuardNames |-> TRUE]
GWithout(x) == [g \in GuardNames |-> g # x]

(* ------------------------------------------------------------------ values *)
\* config change encoding inside an entry value: op * 100 + replica id
AddNodeOp == 1  RemoveOp == 2  AddNonVotingOp == 3  AddWitnessOp == 4
CCOp(v) == v \div 100
CCId(v) == v % 100
CCVal(op, id) == op * 100 + id

NoSnap == [index |-> 0, term |-> 0, v |-> {}, nv |-> {}, w |-> {}, rm |-> {}, wit |-> FALSE]
EmptyMem == [v |-> {}, nv |-> {}, w |-> {}, rm |-> {}]

Max2(a, b) == IF a > b THEN a ELSE b
Min2(a, b) == IF a < b THEN a ELSE b

Msg(t, from, to, term) ==
  [mtype |-> t, from |-> from, to |-> to, term |-> term, lidx |-> 0, lterm |-> 0,
   commit |-> 0, reject |-> FALSE, hint |-> 0, ents |-> <<>>, snap |-> NoSnap]

NewRemote(match, next) == [match |-> match, next |-> next, st |-> "Retry", si |-> 0, act |-> FALSE]

(* ----------------------------------------------------------- log accessors *)
LastIdx(s) == s.sidx + Len(s.log)
\* CODE: entryLog.term returns 0 (no error) outside [first-1, last]
TermAt(s, i) == IF i = s.sidx THEN s.sterm
                ELSE IF i > s.sidx /\ i <= LastIdx(s) THEN s.log[i - s.sidx].term
                ELSE 0
EntryAt(s, i) == s.log[i - s.sidx]
LastTerm(s) == TermAt(s, LastIdx(s))
\* entries with index in lo..hi (inclusive), as a sequence
Slice(s, lo, hi) == IF hi < lo THEN <<>> ELSE SubSeq(s.log, lo - s.sidx, hi - s.sidx)

Members(s) == s.V \cup s.NV \cup s.W
VotingIds(s) == s.V \cup s.W
NumVoting(s) == Cardinality(VotingIds(s))
Quorum(s) == NumVoting(s) \div 2 + 1
SingleQuorum(s) == Quorum(s) = 1

\* CODE: log.upToDate
UpToDate(s, idx, term) ==
  \/ ~G.UpToDateCheck
  \/ term > LastTerm(s)
  \/ term = LastTerm(s) /\ idx >= LastIdx(s)

(* ------------------------------------------------------------------- sends *)
Send(s, m) == [s EXCEPT !.msgs = @ \cup {m}]

\* CODE: raft.send / finalizeMessageTerm: everything except requests and vote
\* requests is stamped with the sender's term at the time of the send.
MsgT(s, t, to) == Msg(t, s.id, to, s.term)

(* -------------------------------------------------------------- role moves *)
\* CODE: raft.reset
Reset(s, t, rst, r) ==
  LET s1 == IF s.term # t THEN [s EXCEPT !.term = t, !.vote = None] ELSE s
      s2 == IF rst THEN [s1 EXCEPT !.etick = 0, !.rto = r] ELSE s1
      li == LastIdx(s)
  IN [s2 EXCEPT !.vg = {}, !.vr = {}, !.htick = 0, !.riq = <<>>, !.pcc = FALSE,
                !.xfer = None,
                !.rem = [i \in DOMAIN s.rem |->
                           NewRemote(IF i = s.id THEN li ELSE 0, li + 1)]]

BecomeFollower(s, t, l, r)   == [Reset([s EXCEPT !.role = "F"], t, TRUE, r) EXCEPT !.lead = l]
BecomeFollowerKE(s, t, l, r) == [Reset([s EXCEPT !.role = "F"], t, FALSE, r) EXCEPT !.lead = l]
\* non-voting and witness replicas keep their role
KeepRole(s, t, l, r) == [Reset(s, t, TRUE, r) EXCEPT !.lead = l]

(* ------------------------------------------------------------------ remotes *)
\* CODE: remote.tryUpdate; returns <<updated?, rp'>>
TryUpdate(rp, idx) ==
  LET rp1 == IF rp.next < idx + 1 THEN [rp EXCEPT !.next = idx + 1] ELSE rp IN
  IF rp1.match < idx
    THEN <<TRUE, [rp1 EXCEPT !.match = idx,
                            !.st = IF rp1.st = "Wait" THEN "Retry" ELSE rp1.st]>>
    ELSE <<FALSE, rp1>>

\* CODE: remote.becomeRetry
RpBecomeRetry(rp) ==
  [rp EXCEPT !.next = IF rp.st = "Snap" THEN Max2(rp.match + 1, rp.si + 1) ELSE rp.match + 1,
             !.si = 0, !.st = "Retry"]

\* CODE: remote.respondedTo
RespondedTo(rp) ==
  IF rp.st = "Retry" THEN [rp EXCEPT !.next = rp.match + 1, !.si = 0, !.st = "Repl"]
  ELSE IF rp.st = "Snap" /\ rp.match >= rp.si THEN RpBecomeRetry(rp)
  ELSE rp

\* CODE: remote.decreaseTo; returns <<changed?, rp'>>
DecreaseTo(rp, rejected, last) ==
  IF rp.st = "Repl"
    THEN IF rejected <= rp.match THEN <<FALSE, rp>>
         ELSE <<TRUE, [rp EXCEPT !.next = rp.match + 1]>>
    ELSE IF rp.next - 1 # rejected THEN <<FALSE, rp>>
         ELSE <<TRUE, [rp EXCEPT !.st = IF rp.st = "Wait" THEN "Retry" ELSE rp.st,
                                 !.next = Max2(1, Min2(rejected, last + 1))]>>

(* ------------------------------------------------------------------- commit *)
\* CODE: raft.tryCommit: the quorum-th largest match value among voters+witnesses
QMatch(s) ==
  LET ids == VotingIds(s)
      vs  == {s.rem[i].match : i \in ids}
      cnt(v) == Cardinality({i \in ids : s.rem[i].match >= v})
      q == IF G.ExactQuorum THEN Quorum(s) ELSE Max2(1, Quorum(s) - 1)
  IN CHOOSE v \in vs : cnt(v) >= q /\ \A w \in vs : w > v => cnt(w) < q

CanCommit(s) ==
  LET q == QMatch(s) IN
  /\ q > s.com
  /\ IF G.CommitCurrentTermOnly THEN TermAt(s, q) = s.term ELSE TermAt(s, q) # 0
TryCommit(s) == IF CanCommit(s) THEN [s EXCEPT !.com = QMatch(s)] ELSE s

(* --------------------------------------------------------------- replicate *)
\* CODE: makeMetadataEntries
MetaEnts(ents) == [i \in 1..Len(ents) |->
                     IF ents[i].typ = "CC" THEN ents[i]
                     ELSE [term |-> ents[i].term, typ |-> "Meta", val |-> 0]]

\* the snapshot a leader would send: pending in-memory one, else the recorded one
CurSnap(s) == IF s.snap # NoSnap THEN s.snap ELSE s.dsnap

\* CODE: raft.sendReplicateMessage (+ makeReplicateMessage, makeInstallSnapshotMessage)
SendReplicate(s, to) ==
  LET rp == s.rem[to]
      last == LastIdx(s)
      compacted == rp.next <= s.sidx \/ (s.snap # NoSnap /\ Len(s.log) = 0 /\ rp.next <= last)
  IN
  IF rp.st \in {"Wait", "Snap"} THEN s
  ELSE IF compacted
    THEN IF ~rp.act THEN s
         ELSE LET ss0 == CurSnap(s)
                  ss == IF to \in s.W /\ G.WitnessMetadataOnly THEN [ss0 EXCEPT !.wit = TRUE] ELSE ss0
              IN Send([s EXCEPT !.rem[to] = [rp EXCEPT !.si = ss.index, !.st = "Snap"]],
                      [MsgT(s, "InstallSnapshot", to) EXCEPT !.snap = ss])
    ELSE LET ents0 == Slice(s, rp.next, last)
             ents == IF to \in s.W /\ G.WitnessMetadataOnly THEN MetaEnts(ents0) ELSE ents0
             m == [MsgT(s, "Replicate", to) EXCEPT !.lidx = rp.next - 1,
                        !.lterm = TermAt(s, rp.next - 1), !.ents = ents, !.commit = s.com]
             rp2 == IF ents = <<>> THEN rp
                    ELSE IF rp.st = "Repl" THEN [rp EXCEPT !.next = last + 1]
                    ELSE [rp EXCEPT !.st = "Wait"]      \* Retry -> Wait
         IN Send([s EXCEPT !.rem[to] = rp2], m)

BroadcastReplicate(s) ==
  FoldSet(LAMBDA i, acc : SendReplicate(acc, i), s, Members(s) \ {s.id})

\* CODE: raft.appendEntries
AppendEntries(s, ents) ==
  LET li == LastIdx(s)
      s1 == [s EXCEPT !.log = @ \o ents]
      s2 == [s1 EXCEPT !.rem[s.id] = TryUpdate(@, LastIdx(s1))[2]]
  IN IF SingleQuorum(s2) THEN TryCommit(s2) ELSE s2

(* ---------------------------------------------------------------- elections *)
NumPendingCC(s) ==
  Cardinality({i \in (s.com + 1)..LastIdx(s) : i > s.sidx /\ EntryAt(s, i).typ = "CC"})

\* CODE: raft.becomeLeader
BecomeLeader(s, r) ==
  LET s1 == [Reset([s EXCEPT !.role = "L"], s.term, TRUE, r) EXCEPT !.lead = s.id]
      s2 == IF NumPendingCC(s1) >= 1 THEN [s1 EXCEPT !.pcc = TRUE] ELSE s1
  IN AppendEntries(s2, <<[term |-> s2.term, typ |-> "App", val |-> 0]>>)

VoteReq(s, t, ty, to, hint) ==
  [Msg(ty, s.id, to, t) EXCEPT !.lidx = LastIdx(s), !.lterm = LastTerm(s), !.hint = hint]

\* CODE: raft.campaign
Campaign(s, r, xferTarget) ==
  LET s0 == [Reset([s EXCEPT !.role = "C"], s.term + 1, TRUE, r) EXCEPT !.lead = None]
      s1 == [s0 EXCEPT !.vote = s.id, !.vg = {s.id}]
  IN IF SingleQuorum(s1) THEN BecomeLeader(s1, r)
     ELSE FoldSet(LAMBDA k, acc :
                    Send(acc, VoteReq(acc, s1.term, "RequestVote", k,
                                      IF xferTarget THEN s.id ELSE 0)),
                  s1, VotingIds(s1) \ {s.id})

\* CODE: raft.preVoteCampaign
PreVoteCampaign(s, r) ==
  LET s0 == [Reset([s EXCEPT !.role = "P"], s.term, TRUE, r) EXCEPT !.lead = None]
      s1 == [s0 EXCEPT !.vg = {s.id}]
  IN IF SingleQuorum(s1) THEN Campaign(s1, r, FALSE)
     ELSE FoldSet(LAMBDA k, acc :
                    Send(acc, VoteReq(acc, s1.term + 1, "RequestPreVote", k, 0)),
                  s1, VotingIds(s1) \ {s.id})

\* CODE: raft.handleNodeElection (hasConfigChangeToApply is `committed > applied`
\* in production: ANY unapplied committed entry defers the campaign)
HandleElection(s, r, xferTarget) ==
  IF s.role = "L" THEN s
  ELSE IF G.NoCampaignWithUnappliedCC /\ s.com > s.rapp THEN s
  ELSE IF PreVote /\ ~xferTarget THEN PreVoteCampaign(s, r)
  ELSE Campaign(s, r, xferTarget)

SelfRemoved(s) == CASE s.role = "N" -> s.id \notin s.NV
                    [] s.role = "W" -> s.id \notin s.W
                    [] OTHER -> s.id \notin s.V

(* --------------------------------------------------------------- heartbeats *)
Heartbeat(s, to, ctx) ==
  [MsgT(s, "Heartbeat", to) EXCEPT
     !.commit = IF G.HeartbeatCommitCappedByMatch THEN Min2(s.rem[to].match, s.com) ELSE s.com,
     !.hint = ctx]

\* CODE: broadcastHeartbeatMessageWithHint: a non-zero ctx goes to voting members only
BroadcastHeartbeatHint(s, ctx) ==
  LET tos == (VotingIds(s) \ {s.id}) \cup
             (IF ctx = 0 \/ ~G.ReadIndexHintToVotersOnly THEN s.NV ELSE {})
  IN FoldSet(LAMBDA k, acc : Send(acc, Heartbeat(acc, k, ctx)), s, tos)

\* CODE: broadcastHeartbeatMessage: ctx of the *last* queued read request
BroadcastHeartbeat(s) ==
  BroadcastHeartbeatHint(s, IF Len(s.riq) > 0 THEN s.riq[Len(s.riq)].ctx ELSE 0)

(* -------------------------------------------------------------------- ticks *)
\* CODE: leaderHasQuorum (also clears the active flags it counted)
LeaderHasQuorum(s) ==
  Cardinality({i \in VotingIds(s) : i = s.id \/ s.rem[i].act}) >= Quorum(s)
ClearActive(s) ==
  [s EXCEPT !.rem = [i \in DOMAIN s.rem |->
                       IF i \in VotingIds(s) /\ (i = s.id \/ s.rem[i].act)
                       THEN [s.rem[i] EXCEPT !.act = FALSE] ELSE s.rem[i]]]

LeaderTick(s, r) ==
  LET s1 == [s EXCEPT !.etick = @ + 1]
      abortX == s1.xfer # None /\ s1.etick >= ET
      s2 == IF s1.etick >= ET
              THEN LET s2a == [s1 EXCEPT !.etick = 0] IN
                   IF CheckQuorum
                     THEN IF LeaderHasQuorum(s2a) THEN ClearActive(s2a)
                          ELSE BecomeFollower(ClearActive(s2a), s2a.term, None, r)
                     ELSE s2a
              ELSE s1
      s3 == IF abortX THEN [s2 EXCEPT !.xfer = None] ELSE s2
      s4 == [s3 EXCEPT !.htick = @ + 1]
  IN IF s4.htick >= HT
       THEN LET s5 == [s4 EXCEPT !.htick = 0] IN
            IF s5.role = "L" THEN BroadcastHeartbeat(s5) ELSE s5
       ELSE s4

NonLeaderTick(s, r, xferTarget) ==
  LET s1 == [s EXCEPT !.etick = @ + 1] IN
  IF s1.role \in {"N", "W"} THEN s1
  ELSE IF ~SelfRemoved(s1) /\ s1.etick >= s1.rto
         THEN HandleElection([s1 EXCEPT !.etick = 0], r, xferTarget)
         ELSE s1

Tick(s, r) == IF s.role = "L" THEN LeaderTick(s, r) ELSE NonLeaderTick(s, r, FALSE)

(* ------------------------------------------------------------ vote handlers *)
\* CODE: raft.handleNodeRequestVote (all roles, including leader, non-voting, witness)
HandleRequestVote(s, m) ==
  LET canGrant == \/ s.vote = None \/ s.vote = m.from \/ m.term > s.term
                  \/ ~G.OneVotePerTerm
      grant == canGrant /\ UpToDate(s, m.lidx, m.lterm)
      resp == [MsgT(s, "RequestVoteResp", m.from) EXCEPT !.reject = ~grant]
  IN Send(IF grant THEN [s EXCEPT !.etick = 0, !.vote = m.from] ELSE s, resp)

\* CODE: raft.handleNodeRequestPreVote
HandleRequestPreVote(s, m) ==
  LET grant == m.term > s.term /\ UpToDate(s, m.lidx, m.lterm)
      resp == [Msg("RequestPreVoteResp", s.id, m.from, IF grant THEN m.term ELSE s.term)
                 EXCEPT !.reject = ~grant]
  IN Send(s, resp)

RecordVote(s, m) ==
  IF m.from \in s.vg \cup s.vr THEN s
  ELSE IF m.reject THEN [s EXCEPT !.vr = @ \cup {m.from}] ELSE [s EXCEPT !.vg = @ \cup {m.from}]

\* CODE: count == quorum (not >=): a decision is taken exactly once
VoteQ(s) == IF G.ExactQuorum THEN Quorum(s) ELSE Max2(1, Quorum(s) - 1)

\* CODE: handleCandidateRequestVoteResp
HandleVoteResp(s, m, r) ==
  IF m.from \in s.NV /\ G.VotesFromVotersOnly THEN s
  ELSE LET s1 == RecordVote(s, m) IN
       IF Cardinality(s1.vg) = VoteQ(s1) THEN BroadcastReplicate(BecomeLeader(s1, r))
       ELSE IF Cardinality(s1.vr) = Quorum(s1) THEN BecomeFollower(s1, s1.term, None, r)
       ELSE s1

\* CODE: handlePreVoteCandidateRequestPreVoteResp
HandlePreVoteResp(s, m, r) ==
  IF m.from \in s.NV /\ G.VotesFromVotersOnly THEN s
  ELSE LET s1 == RecordVote(s, m) IN
       IF Cardinality(s1.vg) = VoteQ(s1) THEN Campaign(s1, r, FALSE)
       ELSE IF Cardinality(s1.vr) = Quorum(s1) THEN BecomeFollower(s1, s1.term, None, r)
       ELSE s1

(* ------------------------------------------------------- replicate handlers *)
Resp(s, to, idx) == [MsgT(s, "ReplicateResp", to) EXCEPT !.lidx = idx]

\* first index at which m.ents disagrees with the local log, 0 if none
ConflictIdx(s, m) ==
  LET bad == {i \in 1..Len(m.ents) : TermAt(s, m.lidx + i) # m.ents[i].term} IN
  IF bad = {} THEN 0 ELSE m.lidx + Min(bad)

CommitTo(s, i) == IF i > s.com THEN [s EXCEPT !.com = i] ELSE s

\* CODE: raft.handleReplicateMessage
HandleReplicateMessage(s, m) ==
  IF G.NoTruncateCommitted /\ m.lidx < s.com THEN Send(s, Resp(s, m.from, s.com))
  ELSE IF ~G.LogMatchingCheck \/ TermAt(s, m.lidx) = m.lterm
    THEN LET c == ConflictIdx(s, m)
             s1 == IF c = 0 THEN s
                   ELSE [s EXCEPT !.log = SubSeq(@, 1, c - 1 - s.sidx)
                                          \o SubSeq(m.ents, c - m.lidx, Len(m.ents))]
             lastNew == m.lidx + Len(m.ents)
             s2 == CommitTo(s1, IF G.CommitMinWithLastNew THEN Min2(lastNew, m.commit)
                                ELSE Min2(LastIdx(s1), m.commit))
         IN Send(s2, Resp(s2, m.from, lastNew))
    ELSE Send(s, [Resp(s, m.from, m.lidx) EXCEPT !.reject = TRUE, !.hint = LastIdx(s)])

\* CODE: handleHeartbeatMessage
HandleHeartbeatMessage(s, m) ==
  Send(CommitTo(s, m.commit), [MsgT(s, "HeartbeatResp", m.from) EXCEPT !.hint = m.hint])

\* CODE: handleInstallSnapshotMessage + raft.restore + entryLog.restore
HandleInstallSnapshotMessage(s, m) ==
  LET ss == m.snap IN
  IF G.SnapshotRestoreCommitCheck /\ ss.index <= s.com THEN Send(s, Resp(s, m.from, s.com))
  ELSE IF TermAt(s, ss.index) = ss.term
    THEN LET s1 == CommitTo(s, ss.index) IN Send(s1, Resp(s1, m.from, s1.com))
    ELSE LET s1 == [s EXCEPT !.log = <<>>, !.sidx = ss.index, !.sterm = ss.term,
                             !.com = ss.index, !.proc = ss.index, !.snap = ss]
         IN Send(s1, Resp(s1, m.from, ss.index))

LeaderSeen(s, from) == [s EXCEPT !.etick = 0, !.lead = from]

(* ------------------------------------------------------- leader: responses *)
\* CODE: handleLeaderReplicateResp
HandleReplicateResp(s, m) ==
  LET from == m.from
      rp0 == [s.rem[from] EXCEPT !.act = TRUE]
      s0 == [s EXCEPT !.rem[from] = rp0]
  IN
  IF ~m.reject
    THEN LET paused == rp0.st \in {"Wait", "Snap"}
             tu == TryUpdate(rp0, m.lidx)
         IN IF ~tu[1] THEN [s0 EXCEPT !.rem[from] = tu[2]]
            ELSE LET s1 == [s0 EXCEPT !.rem[from] = RespondedTo(tu[2])]
                     s2 == IF CanCommit(s1) THEN BroadcastReplicate(TryCommit(s1))
                           ELSE IF paused THEN SendReplicate(s1, from) ELSE s1
                 IN IF s2.xfer = from /\ LastIdx(s2) = s2.rem[from].match
                      THEN Send(s2, MsgT(s2, "TimeoutNow", from)) ELSE s2
    ELSE LET d == DecreaseTo(rp0, m.lidx, m.hint) IN
         IF ~d[1] THEN s0
         ELSE LET rp1 == IF d[2].st = "Repl" THEN RpBecomeRetry(d[2]) ELSE d[2]
              IN SendReplicate([s0 EXCEPT !.rem[from] = rp1], from)

\* CODE: readIndex.confirm + handleReadIndexLeaderConfirmation
\* position of ctx in the queue (0 if absent)
RiPos(q, ctx) == LET ps == {i \in 1..Len(q) : q[i].ctx = ctx} IN IF ps = {} THEN 0 ELSE Min(ps)

ConfirmReadIndex(s, m) ==
  LET p == RiPos(s.riq, m.hint) IN
  IF p = 0 THEN s
  ELSE LET q1 == [s.riq EXCEPT ![p].conf = @ \cup {m.from}]
           need == IF G.ReadIndexQuorum THEN Quorum(s) ELSE Max2(1, Quorum(s) - 1)
       IN IF Cardinality(q1[p].conf) + 1 < need THEN [s EXCEPT !.riq = q1]
          ELSE LET idx == q1[p].index
                   rel == SubSeq(q1, 1, p)
                   s1 == [s EXCEPT !.riq = SubSeq(q1, p + 1, Len(q1))]
                   \* CODE: a released request of a remote requester is answered with the
                   \* ctx of the *confirming* heartbeat (m.Hint), not with its own ctx
                   F[i \in 0..p] ==
                     IF i = 0 THEN s1
                     ELSE IF rel[i].from = None \/ rel[i].from = s.id
                            THEN [F[i-1] EXCEPT !.rtr = Append(@, [ctx |-> rel[i].ctx, index |-> idx])]
                            ELSE Send(F[i-1], [MsgT(s, "ReadIndexResp", rel[i].from)
                                                 EXCEPT !.lidx = idx, !.hint = m.hint])
               IN F[p]

\* CODE: handleLeaderHeartbeatResp
HandleHeartbeatResp(s, m) ==
  LET from == m.from
      rp0 == [s.rem[from] EXCEPT !.act = TRUE, !.st = IF @ = "Wait" /\ G.HeartbeatRespUnpauses THEN "Retry" ELSE @]
      s0 == [s EXCEPT !.rem[from] = rp0]
      s1 == IF rp0.match < LastIdx(s0) THEN SendReplicate(s0, from) ELSE s0
  IN IF m.hint # 0 THEN ConfirmReadIndex(s1, m) ELSE s1

\* CODE: handleLeaderSnapshotStatus with Hint = 0
HandleSnapshotStatus(s, m) ==
  LET rp == s.rem[m.from] IN
  IF rp.st # "Snap" THEN s
  ELSE LET rp1 == IF m.reject THEN [rp EXCEPT !.si = 0] ELSE rp
           rp2 == RpBecomeRetry(rp1)
       IN [s EXCEPT !.rem[m.from] = [rp2 EXCEPT !.st = "Wait"]]

\* CODE: handleLeaderUnreachable
HandleUnreachable(s, m) ==
  IF s.rem[m.from].st = "Repl" THEN [s EXCEPT !.rem[m.from] = RpBecomeRetry(@)] ELSE s

(* ------------------------------------------------------ proposals and reads *)
\* CODE: handleLeaderPropose. ents is a sequence of [typ, val]; a config change
\* arriving while one is pending is replaced by an empty application entry and
\* reported dropped.
LeaderPropose(s, ents) ==
  IF s.xfer # None THEN [s EXCEPT !.dropE = @ \cup {ents[i].val : i \in 1..Len(ents)}]
  ELSE LET F[i \in 0..Len(ents)] ==
             IF i = 0 THEN [st |-> s, out |-> <<>>]
             ELSE LET a == F[i-1] e == ents[i] IN
                  IF e.typ = "CC"
                    THEN IF a.st.pcc /\ G.OnePendingCC
                           THEN [st |-> [a.st EXCEPT !.dropE = @ \cup {e.val}],
                                 out |-> Append(a.out, [term |-> s.term, typ |-> "App", val |-> 0])]
                           ELSE [st |-> [a.st EXCEPT !.pcc = TRUE],
                                 out |-> Append(a.out, [term |-> s.term, typ |-> "CC", val |-> e.val])]
                    ELSE [st |-> a.st, out |-> Append(a.out, [term |-> s.term, typ |-> e.typ, val |-> e.val])]
           r == F[Len(ents)]
       IN BroadcastReplicate(AppendEntries(r.st, r.out))

DropEnts(s, ents) == [s EXCEPT !.dropE = @ \cup {ents[i].val : i \in 1..Len(ents)}]

\* CODE: handleFollowerPropose: forwarded with From = self, Term = 0
FollowerPropose(s, m) ==
  IF s.lead = None THEN DropEnts(s, m.ents)
  ELSE Send(s, [Msg("Propose", s.id, s.lead, 0) EXCEPT !.ents = m.ents])

HasCommittedInTerm(s) == ~G.ReadIndexNeedsTermCommit \/ TermAt(s, s.com) = s.term

\* CODE: handleLeaderReadIndex
LeaderReadIndex(s, m) ==
  IF m.from \in s.W THEN s
  ELSE IF ~SingleQuorum(s)
    THEN IF ~HasCommittedInTerm(s) THEN [s EXCEPT !.dropR = @ \cup {m.hint}]
         ELSE LET s1 == IF RiPos(s.riq, m.hint) # 0 THEN s
                        ELSE [s EXCEPT !.riq = Append(@, [ctx |-> m.hint, index |-> s.com,
                                                         from |-> m.from, conf |-> {}])]
              IN BroadcastHeartbeatHint(s1, m.hint)
    ELSE LET s1 == [s EXCEPT !.rtr = Append(@, [ctx |-> m.hint, index |-> s.com])] IN
         IF m.from # s.id /\ m.from \in s.NV
           THEN Send(s1, [MsgT(s1, "ReadIndexResp", m.from) EXCEPT !.lidx = s1.com, !.hint = m.hint])
           ELSE s1

FollowerReadIndex(s, m) ==
  IF s.lead = None THEN [s EXCEPT !.dropR = @ \cup {m.hint}]
  ELSE Send(s, [Msg("ReadIndex", s.id, s.lead, 0) EXCEPT !.hint = m.hint])

\* CODE: handleLeaderTransfer
LeaderTransfer(s, m) ==
  LET target == m.hint IN
  IF s.xfer # None \/ target = s.id \/ target \notin s.V THEN s
  ELSE LET s1 == [s EXCEPT !.xfer = target, !.etick = 0] IN
       IF s1.rem[target].match = LastIdx(s1) THEN Send(s1, MsgT(s1, "TimeoutNow", target)) ELSE s1

FollowerLeaderTransfer(s, m) ==
  IF s.lead = None THEN s
  ELSE Send(s, [Msg("LeaderTransfer", s.id, s.lead, 0) EXCEPT !.hint = m.hint])

\* CODE: handleFollowerTimeoutNow: electionTick := randomized timeout, then tick()
HandleTimeoutNow(s, r) ==
  NonLeaderTick([s EXCEPT !.etick = s.rto], r, TRUE)

(* ------------------------------------------------- membership (raft's view) *)
\* CODE: addNode / addNonVoting / addWitness / removeNode via handleNodeConfigChange
RaftAddNode(s, id, r) ==
  LET s0 == [s EXCEPT !.pcc = FALSE] IN
  IF id \in s0.V THEN s0
  ELSE IF id \in s0.NV
    THEN LET s1 == [s0 EXCEPT !.NV = @ \ {id}, !.V = @ \cup {id}] IN
         IF id = s.id THEN [BecomeFollower(s1, s1.term, s1.lead, r) EXCEPT !.kind = "V"] ELSE s1
  ELSE [s0 EXCEPT !.V = @ \cup {id},
                  !.rem = [i \in DOMAIN @ \cup {id} |->
                             IF i = id THEN NewRemote(0, LastIdx(s) + 1) ELSE @[i]]]

RaftAddOther(s, id, kind) ==
  LET s0 == [s EXCEPT !.pcc = FALSE]
      has == IF kind = "NV" THEN id \in s0.NV ELSE id \in s0.W
  IN IF has THEN s0
     ELSE LET s1 == [s0 EXCEPT !.rem = [i \in DOMAIN @ \cup {id} |->
                                          IF i = id THEN NewRemote(0, LastIdx(s) + 1) ELSE @[i]]]
          IN IF kind = "NV" THEN [s1 EXCEPT !.NV = @ \cup {id}] ELSE [s1 EXCEPT !.W = @ \cup {id}]

ReleaseReads(s) ==
  LET p == Len(s.riq)
      idx == s.riq[p].index
      s1 == [s EXCEPT !.riq = <<>>]
      F[i \in 0..p] ==
        IF i = 0 THEN s1
        ELSE IF s.riq[i].from = None \/ s.riq[i].from = s.id
               THEN [F[i-1] EXCEPT !.rtr = Append(@, [ctx |-> s.riq[i].ctx, index |-> idx])]
               ELSE Send(F[i-1], [MsgT(s, "ReadIndexResp", s.riq[i].from)
                                    EXCEPT !.lidx = idx, !.hint = s.riq[i].ctx])
  IN F[p]

RaftRemoveNode(s, id, r) ==
  \* CODE: readIndex.removeConfirmation: a replica that is no member any more cannot vouch for the leader,
  \* its confirmations of pending reads are dropped (they must not count towards the new, possibly smaller quorum)
  LET s0 == [s EXCEPT !.V = @ \ {id}, !.NV = @ \ {id}, !.W = @ \ {id},
                      !.rem = [i \in DOMAIN @ \ {id} |-> @[i]], !.pcc = FALSE,
                      !.riq = [k \in 1..Len(@) |-> [@[k] EXCEPT !.conf = @ \ {id}]]]
      s1 == IF id = s.id /\ s0.role = "L" /\ G.LeaderStepsDownWhenRemoved
              THEN BecomeFollower(s0, s0.term, None, r) ELSE s0
      s2 == IF s1.role = "L" /\ s1.xfer = id THEN [s1 EXCEPT !.xfer = None] ELSE s1
      s3 == IF s2.role = "L" /\ NumVoting(s2) > 0 /\ s2.id \in DOMAIN s2.rem
              THEN IF CanCommit(s2) THEN BroadcastReplicate(TryCommit(s2)) ELSE s2
              ELSE s2
  \* CODE: raft.releasePendingReadIndexes: the leader has become the only voting member, nobody is left whose
  \* heartbeat response could confirm the pending reads (and while a read is pending the non-voting members get
  \* no heartbeat): they are all released, each requester is answered with the ctx of its own request
  IN IF s3.role = "L" /\ SingleQuorum(s3) /\ Len(s3.riq) > 0 THEN ReleaseReads(s3) ELSE s3

RaftApplyCC(s, ccval, r) ==
  LET op == CCOp(ccval) id == CCId(ccval) IN
  CASE op = AddNodeOp -> RaftAddNode(s, id, r)
    [] op = RemoveOp -> RaftRemoveNode(s, id, r)
    [] op = AddNonVotingOp -> RaftAddOther(s, id, "NV")
    [] op = AddWitnessOp -> RaftAddOther(s, id, "W")

\* CODE: raft.restoreRemotes (Peer.RestoreRemotes after a snapshot was recovered)
RestoreRemotes(s, ss, r) ==
  LET s0 == IF s.id \in ss.v /\ s.role = "N"
              THEN [BecomeFollower(s, s.term, s.lead, r) EXCEPT !.kind = "V"] ELSE s
      li == LastIdx(s0)
      ids == ss.v \cup ss.nv \cup ss.w
      s1 == [s0 EXCEPT !.V = ss.v, !.NV = ss.nv, !.W = ss.w,
                       !.rem = [i \in ids |-> NewRemote(IF i = s.id THEN li ELSE 0, li + 1)]]
  IN IF s1.id \notin s1.V /\ s1.role = "L" THEN
        [BecomeFollower([s1 EXCEPT !.rem = [i \in ss.v |-> s1.rem[i]]], s1.term, None, r)
            EXCEPT !.rem = [i \in ids |-> NewRemote(IF i = s.id THEN li ELSE 0, li + 1)]]
     ELSE s1

(* --------------------------------------------- membership (apply side rules) *)
\* The rules of rsm/membership.go for a fixed address per replica id
\* (Membership.tla has the full rules with addresses and ConfigChangeId).
CCAccepted(mem, ccval) ==
  LET op == CCOp(ccval) id == CCId(ccval) IN
  /\ ~(op \in {AddNodeOp, AddNonVotingOp, AddWitnessOp} /\ id \in mem.rm)
  /\ ~(op = AddNodeOp /\ id \in mem.v \cup mem.w)
  /\ ~(op = AddNonVotingOp /\ id \in mem.v \cup mem.nv \cup mem.w)
  /\ ~(op = AddWitnessOp /\ id \in mem.v \cup mem.nv \cup mem.w)
  /\ ~(op = RemoveOp /\ mem.v = {id})

CCApply(mem, ccval) ==
  LET op == CCOp(ccval) id == CCId(ccval) IN
  CASE op = AddNodeOp -> [mem EXCEPT !.v = @ \cup {id}, !.nv = @ \ {id}]
    [] op = AddNonVotingOp -> [mem EXCEPT !.nv = @ \cup {id}]
    [] op = AddWitnessOp -> [mem EXCEPT !.w = @ \cup {id}]
    [] op = RemoveOp -> [mem EXCEPT !.v = @ \ {id}, !.nv = @ \ {id}, !.w = @ \ {id},
                                    !.rm = @ \cup {id}]

(* ------------------------------------------------------ term mismatch rules *)
IsRequestVote(t) == t \in {"RequestVote", "RequestPreVote"}
IsLeaderMsg(t) == t \in {"Replicate", "InstallSnapshot", "Heartbeat", "TimeoutNow", "ReadIndexResp"}
IsResponse(t) == t \in {"ReplicateResp", "RequestVoteResp", "HeartbeatResp", "ReadIndexResp",
                        "Unreachable", "SnapshotStatus", "LeaderTransfer"}

\* CODE: dropRequestVoteFromHighTermNode
DropHighTermVote(s, m) ==
  /\ IsRequestVote(m.mtype) /\ CheckQuorum /\ m.term > s.term
  /\ m.hint # m.from
  /\ s.lead # None /\ s.etick < ET

\* CODE: raft.Handle = onMessageTermNotMatched, then the handler table.
\* Result: the new replica record.
Dispatch(s, m, r) ==
  LET t == m.mtype role == s.role IN
  CASE t = "RequestVote" -> HandleRequestVote(s, m)
    [] t = "RequestPreVote" -> HandleRequestPreVote(s, m)
    [] t = "RequestVoteResp" /\ role = "C" -> HandleVoteResp(s, m, r)
    [] t = "RequestPreVoteResp" /\ role = "P" -> HandlePreVoteResp(s, m, r)
    [] t = "Replicate" /\ role \in {"F", "N", "W"} -> HandleReplicateMessage(LeaderSeen(s, m.from), m)
    [] t = "Replicate" /\ role \in {"C", "P"} ->
         HandleReplicateMessage(BecomeFollower(s, s.term, m.from, r), m)
    [] t = "Heartbeat" /\ role \in {"F", "N", "W"} -> HandleHeartbeatMessage(LeaderSeen(s, m.from), m)
    [] t = "Heartbeat" /\ role \in {"C", "P"} ->
         HandleHeartbeatMessage(BecomeFollower(s, s.term, m.from, r), m)
    [] t = "InstallSnapshot" /\ role \in {"F", "N", "W"} ->
         HandleInstallSnapshotMessage(LeaderSeen(s, m.from), m)
    [] t = "InstallSnapshot" /\ role \in {"C", "P"} ->
         HandleInstallSnapshotMessage(BecomeFollower(s, s.term, m.from, r), m)
    [] t = "ReplicateResp" /\ role = "L" /\ m.from \in DOMAIN s.rem -> HandleReplicateResp(s, m)
    [] t = "HeartbeatResp" /\ role = "L" /\ m.from \in DOMAIN s.rem -> HandleHeartbeatResp(s, m)
    [] t = "SnapshotStatus" /\ role = "L" /\ m.from \in DOMAIN s.rem -> HandleSnapshotStatus(s, m)
    [] t = "Unreachable" /\ role = "L" /\ m.from \in DOMAIN s.rem -> HandleUnreachable(s, m)
    [] t = "Propose" /\ role = "L" -> LeaderPropose(s, m.ents)
    [] t = "Propose" /\ role \in {"F", "N"} -> FollowerPropose(s, m)
    [] t = "Propose" /\ role \in {"C", "P"} -> DropEnts(s, m.ents)
    [] t = "ReadIndex" /\ role = "L" -> LeaderReadIndex(s, m)
    [] t = "ReadIndex" /\ role \in {"F", "N"} -> FollowerReadIndex(s, m)
    [] t = "ReadIndex" /\ role \in {"C", "P"} -> [s EXCEPT !.dropR = @ \cup {m.hint}]
    [] t = "ReadIndexResp" /\ role \in {"F", "N"} ->
         [LeaderSeen(s, m.from) EXCEPT !.rtr = Append(@, [ctx |-> m.hint, index |-> m.lidx])]
    [] t = "LeaderTransfer" /\ role = "L" -> LeaderTransfer(s, m)
    [] t = "LeaderTransfer" /\ role = "F" -> FollowerLeaderTransfer(s, m)
    [] t = "TimeoutNow" /\ role = "F" -> HandleTimeoutNow(s, r)
    [] OTHER -> s

RaftHandle(s, m, r) ==
  IF m.term = 0 \/ m.term = s.term THEN Dispatch(s, m, r)
  ELSE IF DropHighTermVote(s, m) THEN s
  ELSE IF m.term > s.term
    THEN IF m.mtype = "RequestPreVote" \/ (m.mtype = "RequestPreVoteResp" /\ ~m.reject)
           THEN Dispatch(s, m, r)
           ELSE LET lid == IF IsLeaderMsg(m.mtype) THEN m.from ELSE None
                    s1 == IF s.role \in {"N", "W"} THEN KeepRole(s, m.term, lid, r)
                          ELSE IF m.mtype = "RequestVote" THEN BecomeFollowerKE(s, m.term, lid, r)
                          ELSE BecomeFollower(s, m.term, lid, r)
                IN Dispatch(s1, m, r)
    ELSE \* m.term < s.term
         IF m.mtype = "RequestPreVote" \/ (IsLeaderMsg(m.mtype) /\ (CheckQuorum \/ PreVote))
           THEN IF G.NoOPFreesStuckCandidate THEN Send(s, MsgT(s, "NoOP", m.from)) ELSE s
           ELSE s

\* CODE: Peer.Handle: responses from replicas that are not members are dropped
PeerHandle(s, m, r) ==
  IF IsResponse(m.mtype) /\ m.from \notin Members(s) THEN s ELSE RaftHandle(s, m, r)

(* --------------------------------------------------- the node glue (engine) *)
\* every step of the engine first passes the applied index to raft
Notify(s) == [s EXCEPT !.rapp = s.aapp]

\* GetUpdate -> save -> send -> Commit, as one step (Pipeline.tla splits it).
\* Returns the new record; the messages that leave are s.msgs (caller moves them).
Ready(s) ==
  LET s0 == Notify(s)
      hasSnap == s0.snap # NoSnap
      lo == Max2(s0.proc + 1, s0.sidx + 1)
      handed == Slice(s0, lo, s0.com)
  IN [s0 EXCEPT !.dterm = s0.term, !.dvote = s0.vote, !.dcom = s0.com,
                !.dlog = s0.log, !.dsidx = s0.sidx, !.dsterm = s0.sterm,
                !.dsnap = IF hasSnap THEN s0.snap ELSE @,
                !.aq = IF hasSnap THEN s0.snap ELSE @,
                !.alist = IF hasSnap THEN handed ELSE @ \o handed,
                !.snap = NoSnap, !.msgs = {}, !.rtr = <<>>, !.dropE = {}, !.dropR = {},
                !.proc = Max2(s0.proc, s0.com)]

\* apply side: recover a pending snapshot, else apply the next handed-out entry
CanApply(s) == s.aq # NoSnap \/ Len(s.alist) > 0

ApplyOne(s, r) ==
  IF s.aq # NoSnap
    THEN LET ss == s.aq
             s1 == [s EXCEPT !.aq = NoSnap, !.aapp = ss.index,
                             !.mem = [v |-> ss.v, nv |-> ss.nv, w |-> ss.w, rm |-> ss.rm]]
         IN RestoreRemotes(s1, ss, r)
    ELSE LET i == s.aapp + 1
             e == Head(s.alist)
             s1 == [s EXCEPT !.aapp = i, !.alist = Tail(@)]
         IN IF e.typ # "CC" THEN s1
            ELSE IF CCAccepted(s.mem, e.val)
                   THEN RaftApplyCC([s1 EXCEPT !.mem = CCApply(@, e.val)], e.val, r)
                   ELSE [s1 EXCEPT !.pcc = FALSE]     \* RejectConfigChange

\* snapshot of the applied state, recorded in the log store (dsnap); never older
TakeSnapshot(s) ==
  [s EXCEPT !.dsnap = [index |-> s.aapp, term |-> TermAt(s, s.aapp), v |-> s.mem.v,
                       nv |-> s.mem.nv, w |-> s.mem.w, rm |-> s.mem.rm, wit |-> FALSE]]
CanSnapshot(s) == s.aapp > s.dsnap.index /\ s.aapp > s.sidx /\ s.aq = NoSnap /\ s.aapp <= s.dsidx + Len(s.dlog)

\* log-store compaction up to i (only below the recorded snapshot and what was applied)
CanCompact(s, i) == i > s.sidx /\ i <= s.dsnap.index /\ i <= s.aapp /\ i <= s.dsidx + Len(s.dlog)
                    /\ s.snap = NoSnap /\ i > s.dsidx
Compact(s, i) ==
  [s EXCEPT !.log = SubSeq(@, i - s.sidx + 1, Len(@)), !.sterm = TermAt(s, i), !.sidx = i,
            !.dlog = SubSeq(@, i - s.dsidx + 1, Len(@)),
            !.dsterm = IF i = s.dsidx THEN s.dsterm ELSE s.dlog[i - s.dsidx].term, !.dsidx = i]

(* ------------------------------------------------------- start / crash *)
Fresh(id) ==
  [id |-> id, up |-> FALSE, role |-> "F", term |-> 0, vote |-> None, lead |-> None,
   log |-> <<>>, sidx |-> 0, sterm |-> 0, com |-> 0, proc |-> 0, rapp |-> 0,
   vg |-> {}, vr |-> {}, V |-> {}, NV |-> {}, W |-> {}, rem |-> <<>>,
   pcc |-> FALSE, xfer |-> None, riq |-> <<>>, rtr |-> <<>>, dropE |-> {}, dropR |-> {},
   etick |-> 0, htick |-> 0, rto |-> ET, msgs |-> {}, snap |-> NoSnap,
   dterm |-> 0, dvote |-> None, dcom |-> 0, dlog |-> <<>>, dsidx |-> 0, dsterm |-> 0,
   dsnap |-> NoSnap, aapp |-> 0, mem |-> EmptyMem, aq |-> NoSnap, alist |-> <<>>, kind |-> "V"]

SeqOfSet(S) == LET F[T \in SUBSET S] == IF T = {} THEN <<>> ELSE LET x == Min(T) IN <<x>> \o F[T \ {x}] IN F[S]

\* CODE: Launch(initial = TRUE, newNode = TRUE) + bootstrap
Bootstrap(id, voters, r) ==
  LET vs == SeqOfSet(voters)
      ents == [i \in 1..Len(vs) |-> [term |-> 1, typ |-> "CC", val |-> CCVal(AddNodeOp, vs[i])]]
      s0 == [Fresh(id) EXCEPT !.up = TRUE, !.term = 1, !.rto = r]
  IN [s0 EXCEPT !.log = ents, !.com = Len(ents), !.V = voters,
                !.rem = [i \in voters |-> NewRemote(0, Len(ents) + 1)]]
\* CODE: bootstrap() appends and *then* addNode()s, so next = lastIndex+1 and the
\* replica's own match stays 0 until it is reset by a role change.

\* a replica that joins an existing shard: empty log, no members known
Join(id, kind, r) ==
  [Fresh(id) EXCEPT !.up = TRUE, !.rto = r, !.kind = kind,
                    !.role = CASE kind = "N" -> "N" [] kind = "W" -> "W" [] OTHER -> "F"]

\* everything volatile is gone; the log store keeps what Ready saved
Crash(s) == [Fresh(s.id) EXCEPT !.kind = s.kind, !.dterm = s.dterm, !.dvote = s.dvote, !.dcom = s.dcom,
                                !.dlog = s.dlog, !.dsidx = s.dsidx, !.dsterm = s.dsterm, !.dsnap = s.dsnap]

\* CODE: newRaft from the log store: hard state, members of the recorded snapshot;
\* the log reader starts at the snapshot (replayLog applies the snapshot record first);
\* committed entries above it are handed out for apply again.
Restart(s, r) ==
  LET ss == s.dsnap
      cut == IF ss.index > s.dsidx THEN ss.index ELSE s.dsidx
      dlast == s.dsidx + Len(s.dlog)
      lg == IF cut > dlast THEN <<>> ELSE SubSeq(s.dlog, cut - s.dsidx + 1, Len(s.dlog))
      ct == IF cut = s.dsidx THEN s.dsterm ELSE ss.term
      ids == ss.v \cup ss.nv \cup ss.w
      last == cut + Len(lg)
      f == Fresh(s.id)
      base == [f EXCEPT !.up = TRUE, !.kind = s.kind,
                        !.role = CASE s.kind = "N" -> "N" [] s.kind = "W" -> "W" [] OTHER -> "F",
                        !.term = s.dterm, !.vote = IF G.PersistBeforeRestart THEN s.dvote ELSE None,
                        !.log = lg, !.sidx = cut, !.sterm = ct,
                        !.com = Max2(cut, s.dcom), !.proc = cut, !.rapp = 0,
                        !.V = ss.v, !.NV = ss.nv, !.W = ss.w,
                        !.rem = [i \in ids |-> NewRemote(IF i = s.id THEN last ELSE 0, last + 1)],
                        !.rto = r,
                        !.dterm = s.dterm, !.dvote = s.dvote, !.dcom = s.dcom,
                        !.dlog = lg, !.dsidx = cut, !.dsterm = ct, !.dsnap = ss,
                        !.aapp = ss.index,
                        !.mem = [v |-> ss.v, nv |-> ss.nv, w |-> ss.w, rm |-> ss.rm]]
  IN base

=============================================================================
