------------------------- MODULE OnDiskSnapshotTrace -------------------------
(* odsim (harness/rsm/odsim_test.go): the snapshot an on-disk replica records for itself while the apply worker   *)
(* has a batch waiting, on the real rsm.StateMachine. C08: "log compaction never removes an entry that is not     *)
(* covered by a snapshot the replica can durably recover from" - the record's OnDiskIndex says which entries the  *)
(* state machine has made durable itself, it must not be ahead of what the last Sync persisted; and a replica     *)
(* restarted at the persisted state recovers from the record and the rest of the log to the state of a replica   *)
(* that never stopped (snapshot + suffix = replay), without a panic.                                              *)
EXTENDS Integers, Sequences, FiniteSets, Json, TLC
CONSTANT TraceFile
VARIABLES l, bad, cnt
Trace == ndJsonDeserialize(TraceFile)
vars == <<l, bad, cnt>>
Init == l = 1 /\ bad = {} /\ cnt = [records |-> 0, racing |-> 0, restarts |-> 0, applied_during_save |-> 0]
Flag(ev, what) == bad \cup {<<ev.t, ev.i, ev.op, what>>}
Next ==
  /\ l <= Len(Trace)
  /\ l' = l + 1
  /\ LET ev == Trace[l] IN
     CASE ev.op = "Record" ->
            /\ bad' = IF ev.ondisk <= ev.persisted THEN bad ELSE Flag(ev, {"record_ahead_of_persisted_state"})
            /\ cnt' = [cnt EXCEPT !.records = @ + 1, !.racing = @ + (IF ev.racing THEN 1 ELSE 0),
                                  !.applied_during_save = @ + (IF ev.applied > ev.persisted THEN 1 ELSE 0)]
       [] ev.op = "Restarted" ->
            /\ bad' = IF ev.msg # "" THEN Flag(ev, {"restart_panics"})
                      ELSE IF ~ev.same THEN Flag(ev, {"snapshot_plus_suffix_differs_from_replay"}) ELSE bad
            /\ cnt' = [cnt EXCEPT !.restarts = @ + 1]
       [] ev.op = "SaveFailed" -> bad' = Flag(ev, {"save_failed"}) /\ UNCHANGED cnt
       [] OTHER -> UNCHANGED <<bad, cnt>>
Spec == Init /\ [][Next]_vars
Report == IF l = Len(Trace) + 1 THEN PrintT(<<"OD-REPORT", Len(Trace), bad>>) /\ PrintT(<<"OD-COUNT", cnt>>) ELSE TRUE
=============================================================================
