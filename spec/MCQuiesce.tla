----------------------------- MODULE MCQuiesce -----------------------------
(* Every sequence of ticks, recorded messages and Quiesce messages up to MaxTick.  Checked: *)
(*  Resumes      - any recorded message other than a heartbeat leaves the shard active;      *)
(*  HeartbeatOK  - a heartbeat wakes a shard that has been quiescent for an election        *)
(*                 time-out or longer (and is ignored before that: no ping-pong);           *)
(*  GoesIdle     - without recorded activity the shard is quiescent after threshold + 1     *)
(*                 ticks;                                                                   *)
(*  Announced    - entering quiesce raises the flag that makes the node tell its peers.     *)
EXTENDS Quiesce, TLC
CONSTANTS Election, MaxTick
VARIABLES q, last     \* last: [op, pre] of the step that led here
vars == <<q, last>>
Init == q = QInit(Election, TRUE) /\ last = [op |-> "init", pre |-> QInit(Election, TRUE)]
Next == /\ q.tick < MaxTick
        /\ \/ q' = QTick(q) /\ last' = [op |-> "tick", pre |-> q]
           \/ q' = QRecord(q, FALSE) /\ last' = [op |-> "record", pre |-> q]
           \/ q' = QRecord(q, TRUE) /\ last' = [op |-> "heartbeat", pre |-> q]
           \/ q' = QTryEnter(q) /\ last' = [op |-> "tryenter", pre |-> q]
           \/ q' = QTakeFlag(q) /\ last' = [op |-> "takeflag", pre |-> q]
Spec == Init /\ [][Next]_vars
Resumes == last.op = "record" => ~Quiesced(q)
HeartbeatOK == last.op = "heartbeat" =>
                 /\ (Quiesced(last.pre) /\ ~NewToQuiesce(last.pre)) => ~Quiesced(q)
                 /\ NewToQuiesce(last.pre) => q = last.pre
GoesIdle == (~Quiesced(q)) => q.tick - q.idle <= Threshold(q)
Announced == (last.op \in {"tick", "tryenter"} /\ ~Quiesced(last.pre) /\ Quiesced(q)) => q.flag
NoPingPong == (last.op = "tryenter" /\ JustExited(last.pre)) => q = last.pre
=============================================================================
