------------------------------ MODULE Quiesce ------------------------------
(* quiesce.go: when a shard stops ticking its raft state machine at full rate and when it   *)
(* resumes (C17: progress "after the shard had gone quiescent").  Pure operators on the     *)
(* quiesceState record, named after the Go methods.                                         *)
EXTENDS Integers

QInit(electionTick, enabled) ==
  [tick |-> 0, election |-> electionTick, since |-> 0, idle |-> 0, exit |-> 0, enabled |-> enabled, flag |-> FALSE]

Quiesced(q) == q.enabled /\ q.since > 0
Threshold(q) == q.election * 10
NewToQuiesce(q) == Quiesced(q) /\ q.tick - q.since < q.election
JustExited(q) == ~Quiesced(q) /\ q.tick - q.exit < Threshold(q)

EnterQuiesce(q) == [q EXCEPT !.since = q.tick, !.idle = q.tick, !.flag = TRUE]
ExitQuiesce(q) == [q EXCEPT !.since = 0, !.exit = q.tick]

QTick(q) ==
  IF ~q.enabled THEN q
  ELSE LET q1 == [q EXCEPT !.tick = @ + 1]
       IN IF ~Quiesced(q1) /\ (q1.tick - q1.idle) > Threshold(q) THEN EnterQuiesce(q1) ELSE q1

\* hb: the message is a Heartbeat or HeartbeatResp
QRecord(q, hb) ==
  IF ~q.enabled THEN q
  ELSE IF hb /\ (~Quiesced(q) \/ NewToQuiesce(q)) THEN q
  ELSE LET q1 == [q EXCEPT !.idle = q.tick] IN IF Quiesced(q1) THEN ExitQuiesce(q1) ELSE q1

QTryEnter(q) == IF JustExited(q) THEN q ELSE IF ~Quiesced(q) THEN EnterQuiesce(q) ELSE q
QTakeFlag(q) == [q EXCEPT !.flag = FALSE]     \* newQuiesceState(): swap to 0, returns the old value
=============================================================================
