SPECIFICATION Spec
CONSTANTS
  N = 3
  Cap = 2
  Ablate = {"success_on_poison"}
INVARIANT Inv
CHECK_DEADLOCK FALSE
