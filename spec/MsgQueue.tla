------------------------------ MODULE MsgQueue ------------------------------
(***************************************************************************)
(* internal/server/message.go: the queue through which raft messages reach *)
(* a replica's step worker.  Three lanes share one lock:                   *)
(*   buf     - ordinary messages, bounded (Add refuses when full);         *)
(*   nodrop  - messages that must not be lost (snapshot, unreachable ...); *)
(*   delayed - SnapshotStatus messages held back for a number of ticks.    *)
(* Get hands everything over: nodrop first, then the delayed messages that *)
(* are due (in the order they were added), then buf.  A message is         *)
(* identified by the integer the driver puts into it.                      *)
(*                                                                         *)
(* The property the rest of the system relies on (C17: a failed snapshot   *)
(* transfer is reported to the leader, otherwise the follower stays in the *)
(* snapshot state for ever; C12/C15: an InstallSnapshot is delivered):     *)
(* every message that was accepted is handed over by exactly one Get -     *)
(* a delayed one by the first Get after its delay has passed, never        *)
(* earlier - and nothing else is ever handed over.                         *)
(***************************************************************************)
EXTENDS Integers, Sequences, FiniteSets

QInit(size) == [size |-> size, buf |-> <<>>, nodrop |-> <<>>, delayed |-> <<>>, tick |-> 0,
                stopped |-> FALSE]

\* Add returns <<added, stopped>>
AddRet(q) == IF Len(q.buf) >= q.size THEN <<FALSE, q.stopped>>
             ELSE IF q.stopped THEN <<FALSE, TRUE>> ELSE <<TRUE, FALSE>>
Add(q, m) == IF AddRet(q)[1] THEN [q EXCEPT !.buf = Append(@, m)] ELSE q

MustAddRet(q) == ~q.stopped
MustAdd(q, m) == IF q.stopped THEN q ELSE [q EXCEPT !.nodrop = Append(@, m)]

AddDelayedRet(q) == ~q.stopped
AddDelayed(q, m, delay) ==
  IF q.stopped THEN q ELSE [q EXCEPT !.delayed = Append(@, [m |-> m, due |-> delay + q.tick])]

Tick(q) == [q EXCEPT !.tick = @ + 1]
Close(q) == [q EXCEPT !.stopped = TRUE]

\* CODE: getDelayed: a record is due when its tick is strictly below the current tick
Due(q) == SelectSeq(q.delayed, LAMBDA r : r.due < q.tick)
NotDue(q) == SelectSeq(q.delayed, LAMBDA r : ~(r.due < q.tick))
GetRet(q) == q.nodrop \o [k \in 1..Len(Due(q)) |-> Due(q)[k].m] \o q.buf
Get(q) == [q EXCEPT !.buf = <<>>, !.nodrop = <<>>, !.delayed = NotDue(q)]

\* everything inside the queue
Held(q) == {q.buf[k] : k \in 1..Len(q.buf)} \cup {q.nodrop[k] : k \in 1..Len(q.nodrop)}
           \cup {q.delayed[k].m : k \in 1..Len(q.delayed)}
=============================================================================
