---------------------------- MODULE QueuesTrace ----------------------------
(* Executions of the real entryQueue / readIndexQueue / readyShard (queue.go) recorded by qqsim                 *)
(* (harness/root/qqsim_test.go): every call with its result, recomputed by TLC with Queues.tla. `frozen` says   *)
(* that the batch handed over by the previous get() was untouched when the next get() was made.                 *)
EXTENDS Queues, Json, TLC
CONSTANT TraceFile
VARIABLES q, r, l, bad
Trace == ndJsonDeserialize(TraceFile)
vars == <<q, r, l, bad>>
Init == q = QInit("entry", 1) /\ r = RInit /\ l = 1 /\ bad = {}
Flag(ev, what) == bad \cup {<<ev.t, ev.i, ev.op, what>>}
SetOf(s) == {s[k] : k \in 1..Len(s)}
Next ==
  /\ l <= Len(Trace)
  /\ l' = l + 1
  /\ LET ev == Trace[l] IN
     IF ev.op = "Init" THEN q' = QInit(ev.kind, ev.size) /\ r' = RInit /\ bad' = bad
     ELSE IF \E x \in bad : x[1] = ev.t THEN UNCHANGED <<q, r, bad>>
     ELSE CASE ev.op = "Add" -> /\ q' = Add(q, ev.x) /\ r' = r
                                /\ bad' = IF <<ev.ret, ev.ret2>> = AddRet(q) THEN bad ELSE Flag(ev, {"result"})
            [] ev.op = "Close" -> q' = Close(q) /\ r' = r /\ bad' = bad
            [] ev.op = "Get" ->
                 LET what == (IF ev.got = GetRet(q) THEN {} ELSE
                                (IF SetOf(ev.got) = SetOf(GetRet(q)) /\ Len(ev.got) = Len(GetRet(q)) THEN {"order"}
                                 ELSE {"handed_over_differs_from_accepted"}))
                             \cup (IF ev.frozen THEN {} ELSE {"previous_batch_modified"})
                 IN /\ q' = Get(q, ev.paused) /\ r' = r
                    /\ bad' = IF what = {} THEN bad ELSE Flag(ev, what)
            [] ev.op = "SetReady" -> r' = RSet(r, ev.x) /\ q' = q /\ bad' = bad
            [] ev.op = "GetReady" ->
                 /\ r' = RGet(r) /\ q' = q
                 /\ bad' = IF SetOf(ev.got) = RGetRet(r) /\ ev.frozen THEN bad
                           ELSE Flag(ev, IF ev.frozen THEN {"ready_set"} ELSE {"previous_set_modified"})
Spec == Init /\ [][Next]_vars
Report == IF l = Len(Trace) + 1 THEN PrintT(<<"QQ-REPORT", Len(Trace), bad>>) ELSE TRUE
=============================================================================
