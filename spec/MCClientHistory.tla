-------------------------- MODULE MCClientHistory --------------------------
(* Validates the linearizability checker of ClientHistory.tla against the definition.       *)
(* TLC enumerates EVERY history of a few clients over the register file (any mix of reads   *)
(* and writes, any interleaving of invocations and responses, any claimed result, any       *)
(* outcome: ok / no result / refused) and compares, for each history and each prefix,       *)
(*   Reduced : the checker used on real traces (lazy linearization + relevance pruning +    *)
(*             look-ahead dead-end cuts), and                                               *)
(*   Brute   : the textbook construction - after every event the set of configurations is   *)
(*             closed under Linearize steps of ANY pending operation, nothing is pruned.    *)
(* Invariant: they agree.  So the reductions neither accept a history that is not           *)
(* linearizable nor reject one that is.  The run also reports how many of the enumerated    *)
(* histories are rejected (the classic anomalies - stale read after an acknowledged write,  *)
(* lost acknowledged write, value never written, refused write that took effect - are       *)
(* among them): the oracle is not vacuous.                                                  *)
EXTENDS ClientHistory, TLC

CONSTANTS Clients, MaxOps, KeysUsed

VARIABLES hist,     \* sequence of events [ev, id, op, k, v, out, val]
          busy,     \* client -> id of its outstanding operation, 0 if none
          nextid

vars == <<hist, busy, nextid>>

ValOf(id) == CASE id = 1 -> "v1" [] id = 2 -> "v2" [] id = 3 -> "v3" [] id = 4 -> "v4" [] id = 5 -> "v5" [] OTHER -> "v6"
Vals == {""} \cup {ValOf(i) : i \in 1..MaxOps}

Init == hist = <<>> /\ busy = [c \in Clients |-> 0] /\ nextid = 1

Invoke(c) ==
  /\ busy[c] = 0 /\ nextid <= MaxOps
  /\ \E op \in {"w", "r"}, k \in KeysUsed :
       /\ hist' = Append(hist, [ev |-> "Inv", id |-> nextid, op |-> op, k |-> k,
                                v |-> IF op = "w" THEN ValOf(nextid) ELSE "", out |-> "", val |-> ""])
       /\ busy' = [busy EXCEPT ![c] = nextid]
       /\ nextid' = nextid + 1

Respond(c) ==
  /\ busy[c] # 0
  /\ \E out \in {"ok", "unknown", "refused"} :
     \E val \in (IF out = "ok" THEN Vals ELSE {""}) :
       /\ hist' = Append(hist, [ev |-> "Res", id |-> busy[c], op |-> "", k |-> "", v |-> "", out |-> out, val |-> val])
       /\ busy' = [busy EXCEPT ![c] = 0]
       /\ UNCHANGED nextid

Next == \E c \in Clients : Invoke(c) \/ Respond(c)
Spec == Init /\ [][Next]_vars

\* ------------------------------------------------------------------ the two checkers
OpOfEv(e) == [id |-> e.id, op |-> e.op, k |-> e.k, v |-> e.v]
ResLines(h) == {j \in 1..Len(h) : h[j].ev = "Res"}
RM(h) == [id \in {h[j].id : j \in ResLines(h)} |->
            LET j == CHOOSE j \in ResLines(h) : h[j].id = id IN [out |-> h[j].out, val |-> h[j].val]]
OBS(h) == {h[j].val : j \in {m \in ResLines(h) : h[m].out = "ok"}}

RECURSIVE RedFold(_, _, _, _, _)
RedFold(cs, h, i, rm, obs) ==
  IF i > Len(h) \/ cs = {} THEN cs
  ELSE LET e == h[i]
           n == IF e.ev = "Inv" THEN OnInv(cs, OpOfEv(e))
                ELSE IF e.out = "ok" THEN OnResOk(cs, e.id, e.val, rm, obs)
                ELSE IF e.out = "refused" THEN OnResNoEffect(cs, e.id)
                ELSE OnResUnknown(cs, e.id, obs)
       IN RedFold(n, h, i + 1, rm, obs)
Reduced(h) == RedFold({Cfg0}, h, 1, RM(h), OBS(h)) # {}

StepAny(c) == {Apply(c, o) : o \in c.pend}
RECURSIVE Reach(_)
Reach(cs) == LET n == cs \cup UNION {StepAny(c) : c \in cs} IN IF n = cs THEN cs ELSE Reach(n)

RECURSIVE BruteFold(_, _, _)
BruteFold(cs, h, i) ==
  IF i > Len(h) \/ cs = {} THEN cs
  ELSE LET e == h[i]
           r == Reach(cs)
           n == IF e.ev = "Inv" THEN OnInv(r, OpOfEv(e))
                ELSE IF e.out = "ok"
                  THEN {[c EXCEPT !.lind = {x \in @ : x.id # e.id}] :
                          c \in {d \in r : \E x \in d.lind : x.id = e.id /\ x.res = e.val}}
                ELSE IF e.out = "refused"
                  THEN {[c EXCEPT !.pend = {p \in @ : p.id # e.id}] : c \in {d \in r : ~Linearized(d, e.id)}}
                ELSE {[c EXCEPT !.lind = {x \in @ : x.id # e.id}] : c \in r}
       IN BruteFold(n, h, i + 1)
Brute(h) == BruteFold({Cfg0}, h, 1) # {}

Agree == Reduced(hist) = Brute(hist)
\* expected to be violated: some enumerated histories are not linearizable (vacuity check of the oracle)
AllLinearizable == Reduced(hist)

\* statistics for the evidence file (TLCSet/TLCGet registers are per worker; run with one worker)
Count == /\ TLCSet(1, TLCGet(1) + 1)
         /\ (IF Brute(hist) THEN TRUE ELSE TLCSet(2, TLCGet(2) + 1))
=============================================================================
