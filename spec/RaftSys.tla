------------------------------ MODULE RaftSys ------------------------------
(***************************************************************************)
(* The shard as a whole: replica records (Raft.tla), the network, history  *)
(* variables, and THE PROPERTIES (C02 C03 C06 C07 C18).  Both the          *)
(* exhaustive model (MCRaft) and the trace specification (RaftTrace)       *)
(* extend this module, so the model checker and the trace validator        *)
(* evaluate the very same predicates.                                      *)
(*                                                                         *)
(* History (`h`) is derived only from what is observable in a step         *)
(* (pre/post replica record, delivered message), never from the model's    *)
(* expectations, so that the predicates judge observed executions of the   *)
(* real code even after it stopped conforming to Raft.tla.                 *)
(***************************************************************************)
EXTENDS Raft

CONSTANT TrackEvidence   \* TRUE: keep delivered votes/acks/confirmations (trace validation);
                         \* FALSE in exhaustive runs, where they would only multiply states

VARIABLES node,   \* [Replica -> replica record]
          net,    \* set of messages in flight
          h       \* history record

sysvars == <<node, net, h>>

Unknown == [term |-> 0, typ |-> "?", val |-> 0]

HInit == [elected |-> {},      \* <<term, id>> of every replica seen as leader
          votes   |-> {},      \* <<id, term, votedFor>> ever held (survives restarts)
          clog    |-> <<>>,    \* globally committed entries: [e, ct] (ct = term of first committer)
          alog    |-> <<>>,    \* applied: index -> [e, mem] (function with explicit domain)
          ri      |-> <<>>,    \* ctx -> [issue |-> global commit at issue]
          ricf    |-> {},      \* <<leader, ctx, from>> hinted heartbeat responses delivered while pending
          acks    |-> {},      \* <<leader, term, from, index>> positive ReplicateResp delivered
          grants  |-> {},      \* <<candidate, term, from>> granted RequestVoteResp delivered
          heard   |-> {},      \* <<leader, from>> anything delivered / reported from `from` since the leader's last quorum check
          released |-> {},     \* read contexts released to a requester anywhere
          healed  |-> FALSE,   \* C17: the fault prefix is over
          probes  |-> {},      \* <<replica, value>> proposed after healing
          probectx |-> {},     \* <<replica, ctx>> reads requested after healing
          probecc |-> {},      \* <<replica, ccval>> membership changes proposed after healing
          bad     |-> {}]      \* names of step-level property violations observed

CMax(hh) == Len(hh.clog)

\* entry equality modulo the metadata form kept by witnesses
SameEntry(a, b) == a = b \/ (a.term = b.term /\ ("Meta" \in {a.typ, b.typ}) /\ "CC" \notin {a.typ, b.typ})
                   \/ a.typ = "?" \/ b.typ = "?"

LogEntryOrUnknown(s, i) == IF i > s.sidx /\ i <= LastIdx(s) THEN EntryAt(s, i) ELSE Unknown

FunSet(f, k, v) == [x \in DOMAIN f \cup {k} |-> IF x = k THEN v ELSE f[x]]

(* ------------------------------------------------------------ history step *)
\* n acted: pre -> post; m is the delivered message or Msg("", ...) when none
HStep(hh, pre, post, m, ev) ==
  LET n == post.id
      becameLeader == post.up /\ post.role = "L" /\ (~pre.up \/ pre.role # "L" \/ pre.term # post.term)
      h1 == IF becameLeader THEN [hh EXCEPT !.elected = @ \cup {<<post.term, n>>}] ELSE hh
      \* a vote counts once it is durable and its response may have left (the Ready step);
      \* a vote lost in a crash before that was never given to anybody
      h2 == IF ev = "Ready" /\ post.dvote # None
              THEN [h1 EXCEPT !.votes = @ \cup {<<n, post.dterm, post.dvote>>}] ELSE h1
      \* commit: what the replica holds as committed AND has saved (a single-voter leader
      \* commits in memory before the save; nothing is applied or acknowledged before the save)
      ccom == IF post.up THEN Min2(post.com, post.dsidx + Len(post.dlog)) ELSE 0
      h3 == IF ccom > CMax(h2)
              THEN [h2 EXCEPT !.clog = @ \o [i \in 1..(ccom - CMax(h2)) |->
                                               [e |-> LogEntryOrUnknown(post, CMax(h2) + i), ct |-> post.term]]]
              ELSE h2
      \* delivered evidence
      h4 == CASE ~TrackEvidence -> h3
              [] m.mtype = "ReplicateResp" /\ ~m.reject -> [h3 EXCEPT !.acks = @ \cup {<<n, m.term, m.from, m.lidx>>}]
              [] m.mtype = "RequestVoteResp" /\ ~m.reject -> [h3 EXCEPT !.grants = @ \cup {<<n, m.term, m.from>>}]
              [] m.mtype = "HeartbeatResp" /\ m.hint # 0 -> [h3 EXCEPT !.ricf = @ \cup {<<n, m.term, m.hint, m.from>>}]
              [] OTHER -> h3
      \* apply
      appliedEntry == ev = "Apply" /\ pre.aq = NoSnap /\ post.aapp = pre.aapp + 1 /\ Len(pre.alist) > 0
      ae == Head(pre.alist)
      i == post.aapp
      h5 == IF appliedEntry
              THEN IF i \in DOMAIN h4.alog
                     THEN IF SameEntry(h4.alog[i].e, ae) /\ (post.kind = "W" \/ h4.alog[i].mem = post.mem \/ h4.alog[i].mem = Unknown)
                            THEN h4 ELSE [h4 EXCEPT !.bad = @ \cup {"ApplyAgreement"}]
                     ELSE [h4 EXCEPT !.alog = FunSet(@, i, [e |-> ae, mem |-> IF post.kind = "W" THEN Unknown ELSE post.mem])]
              ELSE h4
      \* apply order: strictly increasing, gap-free within an incarnation
      h6 == IF ev = "Apply" /\ pre.aq = NoSnap /\ post.aapp # pre.aapp + 1
              THEN [h5 EXCEPT !.bad = @ \cup {"ApplyOrder"}] ELSE h5
      h7 == IF ev = "Apply" /\ pre.aq # NoSnap /\ (post.aapp < pre.aapp \/ post.aapp # pre.aq.index)
              THEN [h6 EXCEPT !.bad = @ \cup {"ApplyOrder"}] ELSE h6
      \* C07/C18: after a snapshot was applied the membership raft works with is the snapshot's
      h7b == IF ev = "Apply" /\ pre.aq # NoSnap /\ post.up /\
                (post.V # pre.aq.v \/ post.NV # pre.aq.nv \/ post.W # pre.aq.w)
               THEN [h7 EXCEPT !.bad = @ \cup {"SnapshotMembership"}] ELSE h7
      \* one vote per term, step level: a vote never changes within a term
      h8 == IF pre.up /\ post.up /\ pre.term = post.term /\ pre.vote # None /\ post.vote # pre.vote
              THEN [h7b EXCEPT !.bad = @ \cup {"VoteChangedInTerm"}] ELSE h7b
      \* committed index never moves backwards within an incarnation; term never decreases
      h9 == IF pre.up /\ post.up /\ ev # "Restart" /\ (post.com < pre.com \/ post.term < pre.term)
              THEN [h8 EXCEPT !.bad = @ \cup {"Monotonic"}] ELSE h8
      \* C18/C03: an election is won with granted votes (delivered RequestVoteResp) of a
      \* majority of voters + witnesses
      gs == {x[3] : x \in {y \in h9.grants : y[1] = n /\ y[2] = post.term}} \cup {n}
      h10 == IF TrackEvidence /\ becameLeader /\ pre.up /\ Cardinality(gs \cap VotingIds(pre)) < Quorum(pre)
               THEN [h9 EXCEPT !.bad = @ \cup {"ElectionQuorum"}] ELSE h9
      \* C18: a leader advances its commit index only to what a majority of voters +
      \* witnesses acknowledged in its term (delivered ReplicateResp), itself included
      advanced == pre.up /\ post.up /\ pre.role = "L" /\ post.role = "L" /\ pre.term = post.term /\ post.com > pre.com
      acked == {x[3] : x \in {y \in h10.acks : y[1] = n /\ y[2] = post.term /\ y[4] >= post.com}} \cup {n}
      h11 == IF TrackEvidence /\ advanced /\ Cardinality(acked \cap VotingIds(post)) < Quorum(post)
               THEN [h10 EXCEPT !.bad = @ \cup {"CommitQuorum"}] ELSE h10
      \* C06: a leader accepts a read request only with a committed entry of its term
      accepted == pre.up /\ post.up /\ post.role = "L" /\ Len(post.riq) > 0 /\
                  (pre.role # "L" \/ {post.riq[k].ctx : k \in 1..Len(post.riq)} \ {pre.riq[k].ctx : k \in 1..Len(pre.riq)} # {})
      h12 == IF accepted /\ TermAt(post, post.com) # post.term
               THEN [h11 EXCEPT !.bad = @ \cup {"ReadIndexNoTermCommit"}] ELSE h11
      \* C06: a leader with more than one voting member releases read requests only on a
      \* hinted heartbeat response whose context was confirmed by a quorum of voting members
      newRtr == {post.rtr[k] : k \in 1..Len(post.rtr)} \ (IF pre.up THEN {pre.rtr[k] : k \in 1..Len(pre.rtr)} ELSE {})
      newResp == {x \in post.msgs : x.mtype = "ReadIndexResp"} \ (IF pre.up THEN pre.msgs ELSE {})
      \* (a leader that has just become the only voting member releases what was pending: nobody is left to confirm it,
      \* raft.releasePendingReadIndexes)
      released == pre.up /\ pre.role = "L" /\ ~SingleQuorum(pre) /\ (newRtr # {} \/ newResp # {})
                  /\ ~(post.up /\ post.role = "L" /\ SingleQuorum(post))
      cf == {x[4] : x \in {y \in h12.ricf : y[1] = n /\ y[2] = pre.term /\ y[3] = m.hint}}
      h13 == IF TrackEvidence /\ released /\ ~(m.mtype = "HeartbeatResp" /\ m.hint # 0 /\
                               Cardinality((cf \cap VotingIds(pre)) \cup {n}) >= Quorum(pre))
               THEN [h12 EXCEPT !.bad = @ \cup {"ReadIndexNoQuorum"}] ELSE h12
      \* C07: a replica only changes kind by promotion non-voting -> voting
      h14 == IF appliedEntry /\ ((pre.mem.v \cap (post.mem.nv \cup post.mem.w)) \cup
                                 (pre.mem.w \cap (post.mem.v \cup post.mem.nv)) \cup
                                 (pre.mem.nv \cap post.mem.w)) # {}
               THEN [h13 EXCEPT !.bad = @ \cup {"KindChange"}] ELSE h13
      h15 == [h14 EXCEPT !.released = @ \cup {x.ctx : x \in newRtr}]
      \* C18: with CheckQuorum a leader survives its quorum check (every election time-out) only if
      \* it has heard from a majority of voters + witnesses since the previous check; non-voting
      \* members do not count.  `heard` over-approximates the `active` flags of the code (any
      \* delivered message or transport report counts), so a correct leader never trips this.
      h16 == IF CheckQuorum /\ m.mtype # "" /\ m.from # None /\ m.from # n /\ post.up /\ post.role = "L" /\ ~becameLeader
               THEN [h15 EXCEPT !.heard = @ \cup {<<n, m.from>>}] ELSE h15
      h17 == IF becameLeader THEN [h16 EXCEPT !.heard = {x \in @ : x[1] # n}] ELSE h16
      checked == CheckQuorum /\ ev = "Tick" /\ pre.up /\ pre.role = "L" /\ pre.etick + 1 >= ET
      active == {v \in VotingIds(pre) : v = n \/ <<n, v>> \in h17.heard}
      h18 == IF checked
               THEN LET hx == IF post.up /\ post.role = "L" /\ post.term = pre.term /\ Cardinality(active) < Quorum(pre)
                                THEN [h17 EXCEPT !.bad = @ \cup {"CheckQuorumLease"}] ELSE h17
                    IN [hx EXCEPT !.heard = {x \in @ : x[1] # n}]
               ELSE h17
  IN h18

(* ----------------------------------------------------- read index history *)
\* a ReadIndex request with context ctx entered the system now
HIssue(hh, ctx) == [hh EXCEPT !.ri = FunSet(@, ctx, [issue |-> CMax(hh)])]

(* ------------------------------------------------------------ properties *)
Up == {n \in Replica : node[n].up}

\* C02: every replica's committed prefix is the global committed log
CommittedAgree ==
  \A n \in Up : LET s == node[n] IN
    \A i \in (s.sidx + 1)..Min2(s.com, CMax(h)) :
       /\ i <= LastIdx(s)
       /\ SameEntry(EntryAt(s, i), h.clog[i].e)

\* C02: a commit index never points past the log
CommitWithinLog == \A n \in Up : node[n].com <= LastIdx(node[n]) /\ node[n].com >= node[n].sidx

\* C02: log matching
LogMatching ==
  \A a, b \in Up : a < b =>
    LET sa == node[a] sb == node[b]
        lo == Max2(sa.sidx, sb.sidx) + 1
        hi == Min2(LastIdx(sa), LastIdx(sb))
    IN \A i \in lo..hi :
         EntryAt(sa, i).term = EntryAt(sb, i).term =>
           \A j \in lo..i : SameEntry(EntryAt(sa, j), EntryAt(sb, j))

\* C02: applied agreement, order (collected at step level) and applied => committed
ApplyAgreement == "ApplyAgreement" \notin h.bad
ApplyOrder == "ApplyOrder" \notin h.bad
AppliedIsCommitted == \A n \in Up : node[n].aapp + Len(node[n].alist) <= Max2(node[n].com, node[n].dsnap.index)
                                    /\ node[n].aapp <= CMax(h)
Monotonic == "Monotonic" \notin h.bad
CheckQuorumLease == "CheckQuorumLease" \notin h.bad

\* C03
ElectionSafety == \A x, y \in h.elected : x[1] = y[1] => x[2] = y[2]
NoTwoLeadersNow == \A a, b \in Up : (node[a].role = "L" /\ node[b].role = "L" /\ node[a].term = node[b].term) => a = b
OneVotePerTerm == /\ \A x, y \in h.votes : (x[1] = y[1] /\ x[2] = y[2]) => x[3] = y[3]
                  /\ "VoteChangedInTerm" \notin h.bad
\* every leader holds every entry committed in an earlier term
LeaderCompleteness ==
  \A n \in Up : node[n].role = "L" =>
    \A i \in 1..CMax(h) :
       (h.clog[i].ct < node[n].term /\ i > node[n].sidx) =>
          (i <= LastIdx(node[n]) /\ SameEntry(EntryAt(node[n], i), h.clog[i].e))
\* the durable vote never contradicts a vote held in that term
DurableVote == \A n \in Replica : LET s == node[n] IN
                  (s.up /\ s.dvote # None /\ s.dterm = s.term /\ s.vote # None) => s.dvote = s.vote

\* C18
OnlyVotersLead == \A n \in Up : node[n].role \in {"C", "P", "L"} => (node[n].kind = "V" /\ n \in node[n].V)
NonVotingWitnessRoles == \A n \in Up : /\ (node[n].kind = "N" => node[n].role = "N")
                                       /\ (node[n].kind = "W" => node[n].role = "W")
ElectionQuorum == "ElectionQuorum" \notin h.bad
CommitQuorum == "CommitQuorum" \notin h.bad
\* witnesses get metadata only
WitnessNoPayload ==
  \A m \in net : \A n \in Up :
     (m.from = n /\ m.to \in node[n].W /\ node[n].role = "L") =>
        /\ \A i \in 1..Len(m.ents) : m.mtype = "Replicate" => m.ents[i].typ \in {"Meta", "CC"}
        /\ (m.mtype = "InstallSnapshot" => m.snap.wit)
WitnessLogMeta == \A n \in Up : node[n].kind = "W" => \A i \in 1..Len(node[n].log) : node[n].log[i].typ \in {"Meta", "CC"}

\* C06: whatever index is released for a context is at least the global commit at issue
\* time, and it was confirmed by a quorum of voting members after the leader accepted it
ReadIndexSafe ==
  \A n \in Up : \A k \in 1..Len(node[n].rtr) :
     LET r == node[n].rtr[k] IN
     r.ctx \in DOMAIN h.ri => r.index >= h.ri[r.ctx].issue
ReadIndexRespSafe ==
  \A m \in net : (m.mtype = "ReadIndexResp" /\ m.hint \in DOMAIN h.ri) => m.lidx >= h.ri[m.hint].issue
ReadIndexMechanism == {"ReadIndexNoQuorum", "ReadIndexNoTermCommit"} \cap h.bad = {}

\* C07
OneCCAtATime == \A n \in Up : node[n].role = "L" =>
                   Cardinality({i \in (Max2(node[n].aapp, node[n].sidx) + 1)..LastIdx(node[n]) : EntryAt(node[n], i).typ = "CC"}) <= 1
RemovedNeverReadmitted == \A n \in Up : node[n].mem.rm \cap (node[n].mem.v \cup node[n].mem.nv \cup node[n].mem.w) = {}
KindsDisjoint == \A n \in Up : LET m == node[n].mem IN m.v \cap m.nv = {} /\ m.v \cap m.w = {} /\ m.nv \cap m.w = {}
MembershipHasVoter == \A n \in Up : (node[n].aapp > 0 /\ node[n].kind # "W") => node[n].mem.v # {}
KindOnlyPromotes == "KindChange" \notin h.bad
SnapshotMembershipInstalled == "SnapshotMembership" \notin h.bad

\* C17 bounded progress, evaluated when the fair fault-free phase is over: a leader exists, every
\* running member of its configuration is in its term and caught up to its commit index (by log
\* or by snapshot), and every proposal / linearizable read submitted by a member after the
\* healing has completed
InLog(s, v) == \E i \in 1..Len(s.log) : s.log[i].typ = "App" /\ s.log[i].val = v /\ s.sidx + i <= s.com
ProgressPred ==
  \E l \in Up :
    /\ node[l].role = "L"
    /\ \A n \in Up : n \in Members(node[l]) =>
          /\ node[n].term = node[l].term
          /\ IF node[n].kind = "W" THEN node[n].com = node[l].com ELSE node[n].aapp = node[l].com
    /\ \A p \in h.probes : p[1] \in Members(node[l]) => InLog(node[l], p[2])
    /\ \A p \in h.probectx : (p[1] \in Members(node[l]) /\ node[p[1]].kind # "W") => p[2] \in h.released
    /\ \A p \in h.probecc : CCOp(p[2]) = RemoveOp => CCId(p[2]) \in node[l].mem.rm

NoBad == h.bad = {}
=============================================================================
