------------------------------- MODULE MCRaft -------------------------------
(***************************************************************************)
(* Exhaustive model of a shard built from the operators of Raft.tla: the   *)
(* same step functions that the trace specification compares with the real *)
(* code are here driven by an adversarial environment (any delivery order, *)
(* loss, duplication, timeouts, crash/restart, client requests, membership *)
(* changes, snapshots, compaction).  Time is abstract: a timeout fires     *)
(* whenever the environment says so (sound for safety: every exact-time    *)
(* behaviour is one of these).                                             *)
(***************************************************************************)
EXTENDS RaftSys

CONSTANTS InitVoters,         \* replicas bootstrapped as the initial voting members
          MaxTerm, MaxLen, MaxMsgs, MaxDup, MaxCrash, MaxProp, MaxRead, MaxCC, MaxSnap,
          CCChoices,          \* set of config-change values the clients may propose
          JoinKind,           \* [replica -> "V"/"N"/"W"] for replicas that may join later (or <<>>)
          Eager               \* TRUE: every step is followed at once by Ready and by the apply of what
                              \* was handed out (no batching of inputs, no crash between step and save);
                              \* FALSE: Ready and Apply are separate environment steps

VARIABLES cnt   \* environment budget counters

mcvars == <<node, net, h, cnt>>
NoJoin == <<>>
\* ready-made values for configuration files
CCRemove2 == {CCVal(RemoveOp, 2)}
CCAdd3 == {CCVal(AddNodeOp, 3)}
CCAdd3Remove2 == {CCVal(AddNodeOp, 3), CCVal(RemoveOp, 2)}
Join3V == (3 :> "V")
Join3N == (3 :> "N")
CCAddNV3 == {CCVal(AddNonVotingOp, 3), CCVal(AddNodeOp, 3)}
CCAddW3 == {CCVal(AddWitnessOp, 3)}
Join3W == (3 :> "W")

\* Ready, then apply everything that was handed out (used by Eager and to settle the bootstrap)
RECURSIVE ApplyAll(_, _)
ApplyAll(s, hh) ==
  IF CanApply(s) THEN LET s1 == ApplyOne(s, ET) IN ApplyAll(s1, HStep(hh, s, s1, Msg("", 0, 0, 0), "Apply"))
  ELSE <<s, hh>>

NoMsg == Msg("", 0, 0, 0)

\* settle: Ready / apply until nothing changes (bounded: at most 3 rounds are ever needed)
RECURSIVE Settle(_, _, _, _)
Settle(s, hh, out, k) ==
  LET s1 == Ready(s) IN
  IF k = 0 \/ (s1 = s /\ ~CanApply(s)) THEN <<s, hh, out>>
  ELSE LET h1 == HStep(hh, s, s1, NoMsg, "Ready")
           a == ApplyAll(s1, h1)
       IN Settle(a[1], a[2], out \cup Notify(s).msgs, k - 1)

Init ==
  /\ LET boot == [i \in Replica |-> IF i \in InitVoters THEN Bootstrap(i, InitVoters, ET) ELSE Fresh(i)]
         F[S \in SUBSET InitVoters] ==
           IF S = {} THEN <<boot, HInit>>
           ELSE LET i == Min(S)
                    prev == F[S \ {i}]
                    st == Settle(prev[1][i], HStep(prev[2], Fresh(i), prev[1][i], NoMsg, "Boot"), {}, 3)
                IN <<[prev[1] EXCEPT ![i] = st[1]], st[2]>>
         r == IF Eager THEN F[InitVoters] ELSE <<boot, HInit>>
     IN node = r[1] /\ h = r[2]
  /\ net = {}
  /\ cnt = [dup |-> 0, crash |-> 0, prop |-> 0, read |-> 0, cc |-> 0, snap |-> 0]

\* replica n moves from its current record to post (with message m as evidence);
\* netbase is the network without the consumed message
Move(n, post, m, ev, hh, netbase) ==
  LET h1 == HStep(hh, node[n], post, m, ev) IN
  IF Eager /\ post.up
    THEN LET st == Settle(post, h1, {}, 3) IN
         /\ node' = [node EXCEPT ![n] = st[1]]
         /\ h' = st[2]
         /\ net' = netbase \cup st[3]
    ELSE /\ node' = [node EXCEPT ![n] = post]
         /\ h' = h1
         /\ net' = netbase

Timeout(n) ==
  /\ node[n].up /\ node[n].role \notin {"N", "W"}
  /\ LET pre == Notify(node[n])
         armed == IF pre.role = "L" THEN [pre EXCEPT !.etick = ET - 1, !.htick = HT - 1]
                  ELSE [pre EXCEPT !.etick = Max2(pre.etick, pre.rto - 1)]
         post == Tick(armed, ET)
     IN /\ post # node[n]
        /\ Move(n, post, NoMsg, "Tick", h, net)
  /\ UNCHANGED cnt

\* a follower's leader lease runs out without the follower campaigning yet
LeaseExpire(n) ==
  /\ CheckQuorum /\ node[n].up /\ node[n].role # "L" /\ node[n].etick < ET
  /\ node' = [node EXCEPT ![n] = [node[n] EXCEPT !.etick = ET, !.rto = 2 * ET - 1]]
  /\ UNCHANGED <<net, cnt, h>>

Deliver(m, dup) ==
  /\ m \in net /\ node[m.to].up
  /\ dup => cnt.dup < MaxDup
  /\ LET post == PeerHandle(Notify(node[m.to]), m, ET) IN
       Move(m.to, post, m, "Deliver", h, IF dup THEN net ELSE net \ {m})
  /\ cnt' = IF dup THEN [cnt EXCEPT !.dup = @ + 1] ELSE cnt

Drop(m) ==
  /\ m \in net
  /\ net' = net \ {m}
  /\ UNCHANGED <<node, h, cnt>>

DoReady(n) ==
  /\ ~Eager /\ node[n].up
  /\ LET post == Ready(node[n]) IN
       /\ post # node[n]
       /\ Move(n, post, NoMsg, "Ready", h, net \cup Notify(node[n]).msgs)
  /\ UNCHANGED cnt

DoApply(n) ==
  /\ ~Eager /\ node[n].up /\ CanApply(node[n])
  /\ Move(n, ApplyOne(node[n], ET), NoMsg, "Apply", h, net)
  /\ UNCHANGED cnt

Local(n, m, ev, hh) == Move(n, RaftHandle(Notify(node[n]), m, ET), m, ev, hh, net)

ClientPropose(n) ==
  /\ node[n].up /\ node[n].role # "W" /\ cnt.prop < MaxProp
  /\ Local(n, [Msg("Propose", n, 0, 0) EXCEPT !.ents = <<[term |-> 0, typ |-> "App", val |-> cnt.prop + 1]>>], "Propose", h)
  /\ cnt' = [cnt EXCEPT !.prop = @ + 1]

ClientProposeCC(n, cc) ==
  /\ node[n].up /\ node[n].role # "W" /\ cnt.cc < MaxCC
  /\ Local(n, [Msg("Propose", 0, 0, 0) EXCEPT !.ents = <<[term |-> 0, typ |-> "CC", val |-> cc]>>], "ProposeCC", h)
  /\ cnt' = [cnt EXCEPT !.cc = @ + 1]

ClientReadIndex(n) ==
  /\ node[n].up /\ node[n].role # "W" /\ cnt.read < MaxRead
  /\ Local(n, [Msg("ReadIndex", 0, 0, 0) EXCEPT !.hint = cnt.read + 1], "ReadIndex", HIssue(h, cnt.read + 1))
  /\ cnt' = [cnt EXCEPT !.read = @ + 1]

ClientTransfer(n, target) ==
  /\ node[n].up /\ node[n].role = "L" /\ node[n].xfer = None /\ target # n /\ target \in node[n].V
  /\ Local(n, [Msg("LeaderTransfer", 0, n, 0) EXCEPT !.hint = target], "Transfer", h)
  /\ UNCHANGED cnt

ReportSnapshotStatus(n, from, rej) ==
  /\ node[n].up /\ node[n].role = "L" /\ from \in DOMAIN node[n].rem /\ node[n].rem[from].st = "Snap"
  /\ Local(n, [Msg("SnapshotStatus", from, 0, 0) EXCEPT !.reject = rej], "SnapStatus", h)
  /\ UNCHANGED cnt

DoCrash(n) ==
  /\ node[n].up /\ cnt.crash < MaxCrash
  /\ Move(n, Crash(node[n]), NoMsg, "Crash", h, net)
  /\ cnt' = [cnt EXCEPT !.crash = @ + 1]

DoRestart(n) ==
  /\ ~node[n].up /\ (node[n].dterm > 0 \/ node[n].dsnap # NoSnap \/ node[n].dlog # <<>>)
  /\ Move(n, Restart(node[n], ET), NoMsg, "Restart", h, net)
  /\ UNCHANGED cnt

DoJoin(n) ==
  /\ n \in DOMAIN JoinKind /\ ~node[n].up /\ node[n].dterm = 0 /\ node[n].dlog = <<>> /\ node[n].dsnap = NoSnap
  /\ \E k \in Up : n \in (node[k].mem.v \cup node[k].mem.nv \cup node[k].mem.w)
  /\ Move(n, Join(n, JoinKind[n], ET), NoMsg, "Join", h, net)
  /\ UNCHANGED cnt

DoSnapshot(n) ==
  /\ node[n].up /\ CanSnapshot(node[n]) /\ cnt.snap < MaxSnap
  /\ Move(n, TakeSnapshot(node[n]), NoMsg, "Snapshot", h, net)
  /\ cnt' = [cnt EXCEPT !.snap = @ + 1]

DoCompact(n) ==
  /\ node[n].up /\ node[n].dsnap.index > node[n].sidx /\ CanCompact(node[n], node[n].dsnap.index)
  /\ Move(n, Compact(node[n], node[n].dsnap.index), NoMsg, "Compact", h, net)
  /\ UNCHANGED cnt

Next ==
  \/ \E n \in Replica : Timeout(n)
  \/ \E n \in Replica : LeaseExpire(n)
  \/ \E m \in net : Deliver(m, FALSE)
  \/ \E m \in net : Deliver(m, TRUE)
  \/ \E m \in net : Drop(m)
  \/ \E n \in Replica : DoReady(n)
  \/ \E n \in Replica : DoApply(n)
  \/ \E n \in Replica : ClientPropose(n)
  \/ \E n \in Replica : \E cc \in CCChoices : ClientProposeCC(n, cc)
  \/ \E n \in Replica : ClientReadIndex(n)
  \/ \E n, t \in Replica : ClientTransfer(n, t)
  \/ \E n, f \in Replica : \E rej \in BOOLEAN : ReportSnapshotStatus(n, f, rej)
  \/ \E n \in Replica : DoCrash(n)
  \/ \E n \in Replica : DoRestart(n)
  \/ \E n \in Replica : DoJoin(n)
  \/ \E n \in Replica : DoSnapshot(n)
  \/ \E n \in Replica : DoCompact(n)

\* the state without the history (the history never influences a transition): used to count the
\* reachable (node, net, cnt) combinations, which is what xsim counts on the real code
ViewNoH == <<node, net, cnt>>

Spec == Init /\ [][Next]_mcvars

Bounded ==
  /\ \A n \in Replica : node[n].term <= MaxTerm /\ LastIdx(node[n]) <= MaxLen
  /\ Cardinality(net) <= MaxMsgs
  /\ \A n \in Replica : Cardinality(node[n].msgs) <= MaxMsgs + 2

\* all safety properties of RaftSys that do not need the delivered-message evidence
Safety ==
  /\ CommittedAgree /\ CommitWithinLog /\ LogMatching /\ ApplyAgreement /\ ApplyOrder
  /\ AppliedIsCommitted /\ Monotonic
  /\ ElectionSafety /\ NoTwoLeadersNow /\ OneVotePerTerm /\ LeaderCompleteness /\ DurableVote
  /\ OnlyVotersLead /\ NonVotingWitnessRoles /\ WitnessNoPayload /\ WitnessLogMeta
  /\ ReadIndexSafe /\ ReadIndexRespSafe
  /\ OneCCAtATime /\ RemovedNeverReadmitted /\ KindsDisjoint /\ MembershipHasVoter /\ KindOnlyPromotes
  /\ CheckQuorumLease /\ SnapshotMembershipInstalled
=============================================================================
