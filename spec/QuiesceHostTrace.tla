------------------------- MODULE QuiesceHostTrace -------------------------
(* C17 on real NodeHosts with Config.Quiesce (harness/root/nhsim_quiesce_test.go): every request  *)
(* made after the shard went quiescent is recorded with the deadline the caller asked for, the     *)
(* time the answer took and whether a quorum of the voting members was connected to the replica    *)
(* that served it.  The request clocks of a replica (pendingProposal / pendingReadIndex /           *)
(* pendingConfigChange .tick in node.tick) are what turns "no quorum" into Timeout; Quiesce.tla     *)
(* (MCQuiesce) has the wake-up rules of the quiesce state itself.                                   *)
(*   request_hangs              nothing came back 3 s after the deadline                            *)
(*   timeout_before_deadline    a Timeout result arrived before half of the requested time          *)
(*   not_completed_with_quorum  paced attempts of 4 s each on a connected shard for 20 s, none      *)
(*                              completed (event Served)                                            *)
(*   completed_without_quorum   a request completed on a replica that had lost the quorum           *)
EXTENDS Integers, Sequences, FiniteSets, TLC, Json

CONSTANT TraceFile
VARIABLES l, bad, cnt

Trace == ndJsonDeserialize(TraceFile)
vars == <<l, bad, cnt>>

Problems(ev) ==
  (IF ev.code = "hung" THEN {"request_hangs"} ELSE {})
  \cup (IF ev.code = "timeout" /\ 2 * ev.elapsedms < ev.timeoutms THEN {"timeout_before_deadline"} ELSE {})
  \cup (IF ~ev.quorum /\ ev.code = "ok" THEN {"completed_without_quorum"} ELSE {})

Asleep(ev) == \E k \in 1..Len(ev.quiesced) : ev.quiesced[k]

Init == l = 1 /\ bad = {} /\ cnt = [req |-> 0, asleep |-> 0, alone |-> 0, aloneAsleep |-> 0]
Next ==
  /\ l <= Len(Trace)
  /\ l' = l + 1
  /\ LET ev == Trace[l] IN
     CASE ev.ev = "Req" ->
            /\ bad' = bad \cup {<<ev.t, ev.i, "Req", {w}>> : w \in Problems(ev)}
            /\ cnt' = [req |-> cnt.req + 1,
                       asleep |-> cnt.asleep + (IF Asleep(ev) THEN 1 ELSE 0),
                       alone |-> cnt.alone + (IF ~ev.quorum THEN 1 ELSE 0),
                       aloneAsleep |-> cnt.aloneAsleep + (IF ~ev.quorum /\ Asleep(ev) THEN 1 ELSE 0)]
       [] ev.ev = "Served" ->
            /\ bad' = IF ev.ok THEN bad ELSE bad \cup {<<ev.t, ev.i, "Served", {"not_completed_with_quorum"}>>}
            /\ UNCHANGED cnt
       [] ev.ev = "Panic" -> bad' = bad \cup {<<ev.t, ev.i, "Panic", {ev.msg}>>} /\ UNCHANGED cnt
       [] OTHER -> UNCHANGED <<bad, cnt>>
Spec == Init /\ [][Next]_vars
Report == IF l = Len(Trace) + 1
          THEN PrintT(<<"QH-REPORT", Len(Trace), bad>>) /\ PrintT(<<"QH-COUNT", cnt>>)
          ELSE TRUE
=============================================================================
