SPECIFICATION Spec
CONSTANTS
  Kind = "read"
  Size = 2
  MaxItem = 6
INVARIANT Inv
PROPERTY NothingWhenPausedOrStopped
CHECK_DEADLOCK FALSE
