------------------------------- MODULE Import -------------------------------
(* Quorum-loss repair by tools.ImportSnapshot (tools/import.go, property C20): when an      *)
(* import is accepted, and what the shard looks like afterwards.                            *)
(*   old       membership recorded in the exported snapshot:                                *)
(*             [addrs, nonvotings, witnesses : replica -> address, removed : set]           *)
(*   list      the new member list, replica -> address                                      *)
(*   importer  the replica the import is run for, cfgaddr the RaftAddress of its host       *)
(*   damage    "none" or what was done to the exported directory                            *)
EXTENDS Integers, FiniteSets, Sequences

Known(old) == DOMAIN old.addrs \cup DOMAIN old.nonvotings \cup DOMAIN old.witnesses

\* checkImportSettings + isCompleteSnapshotImage + checkMembers
Reasons(old, list, importer, cfgaddr, damage) ==
  (IF importer \notin DOMAIN list THEN {"importer_not_listed"} ELSE {})
  \cup (IF importer \in DOMAIN list /\ list[importer] # cfgaddr THEN {"importer_address_differs"} ELSE {})
  \cup (IF damage # "none" THEN {"export_damaged"} ELSE {})
  \cup (IF \E r \in DOMAIN list : r \in old.removed THEN {"readmits_removed"} ELSE {})
  \cup (IF \E r \in DOMAIN list : r \in DOMAIN old.addrs /\ old.addrs[r] # list[r] THEN {"address_changed"} ELSE {})
  \cup (IF \E r \in DOMAIN list : r \in DOMAIN old.nonvotings \cup DOMAIN old.witnesses THEN {"kind_changed"} ELSE {})
Accepted(old, list, importer, cfgaddr, damage) == Reasons(old, list, importer, cfgaddr, damage) = {}

\* getProcessedSnapshotRecord: exactly the given list as regular members, everybody else who
\* was known becomes removed, nobody is both
PostMembers(old, list) == list
PostRemoved(old, list) == old.removed \cup (Known(old) \ DOMAIN list)

WellFormed(old, list) ==
  /\ DOMAIN PostMembers(old, list) \cap PostRemoved(old, list) = {}
  /\ Known(old) \subseteq DOMAIN PostMembers(old, list) \cup PostRemoved(old, list)
=============================================================================
