------------------------------ MODULE MCQueues ------------------------------
(* Exhaustive check of Queues.tla for a small queue: every accepted item is handed over exactly once, in   *)
(* the order of acceptance; a paused entry queue accepts nothing; a stopped queue accepts nothing.          *)
EXTENDS Queues, TLC
CONSTANTS Kind, Size, MaxItem
VARIABLES q, next, accepted, out
vars == <<q, next, accepted, out>>
Init == q = QInit(Kind, Size) /\ next = 1 /\ accepted = <<>> /\ out = <<>>
DoAdd == /\ next <= MaxItem
         /\ q' = Add(q, next)
         /\ accepted' = IF AddRet(q)[1] THEN Append(accepted, next) ELSE accepted
         /\ next' = next + 1 /\ UNCHANGED out
DoGet(p) == out' = out \o GetRet(q) /\ q' = Get(q, p) /\ UNCHANGED <<next, accepted>>
DoClose == ~q.stopped /\ q' = Close(q) /\ UNCHANGED <<next, accepted, out>>
Next == DoAdd \/ (\E p \in BOOLEAN : DoGet(p)) \/ DoClose
Spec == Init /\ [][Next]_vars
\* handed over + still held = accepted, as sequences: exactly once and in order
ExactlyOnceInOrder == out \o q.buf = accepted
Bounded == Len(q.buf) <= Size
NothingWhenPausedOrStopped == [][(q.stopped \/ (Kind = "entry" /\ q.paused)) => (DoAdd => accepted' = accepted)]_vars
Inv == ExactlyOnceInOrder /\ Bounded
=============================================================================
