----------------------------- MODULE SMContract -----------------------------
(* The contract between Dragonboat and a user state machine object (statemachine/rsm.go,   *)
(* concurrent.go, disk.go; property C11), as a monitor over the Enter / Exit events of      *)
(* the instrumented state machines of nhsim.                                                *)
(*                                                                                          *)
(*  - Update, Sync, PrepareSnapshot, RecoverFromSnapshot, Close (and Open) never overlap    *)
(*    one another and none of them is called after Close;                                   *)
(*  - for the plain IStateMachine, Lookup and SaveSnapshot additionally never overlap       *)
(*    Update, RecoverFromSnapshot or Close;                                                 *)
(*  - Update indexes are strictly increasing within one state machine object, above the     *)
(*    index of the snapshot it last recovered from, and (on-disk) above the index Open      *)
(*    returned;                                                                             *)
(*  - every entry that reached Update on any replica reaches Update exactly once on every   *)
(*    state machine object whose life covers its index (after the snapshot / Open index     *)
(*    the object started from, not skipped by a later RecoverFromSnapshot, at or below the  *)
(*    last index the object applied).                                                       *)
EXTENDS Integers, Sequences, FiniteSets

Exclusive == {"Open", "Update", "Sync", "PrepareSnapshot", "RecoverFromSnapshot", "Close"}
Writers == {"Update", "RecoverFromSnapshot", "Close"}
Readers == {"Lookup", "SaveSnapshot"}

\* one state machine object
SMInit(kind, host) ==
  [kind |-> kind, host |-> host, active |-> <<>>,   \* methods in progress (a sequence: a method may be active twice)
   closed |-> FALSE, last |-> 0, base |-> 0, delivered |-> {}, skips |-> {}]

Active(s, ms) == \E k \in 1..Len(s.active) : s.active[k] \in ms

\* the set of rules that the call violates (empty = allowed)
EnterViolations(s, m, idx) ==
  (IF m \in Exclusive /\ Active(s, Exclusive) THEN {"overlap_exclusive"} ELSE {})
  \cup (IF m \in Exclusive /\ s.closed THEN {"called_after_close"} ELSE {})
  \cup (IF s.kind = "regular" /\ m \in Readers /\ Active(s, Writers) THEN {"reader_overlaps_writer"} ELSE {})
  \cup (IF s.kind = "regular" /\ m \in Writers /\ Active(s, Readers) THEN {"writer_overlaps_reader"} ELSE {})
  \cup (IF m = "Update" /\ Len(idx) > 0 /\ (idx[1] <= s.last \/ idx[1] <= s.base
                                            \/ \E k \in 1..(Len(idx) - 1) : idx[k + 1] <= idx[k])
          THEN {"update_index_not_increasing"} ELSE {})

Enter(s, m, idx) ==
  LET s1 == [s EXCEPT !.active = Append(@, m)]
  IN IF m = "Update" /\ Len(idx) > 0
       THEN [s1 EXCEPT !.last = idx[Len(idx)], !.delivered = @ \cup {idx[k] : k \in 1..Len(idx)}]
       ELSE s1

RECURSIVE RemoveFirst(_, _)
RemoveFirst(q, m) == IF q = <<>> THEN <<>> ELSE IF Head(q) = m THEN Tail(q) ELSE <<Head(q)>> \o RemoveFirst(Tail(q), m)

\* applied: index reported by Open / RecoverFromSnapshot (0 otherwise)
Exit(s, m, applied) ==
  LET s1 == [s EXCEPT !.active = RemoveFirst(@, m)]
  IN CASE m = "Close" -> [s1 EXCEPT !.closed = TRUE]
       [] m = "Open" -> [s1 EXCEPT !.base = applied, !.last = applied]
       [] m = "RecoverFromSnapshot" ->
            IF applied > s1.last THEN [s1 EXCEPT !.skips = @ \cup {<<s1.last, applied>>}, !.last = applied]
            ELSE s1
       [] OTHER -> s1

Skipped(s, g) == \E iv \in s.skips : iv[1] < g /\ g <= iv[2]
\* entries known to have reached Update somewhere that this object should have seen and has not
Missing(s, known) == {g \in known : s.base < g /\ g <= s.last /\ g \notin s.delivered /\ ~Skipped(s, g)}
=============================================================================
