--------------------------- MODULE PipelineTrace ---------------------------
(* Evaluation of Pipeline.tla on event streams recorded from clusters of real NodeHosts     *)
(* (harness/root/nhsim_*_test.go).  Save events are stamped after the log store returned,   *)
(* Send events when a batch reaches the transport, Crash is one critical section that cuts  *)
(* durability and the network, Boot is what the log store returns after the restart.        *)
(* Stamping a save late and an egress early could only hide ordering, never invent it:      *)
(* a Save event precedes a Send event in the trace only if the save had really returned     *)
(* before the batch left.                                                                   *)
EXTENDS Pipeline, Json, TLC

CONSTANT TraceFile
VARIABLES D,      \* host -> durable image according to the saves that completed
          W,      \* host -> what the replica told the world
          dead,   \* host -> crashed and not yet restarted
          cand,   \* host -> images the restart may legitimately find (D + saves in flight at the crash)
          tail,   \* host -> D + all saves in flight
          solo,   \* the shard of this trace has one voting member (the others are non-voting)
          l, bad, drift, cnt

Trace == ndJsonDeserialize(TraceFile)
vars == <<D, W, dead, cand, tail, solo, l, bad, drift, cnt>>
H == 1..5

Fresh(x) == [h \in H |-> x]
Flag(ev, what, detail) == IF \E x \in bad : x[1] = ev.t /\ x[3] = what THEN bad ELSE bad \cup {<<ev.t, ev.i, what, detail>>}

RECURSIVE Withdraws(_, _, _)
Withdraws(w, us, k) == IF k > Len(us) THEN w ELSE Withdraws(Withdraw(w, us[k]), us, k + 1)
RECURSIVE Tolds(_, _, _, _)
Tolds(w, self, ms, k) == IF k > Len(ms) THEN w
                         ELSE Tolds(IF ms[k].from = self THEN Told(w, self, ms[k]) ELSE w, self, ms, k + 1)

CommitAhead(d, self, ms) == {ms[k].commit : k \in {j \in 1..Len(ms) : ms[j].from = self /\ ~CommitCovered(d, ms[j])}}
Uncovered(d, self, ms) == {ms[k].type : k \in {j \in 1..Len(ms) : ms[j].from = self /\ ~MsgCovered(d, self, ms[j])}}

BootImage(ev) == [term |-> ev.term, vote |-> ev.vote, commit |-> ev.commit,
                  base |-> IF Len(ev.terms) = 0 THEN ev.ssindex ELSE ev.first - 1,
                  log |-> ev.terms, ss |-> ev.ssindex, ssterm |-> ev.ssterm]

Init == /\ D = Fresh(DInit) /\ W = Fresh(WInit) /\ dead = Fresh(FALSE) /\ cand = Fresh({DInit})
        /\ tail = Fresh(DInit) /\ solo = FALSE /\ l = 1 /\ bad = {} /\ drift = {}
        /\ cnt = [save |-> 0, send |-> 0, implied |-> 0, crash |-> 0, boot |-> 0, final |-> 0, apply |-> 0, solosend |-> 0]

Next ==
  /\ l <= Len(Trace)
  /\ l' = l + 1
  /\ LET ev == Trace[l] IN
     CASE ev.ev = "Init" ->
            /\ D' = Fresh(DInit) /\ W' = Fresh(WInit) /\ dead' = Fresh(FALSE) /\ cand' = Fresh({DInit})
            /\ tail' = Fresh(DInit) /\ solo' = (ev.voters = 1) /\ UNCHANGED <<bad, drift, cnt>>
       [] ev.ev = "Save" /\ ~ev.dead /\ ~ev.err ->
            /\ D' = [D EXCEPT ![ev.h] = ApplyUpdates(@, ev.uds, 1)]
            /\ W' = [W EXCEPT ![ev.h] = Withdraws(@, ev.uds, 1)]
            /\ cnt' = [cnt EXCEPT !.save = @ + 1]
            /\ UNCHANGED <<solo, dead, cand, tail, bad, drift>>
       [] ev.ev = "Save" /\ ev.dead /\ ~ev.err ->
            \* in flight at the crash instant (or issued by the dying process): may or may not be durable
            LET x == ApplyUpdates(tail[ev.h], ev.uds, 1) IN
            /\ tail' = [tail EXCEPT ![ev.h] = x]
            /\ cand' = [cand EXCEPT ![ev.h] = @ \cup {x}]
            /\ UNCHANGED <<solo, D, W, dead, bad, drift, cnt>>
       [] ev.ev = "Send" ->
            LET u == Uncovered(D[ev.h], ev.h, ev.msgs)
                a == IF solo THEN CommitAhead(D[ev.h], ev.h, ev.msgs) ELSE {}
                b1 == IF u = {} THEN bad ELSE Flag(ev, "PersistBeforeSend", u)
            IN
            /\ bad' = IF a = {} \/ (\E x \in b1 : x[1] = ev.t /\ x[3] = "CommitToldBeforeDurable") THEN b1
                       ELSE b1 \cup {<<ev.t, ev.i, "CommitToldBeforeDurable", a>>}
            /\ W' = [W EXCEPT ![ev.h] = Tolds(@, ev.h, ev.msgs, 1)]
            /\ cnt' = [cnt EXCEPT !.send = @ + 1,
                                  !.solosend = @ + (IF solo THEN 1 ELSE 0),
                                  !.implied = @ + Cardinality({k \in 1..Len(ev.msgs) : Implies(ev.msgs[k])})]
            /\ UNCHANGED <<solo, D, dead, cand, tail, drift>>
       [] ev.ev = "Apply" /\ ev.shard = 1 /\ ~dead[ev.h] ->
            \* a replica hands an entry to the user state machine only after it made the entry durable
            \* itself (engine.go: entries that are still to be saved are applied after SaveRaftState)
            /\ bad' = IF ApplyCovered(D[ev.h], ev.last) THEN bad ELSE Flag(ev, "AppliedBeforeSaved", {ev.h})
            /\ cnt' = [cnt EXCEPT !.apply = @ + 1]
            /\ UNCHANGED <<solo, D, W, dead, cand, tail, drift>>
       [] ev.ev = "Crash" ->
            /\ dead' = [dead EXCEPT ![ev.h] = TRUE]
            /\ cand' = [cand EXCEPT ![ev.h] = {D[ev.h]}]
            /\ tail' = [tail EXCEPT ![ev.h] = D[ev.h]]
            /\ cnt' = [cnt EXCEPT !.crash = @ + 1]
            /\ UNCHANGED <<solo, D, W, bad, drift>>
       [] ev.ev = "Boot" ->
            LET r == BootImage(ev)
                ok == RestartMonotone(r, D[ev.h], W[ev.h])
            IN
            /\ bad' = IF ok THEN bad ELSE Flag(ev, "RestartMonotone", {ev.h})
            /\ drift' = IF \E x \in cand[ev.h] : SameImage(r, x) THEN drift ELSE drift \cup {<<ev.t, ev.i, "Boot", {ev.h}>>}
            /\ D' = [D EXCEPT ![ev.h] = r]
            /\ W' = [W EXCEPT ![ev.h] = [maxterm |-> r.term, voteterm |-> r.term, votewho |-> r.vote,
                                         acked |-> Min2(@.acked, LastIdx(r))]]
            /\ dead' = [dead EXCEPT ![ev.h] = FALSE]
            /\ cand' = [cand EXCEPT ![ev.h] = {r}]
            /\ tail' = [tail EXCEPT ![ev.h] = r]
            /\ cnt' = [cnt EXCEPT !.boot = @ + 1]
            /\ UNCHANGED solo
       [] ev.ev = "Final" ->
            /\ bad' = IF ev.ok /\ Len(ev.missing) > 0
                        THEN Flag(ev, "CompletedNotDurable", {ev.missing[k] : k \in 1..Len(ev.missing)}) ELSE bad
            /\ cnt' = [cnt EXCEPT !.final = @ + (IF ev.ok THEN 1 ELSE 0)]
            /\ UNCHANGED <<solo, D, W, dead, cand, tail, drift>>
       [] ev.ev = "Panic" ->
            /\ bad' = Flag(ev, "Panic", {ev.msg})
            /\ UNCHANGED <<solo, D, W, dead, cand, tail, drift, cnt>>
       [] OTHER -> UNCHANGED <<solo, D, W, dead, cand, tail, bad, drift, cnt>>

Spec == Init /\ [][Next]_vars
Report == IF l = Len(Trace) + 1
            THEN PrintT(<<"PL-REPORT", Len(Trace), bad>>) /\ PrintT(<<"PL-DRIFT", drift>>) /\ PrintT(<<"PL-COUNT", cnt>>)
            ELSE TRUE
=============================================================================
