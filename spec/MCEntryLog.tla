----------------------------- MODULE MCEntryLog -----------------------------
(* Exhaustive exploration of EntryLog.tla for small bounds: every sequence of leader      *)
(* appends, follower appends with a conflict at any position, commit advances,            *)
(* Update/Commit cycles with any apply lag, snapshot restores and compactions.            *)
EXTENDS EntryLog, TLC

CONSTANTS MaxIndex, MaxTerm
VARIABLES e, app   \* app: applied index of the state machine (lags behind e.proc)

mvars == <<e, app>>
Terms == 1..MaxTerm
Ent(t) == [term |-> t, val |-> t]

Init == e = ELInit /\ app = 0

LastTerm(s) == TermOf(s, Last(s))

LeaderAppend == \E t \in Terms : t >= LastTerm(e) /\ Last(e) < MaxIndex
                 /\ e' = LAppend(e, Last(e) + 1, <<Ent(t)>>) /\ UNCHANGED app

FollowerAppend ==
  \E prev \in MaxOf(e.com, e.base)..Last(e) : \E n \in 1..2 : \E t \in Terms : \E c \in 0..2 :
     /\ prev + n <= MaxIndex
     /\ LET ents == [k \in 1..n |-> IF k <= c /\ prev + k <= Last(e) THEN e.lg[prev + k - e.base] ELSE Ent(t)] IN
        /\ \A k \in 1..n : ents[k].term >= TermOf(e, prev)
        /\ \E lc \in e.com..(prev + n) : e' = TryAppend(e, prev, TermOf(e, prev), lc, ents)
     /\ UNCHANGED app

Commit == \E i \in (e.com + 1)..Last(e) : e' = CommitTo(e, i) /\ UNCHANGED app
Cycle == e' = SaveCommit(e, app) /\ UNCHANGED app
ApplyAck == \E a \in (app + 1)..e.proc : app' = a /\ UNCHANGED e
DoRestore == \E i \in (e.com + 1)..MaxIndex : \E t \in Terms : t >= LastTerm(e) /\ e.snap = 0
              /\ e' = Restore(e, i, t) /\ app' = app
DoCompact == \E i \in (e.pbase + 1)..app : i <= e.pbase + e.plen /\ e.snap = 0 /\ i <= e.saved
              /\ e' = Compact(e, i) /\ UNCHANGED app
\* a saved snapshot moves the state machine forward
SnapshotApplied == e.snap = 0 /\ app < e.base /\ app' = e.base /\ UNCHANGED e

Next == LeaderAppend \/ FollowerAppend \/ Commit \/ Cycle \/ ApplyAck \/ DoRestore \/ DoCompact \/ SnapshotApplied
Spec == Init /\ [][Next]_mvars

Inv == SavedIsPersisted(e) /\ ApplyAfterSaveAndCommit(e) /\ WellFormed(e)
\* an entry that was truncated and re-appended shows up in ToSave again before `saved` covers it
ReappendedIsResaved == [][\A i \in 1..MaxIndex :
                            (i > e.base /\ i <= Last(e) /\ i > e'.base /\ i <= Last(e') /\ i <= e.saved
                             /\ e.lg[i - e.base] # e'.lg[i - e'.base]) => e'.saved < i]_mvars
=============================================================================
