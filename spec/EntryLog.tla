------------------------------ MODULE EntryLog ------------------------------
(***************************************************************************)
(* C19: the raft core's view of its log (internal/raft logentry.go +       *)
(* inmemory.go over internal/logdb LogReader) equals the LOGICAL log.      *)
(*                                                                         *)
(* The logical log is defined by the appends, conflict truncations,        *)
(* snapshot restores and compactions performed so far; persistence         *)
(* acknowledgements, apply acknowledgements, in-memory trimming/resizing   *)
(* have no logical effect.  The module defines every answer of the entry   *)
(* log as a function of the logical state; EntryLogTrace compares the      *)
(* answers of the real objects with them after every operation, and        *)
(* MCEntryLog checks the state invariants exhaustively for small bounds.   *)
(***************************************************************************)
EXTENDS Integers, Sequences, FiniteSets

\* logical state e:
\*   base, bterm : index/term just before the first available entry
\*   lg          : entries after base, each [term, val]
\*   com, proc   : committed, handed out for apply
\*   saved       : entries up to here were handed out for persistence and acknowledged
\*   snap        : index of a restored snapshot not yet saved (0 = none)
\*   pbase, plen : persisted store / log reader range: pbase+1 .. pbase+plen
\*   acked       : applied index acknowledged to the entry log so far
ELInit == [base |-> 0, bterm |-> 0, lg |-> <<>>, com |-> 0, proc |-> 0, saved |-> 0, snap |-> 0,
           pbase |-> 0, plen |-> 0, acked |-> 0]

Last(e) == e.base + Len(e.lg)
First(e) == e.base + 1
\* CODE: entryLog.term returns 0 outside [first-1, last]
TermOf(e, i) == IF i = e.base THEN e.bterm
                ELSE IF i > e.base /\ i <= Last(e) THEN e.lg[i - e.base].term ELSE 0
Ents(e, lo, hi) == IF hi < lo THEN <<>> ELSE SubSeq(e.lg, lo - e.base, hi - e.base)   \* inclusive

MinOf(a, b) == IF a < b THEN a ELSE b
MaxOf(a, b) == IF a > b THEN a ELSE b

(* ------------------------------------------------------------- operations *)
\* append a run of entries whose first index is f (f <= last+1, f > com): logical truncation
\* of everything from f on, then the new entries; what was truncated must be saved again
LAppend(e, f, ents) ==
  [e EXCEPT !.lg = SubSeq(@, 1, f - 1 - e.base) \o ents,
            !.saved = MinOf(@, f - 1)]

CommitTo(e, i) == IF i > e.com THEN [e EXCEPT !.com = i] ELSE e

\* follower path (LogTestHelper.TryAppend = handleReplicateMessage's core)
ConflictAt(e, prev, ents) ==
  LET bad == {k \in 1..Len(ents) : TermOf(e, prev + k) # ents[k].term} IN
  IF bad = {} THEN 0 ELSE prev + (CHOOSE k \in bad : \A j \in bad : k <= j)

TryAppend(e, prev, pterm, lcommit, ents) ==
  IF TermOf(e, prev) # pterm THEN e
  ELSE LET c == ConflictAt(e, prev, ents)
           e1 == IF c = 0 THEN e ELSE LAppend(e, c, SubSeq(ents, c - prev, Len(ents)))
       IN CommitTo(e1, MinOf(prev + Len(ents), lcommit))

\* what one Update hands out
ToSave(e) == Ents(e, e.saved + 1, Last(e))
ToApplyLo(e) == MaxOf(e.proc + 1, First(e))
ToApply(e) == Ents(e, ToApplyLo(e), e.com)
HasToApply(e) == e.com + 1 > ToApplyLo(e)

\* Update cycle: entries to save are persisted (log reader extended), a pending snapshot is
\* recorded (log reader restarts at it), committed entries are handed out, the applied
\* index `a` confirmed so far is passed down (in-memory trimming: no logical effect)
SaveCommit(e, a) ==
  LET ts == ToSave(e)
      e1 == IF e.snap # 0 THEN [e EXCEPT !.pbase = e.snap, !.plen = 0, !.snap = 0] ELSE e
      e2 == IF Len(ts) > 0
              THEN [e1 EXCEPT !.plen = (e.saved + Len(ts)) - e1.pbase, !.saved = Last(e)]
              ELSE e1
  IN [e2 EXCEPT !.proc = MaxOf(@, e.com), !.acked = MaxOf(@, a)]

\* snapshot restore (index above committed): the whole log is replaced
Restore(e, idx, term) ==
  [e EXCEPT !.base = idx, !.bterm = term, !.lg = <<>>, !.com = idx, !.proc = idx, !.saved = idx,
            !.snap = idx]

\* compaction of the persistent store up to i (i <= acknowledged applied index)
Compact(e, i) ==
  IF e.snap # 0 THEN [e EXCEPT !.pbase = i, !.plen = @ - (i - e.pbase)]
  ELSE [e EXCEPT !.lg = SubSeq(@, i - e.base + 1, Len(@)), !.bterm = TermOf(e, i), !.base = i,
                 !.pbase = i, !.plen = @ - (i - e.pbase)]

(* ---------------------------------------------------------- state invariants *)
\* an entry that was truncated and re-appended is persisted again before it counts as saved:
\* everything up to `saved` is in the persistent range
SavedIsPersisted(e) == e.snap = 0 => e.saved <= e.pbase + e.plen
\* nothing is handed out for apply before it is committed and handed out for persistence
ApplyAfterSaveAndCommit(e) == e.proc <= e.com /\ (e.snap = 0 => e.proc <= MaxOf(e.saved, e.base))
WellFormed(e) == e.com <= Last(e) /\ e.com >= e.base /\ e.saved <= Last(e) /\ e.acked <= e.proc
=============================================================================
