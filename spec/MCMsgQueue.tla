----------------------------- MODULE MCMsgQueue -----------------------------
(* Exhaustive check of MsgQueue.tla for a small queue: whatever was accepted is either still  *)
(* held or was handed over exactly once; a delayed message is handed over by the first Get    *)
(* after its delay and never before; nothing is handed over that was not accepted.            *)
EXTENDS MsgQueue, TLC
CONSTANTS Size, MaxMsg, MaxTick, Delays
VARIABLES q, next, accepted, out, dueAt, lastGetTick
vars == <<q, next, accepted, out, dueAt, lastGetTick>>

Init == q = QInit(Size) /\ next = 1 /\ accepted = {} /\ out = <<>> /\ dueAt = <<>> /\ lastGetTick = 0

DoAdd == /\ next <= MaxMsg
         /\ q' = Add(q, next)
         /\ accepted' = IF AddRet(q)[1] THEN accepted \cup {next} ELSE accepted
         /\ next' = next + 1 /\ UNCHANGED <<out, dueAt, lastGetTick>>
DoMustAdd == /\ next <= MaxMsg
             /\ q' = MustAdd(q, next)
             /\ accepted' = IF MustAddRet(q) THEN accepted \cup {next} ELSE accepted
             /\ next' = next + 1 /\ UNCHANGED <<out, dueAt, lastGetTick>>
DoAddDelayed(d) == /\ next <= MaxMsg
                   /\ q' = AddDelayed(q, next, d)
                   /\ accepted' = IF AddDelayedRet(q) THEN accepted \cup {next} ELSE accepted
                   /\ dueAt' = IF AddDelayedRet(q) THEN (next :> (d + q.tick)) @@ dueAt ELSE dueAt
                   /\ next' = next + 1 /\ UNCHANGED <<out, lastGetTick>>
DoTick == q.tick < MaxTick /\ q' = Tick(q) /\ UNCHANGED <<next, accepted, out, dueAt, lastGetTick>>
DoClose == ~q.stopped /\ q' = Close(q) /\ UNCHANGED <<next, accepted, out, dueAt, lastGetTick>>
DoGet == /\ out' = out \o GetRet(q)
         /\ q' = Get(q)
         /\ lastGetTick' = q.tick
         /\ UNCHANGED <<next, accepted, dueAt>>

Next == DoAdd \/ DoMustAdd \/ (\E d \in Delays : DoAddDelayed(d)) \/ DoTick \/ DoClose \/ DoGet
Spec == Init /\ [][Next]_vars

Outs == {out[k] : k \in 1..Len(out)}
ExactlyOnce == /\ Cardinality(Outs) = Len(out)                  \* nothing twice
               /\ Outs \cap Held(q) = {}
               /\ Outs \cup Held(q) = accepted                  \* nothing lost, nothing invented
\* a delayed message that is due at the time of a Get is not in the queue afterwards
DueHandedOver == \A k \in 1..Len(q.delayed) : ~(q.delayed[k].due < lastGetTick)
Bounded == Len(q.buf) <= Size
Inv == ExactlyOnce /\ DueHandedOver /\ Bounded
\* action property: a Get never hands over a delayed message whose delay has not passed
NoEarlyDelivery == [][\A m \in DOMAIN dueAt : (m \in {out'[k] : k \in 1..Len(out')} /\ m \notin Outs) => dueAt[m] < q.tick]_vars
=============================================================================
