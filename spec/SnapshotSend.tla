----------------------------- MODULE SnapshotSend -----------------------------
(* internal/transport/snapshot.go + job.go, the sending side of a snapshot transfer. raft asks for a snapshot   *)
(* to be sent (a file: Transport.SendSnapshot; a stream produced by an on-disk state machine:                  *)
(* Transport.GetStreamSink + Sink.Receive per chunk) and then keeps the remote in its snapshot state until it  *)
(* is told how the transfer ended (HandleSnapshotStatus -> raft SnapshotStatus). C17 needs: every request ends *)
(* in exactly one report - failed when the request is refused at once (unknown target, breaker open, too many  *)
(* jobs), when the connection cannot be made, when a chunk cannot be sent, when the producer gives up (poison   *)
(* chunk) or the transport stops; successful only when every chunk reached the connection - and the producer   *)
(* of a stream is never left blocked (Receive answers false once the job has failed).                          *)
(* One job: the producer (a snapshot worker in Sink.Receive / addSnapshot), the job goroutine                   *)
(* (processSnapshot: connect, process), the environment (connection up / down).                                 *)
EXTENDS Integers, Sequences, FiniteSets
CONSTANT Ablate     \* {} is the code; "no_report_on_connect_failure", "success_on_poison"

\* st: "refused" | "connecting" | "processing" | "ok" | "failed"; ch: chunks queued (numbers 1..n, 0 = poison)
\* sent: chunks that reached the connection; reports: sequence of BOOLEAN (TRUE = failed)
JInit(n, streaming, refused) ==
  [n |-> n, streaming |-> streaming, st |-> IF refused THEN "refused" ELSE "connecting", ch |-> <<>>, sent |-> 0,
   reports |-> IF refused THEN <<TRUE>> ELSE <<>>, produced |-> 0, gaveup |-> FALSE]

\* processSnapshot: c.connect(addr)
Connect(j, ok) ==
  IF ok THEN [j EXCEPT !.st = "processing"]
  ELSE [j EXCEPT !.st = "failed", !.reports = IF "no_report_on_connect_failure" \in Ablate THEN @ ELSE Append(@, TRUE)]
\* one chunk taken off the channel by streamSnapshot / sendChunks
SendOne(j, ok) ==
  LET c == Head(j.ch) IN
  IF c = 0 THEN  \* the poison chunk: the producer gave up
       [j EXCEPT !.ch = Tail(@), !.st = IF "success_on_poison" \in Ablate THEN "ok" ELSE "failed",
                 !.reports = Append(@, "success_on_poison" \notin Ablate)]
  ELSE IF ~ok THEN [j EXCEPT !.ch = Tail(@), !.st = "failed", !.reports = Append(@, TRUE)]
  ELSE IF c = j.n THEN [j EXCEPT !.ch = Tail(@), !.sent = c, !.st = "ok", !.reports = Append(@, FALSE)]
  ELSE [j EXCEPT !.ch = Tail(@), !.sent = c]
\* the transport stops while the job runs
Stop(j) == [j EXCEPT !.st = "failed", !.reports = Append(@, TRUE)]
\* Sink.Receive / job.AddChunk: <<accepted, j'>>; a chunk is accepted while the job is alive and there is room
Receive(j, c, cap) ==
  IF j.st \in {"failed", "refused"} THEN <<FALSE, j>>
  ELSE IF j.st = "ok" THEN <<TRUE, j>>            \* only the poison chunk may come now; it is swallowed
  ELSE <<TRUE, [j EXCEPT !.ch = Append(@, c), !.produced = IF c > 0 THEN c ELSE @, !.gaveup = (c = 0)]>>

Ended(j) == j.st \in {"refused", "ok", "failed"}
ExactlyOneReport(j) == Ended(j) => Len(j.reports) = 1
NoReportBeforeEnd(j) == ~Ended(j) => Len(j.reports) = 0
TruthfulReport(j) == (Ended(j) /\ Len(j.reports) = 1) => (j.reports[1] = FALSE <=> j.sent = j.n)
=============================================================================
