SPECIFICATION Spec
CONSTANTS
  N = 3
  Cap = 2
  Ablate = {}
INVARIANT Inv
CHECK_DEADLOCK FALSE
