-------------------------- MODULE CatchUpHostTrace --------------------------
(* C17 on real NodeHosts (harness/root/nhsim_catchup_test.go): two followers of a five-replica shard are    *)
(* cut off while the others write and compact their logs; after the heal both are reachable and need a      *)
(* snapshot.  "every reachable lagging replica catches up to the commit index - via log replication or      *)
(* snapshot": each must hold the last write within 30 s of the heal (a healthy shard needs well under a      *)
(* second), provided the leader of the moment of the heal is still the leader at the end - a leader change   *)
(* restarts everything and is not judged.                                                                    *)
EXTENDS Integers, Sequences, FiniteSets, TLC, Json
CONSTANT TraceFile
VARIABLES l, bad, cnt
Trace == ndJsonDeserialize(TraceFile)
vars == <<l, bad, cnt>>
Init == l = 1 /\ bad = {} /\ cnt = [laggards |-> 0, caught |-> 0, judged |-> 0]
Next ==
  /\ l <= Len(Trace)
  /\ l' = l + 1
  /\ LET ev == Trace[l] IN
     CASE ev.ev = "CatchUp" ->
            /\ bad' = IF ev.leader_stable /\ ~ev.caught
                        THEN bad \cup {<<ev.t, ev.i, "CatchUp", {"reachable_lagging_replica_not_caught_up"}>>} ELSE bad
            /\ cnt' = [laggards |-> cnt.laggards + 1, caught |-> cnt.caught + (IF ev.caught THEN 1 ELSE 0),
                       judged |-> cnt.judged + (IF ev.leader_stable THEN 1 ELSE 0)]
       [] ev.ev = "Panic" -> bad' = bad \cup {<<ev.t, ev.i, "Panic", {ev.msg}>>} /\ UNCHANGED cnt
       [] OTHER -> UNCHANGED <<bad, cnt>>
Spec == Init /\ [][Next]_vars
Report == IF l = Len(Trace) + 1
          THEN PrintT(<<"CU-REPORT", Len(Trace), bad>>) /\ PrintT(<<"CU-COUNT", cnt>>)
          ELSE TRUE
=============================================================================
