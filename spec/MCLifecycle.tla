---------------------------- MODULE MCLifecycle ----------------------------
(* Exhaustive exploration of Lifecycle.tla for a set of workers; with RecordHist the sequence   *)
(* of actions is part of the state, so that TLC enumerates every complete schedule and prints   *)
(* it (LC-BEHAVIOUR lines) for the replay on the real engine (harness/root/lcsim_test.go).      *)
EXTENDS Lifecycle, TLC

CONSTANTS Workers, Guard, RecordHist
VARIABLES s, hist
vars == <<s, hist>>

H(a) == IF RecordHist THEN Append(hist, a) ELSE hist

Init == s = LInit(Workers) /\ hist = <<>>
Start == CanStart(s) /\ s' = DoStart(s) /\ hist' = H(<<"Start", "">>)
Collect(w) == CanCollect(s, w) /\ s.started /\ s' = DoCollect(s, w) /\ hist' = H(<<"Collect", w>>)
Proceed(w) == CanProceed(s, w) /\ s' = DoProceed(s, w) /\ hist' = H(<<"Proceed", w>>)
Stop == CanStop(s) /\ s' = DoStop(s) /\ hist' = H(<<"Stop", "">>)
CloseHandle == CanCloseHandle(s) /\ s' = DoCloseHandle(s, Guard) /\ hist' = H(<<"CloseHandle", "">>)
Next == Start \/ Stop \/ CloseHandle \/ \E w \in Workers : Collect(w) \/ Proceed(w)
Spec == Init /\ [][Next]_vars

InvCloseOnce == CloseOnce(s)
InvNotClosedWhileReferenced == NotClosedWhileReferenced(s)
InvNoLeak == NoLeak(s, Workers)
PrintDone == (RecordHist /\ Done(s, Workers)) => PrintT(<<"LC-BEHAVIOUR", hist>>)
=============================================================================
