SPECIFICATION Spec
CONSTANTS
  N = 3
  Cap = 2
  Ablate = {"no_report_on_connect_failure"}
INVARIANT Inv
CHECK_DEADLOCK FALSE
