SPECIFICATION Spec
CONSTANTS
  Clients = {1, 2, 3}
  MaxOps = 4
  KeysUsed = {"a"}
INVARIANT Agree
