------------------------- MODULE RequestsHostTrace -------------------------
(* C12 on real NodeHosts (nhsim, the client programs and fault schedules of the C01 runs): a        *)
(* request handle obtained from Propose / ReadIndex must deliver exactly one result.  The driver    *)
(* records Hung when nothing arrived five seconds after the deadline the caller asked for although   *)
(* the NodeHost that issued the handle is still running (a NodeHost that is closed or loses power   *)
(* terminates its requests itself and is exempt).  Requests.tla (RequestsTrace, rqsim) has the      *)
(* request tables themselves; this module only judges the end-to-end observation.                   *)
EXTENDS Integers, Sequences, FiniteSets, TLC, Json

CONSTANT TraceFile
VARIABLES l, bad, cnt

Trace == ndJsonDeserialize(TraceFile)
vars == <<l, bad, cnt>>

Init == l = 1 /\ bad = {} /\ cnt = [res |-> 0, ok |-> 0, crash |-> 0, closerace |-> 0]
Next ==
  /\ l <= Len(Trace)
  /\ l' = l + 1
  /\ LET ev == Trace[l] IN
     CASE ev.ev = "Hung" -> bad' = bad \cup {<<ev.t, ev.i, "Hung", {"NoResult_" \o ev.kind}>>} /\ UNCHANGED cnt
       [] ev.ev = "CloseRace" ->
            \* request APIs called while the NodeHost is being closed: no panic, every handle answered
            /\ bad' = bad \cup (IF ev.panics # <<>> THEN {<<ev.t, ev.i, "CloseRace", {"PanicInApiCallDuringClose: " \o ev.panics[1]}>>} ELSE {})
                         \cup (IF ev.hung > 0 THEN {<<ev.t, ev.i, "CloseRace", {"NoResult_after_close"}>>} ELSE {})
            /\ cnt' = [cnt EXCEPT !.closerace = @ + ev.calls]
       [] ev.ev = "Panic" -> bad' = bad \cup {<<ev.t, ev.i, "Panic", {ev.msg}>>} /\ UNCHANGED cnt
       [] ev.ev = "Res" -> cnt' = [cnt EXCEPT !.res = @ + 1, !.ok = @ + (IF ev.out = "ok" THEN 1 ELSE 0)] /\ UNCHANGED bad
       [] ev.ev = "Crash" -> cnt' = [cnt EXCEPT !.crash = @ + 1] /\ UNCHANGED bad
       [] OTHER -> UNCHANGED <<bad, cnt>>
Spec == Init /\ [][Next]_vars
Report == IF l = Len(Trace) + 1
          THEN PrintT(<<"RH-REPORT", Len(Trace), bad>>) /\ PrintT(<<"RH-COUNT", cnt>>)
          ELSE TRUE
=============================================================================
