----------------------------- MODULE RateLimit -----------------------------
(* internal/server/rate.go InMemRateLimiter: when a leader refuses proposals because the    *)
(* in-memory log of itself or of a follower is too large, and when it stops refusing        *)
(* (C17: progress after rate limiting).  Pure operators on the limiter record.              *)
EXTENDS Integers, FiniteSets

GcTick == 3
ChangeTickThreshold == 10
NoLimit == 0

RInit(max) == [max |-> max, size |-> 0, fol |-> <<>>, tick |-> 1, tickLimited |-> 0, limited |-> FALSE]
Enabled(r) == r.max > 0
RTick(r) == [r EXCEPT !.tick = @ + 1]
RSet(r, sz) == [r EXCEPT !.size = sz]
RSetFollower(r, id, sz) ==
  [r EXCEPT !.fol = [x \in (DOMAIN r.fol) \cup {id} |-> IF x = id THEN [tick |-> r.tick, sz |-> sz] ELSE r.fol[x]]]
RReset(r) == [r EXCEPT !.fol = <<>>]

Fresh(r) == {id \in DOMAIN r.fol : r.tick - r.fol[id].tick <= GcTick}
MaxOf(S) == IF S = {} THEN 0 ELSE CHOOSE x \in S : \A y \in S : y <= x
MaxInMem(r) == MaxOf({r.fol[id].sz : id \in Fresh(r)} \cup {r.size})
LimitedBySize(r) ==
  IF ~Enabled(r) THEN FALSE
  ELSE IF ~r.limited THEN MaxInMem(r) > r.max ELSE MaxInMem(r) >= (r.max * 7) \div 10
\* limitedByInMemSize also drops the follower states that are older than GcTick
Gc(r) == IF Fresh(r) = DOMAIN r.fol THEN r ELSE [r EXCEPT !.fol = [id \in Fresh(r) |-> r.fol[id]]]

\* RateLimited(): returns the answer and the new state
RRateLimited(r) ==
  LET lim == LimitedBySize(r)
      r1 == IF Enabled(r) THEN Gc(r) ELSE r
  IN IF lim # r1.limited /\ (r1.tickLimited = 0 \/ r1.tick - r1.tickLimited > ChangeTickThreshold)
       THEN [r1 EXCEPT !.limited = lim, !.tickLimited = r1.tick]
       ELSE r1
=============================================================================
