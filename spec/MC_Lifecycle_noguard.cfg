SPECIFICATION Spec
CONSTANTS
  Workers = {"step", "apply", "ss"}
  Guard = FALSE
  RecordHist = FALSE
INVARIANT InvCloseOnce
INVARIANT InvNotClosedWhileReferenced
INVARIANT InvNoLeak
CHECK_DEADLOCK FALSE
