SPECIFICATION Spec
CONSTANTS
  Workers = {"step", "apply", "ss"}
  Guard = TRUE
  RecordHist = TRUE
INVARIANT InvCloseOnce
INVARIANT InvNotClosedWhileReferenced
INVARIANT InvNoLeak
CHECK_DEADLOCK FALSE
INVARIANT PrintDone
