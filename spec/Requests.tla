------------------------------ MODULE Requests ------------------------------
(***************************************************************************)
(* C12: what a client may observe on the result channels of an accepted    *)
(* request, as a function of what happened to it.  The module is a         *)
(* protocol-level specification (it does not transcribe the tables): a     *)
(* request is a record; events of the workers (applied / dropped /         *)
(* committed / ready-to-read / close / ticks) are accumulated in a         *)
(* history; `Justified` says which terminal result a client may receive    *)
(* for a request given that history.  RequestsTrace.tla judges executions  *)
(* of the real tables with it; MCRequests.tla explores a small abstract    *)
(* model of the tables against the same predicates.                        *)
(***************************************************************************)
EXTENDS Integers, Sequences, FiniteSets

Terminal == {"Timeout", "Completed", "Terminated", "Rejected", "Dropped", "Aborted", "OutOfRange"}

\* history record
HInit == [tick |-> 0,
          appl |-> {},      \* <<key, cid, series, val, rejected>> proposal applied events
          drop |-> {},      \* <<key, cid, series>>
          comm |-> {},      \* <<key, cid, series>>
          batch |-> {},     \* <<ctx, rid>> read request registered under ctx
          ready |-> {},     \* <<ctx, index>>
          riappl |-> {},    \* applied indexes passed to the read table
          ridrop |-> {},    \* ctx
          ccappl |-> {}, ccdrop |-> {}, cccomm |-> {},   \* <<key, rejected>>, key, key
          ssappl |-> {},    \* <<key, ignored, aborted, index>>
          lqret |-> {},     \* out-of-range flag of returned log queries, in order of return
          closed |-> {}]    \* tables closed so far

TableOf(kind) == CASE kind = "prop" -> "prop" [] kind = "read" -> "ri" [] kind = "cc" -> "cc"
                   [] kind = "ss" -> "ss" [] kind = "lq" -> "lq"

\* may request q (a record) receive terminal result <<code, value>> now ?
Justified(hh, q, rid, code, value) ==
  \* CODE: the tables expire a request when its deadline is not in the future any more
  \* (deadline < now in gc, deadline <= now when a read becomes ready)
  CASE code = "Timeout" -> q.kind # "lq" /\ hh.tick >= q.deadline
    [] code = "Terminated" -> TableOf(q.kind) \in hh.closed
    [] code = "Completed" ->
         CASE q.kind = "prop" -> <<q.key, q.cid, q.series, value, FALSE>> \in hh.appl
           [] q.kind = "read" -> \E b \in hh.batch : b[2] = rid /\
                                   \E r \in hh.ready : r[1] = b[1] /\ \E a \in hh.riappl : a >= r[2]
           [] q.kind = "cc" -> <<q.key, FALSE>> \in hh.ccappl
           [] q.kind = "ss" -> <<q.key, FALSE, FALSE, value>> \in hh.ssappl
           [] q.kind = "lq" -> FALSE \in hh.lqret
           [] OTHER -> FALSE
    [] code = "Rejected" ->
         CASE q.kind = "prop" -> \E a \in hh.appl : a[1] = q.key /\ a[2] = q.cid /\ a[3] = q.series /\ a[5]
           [] q.kind = "cc" -> <<q.key, TRUE>> \in hh.ccappl
           [] q.kind = "ss" -> \E a \in hh.ssappl : a[1] = q.key /\ a[2]
           [] OTHER -> FALSE
    [] code = "Aborted" -> q.kind = "ss" /\ \E a \in hh.ssappl : a[1] = q.key /\ a[3]
    [] code = "Dropped" ->
         CASE q.kind = "prop" -> <<q.key, q.cid, q.series>> \in hh.drop
           [] q.kind = "read" -> \E b \in hh.batch : b[2] = rid /\ b[1] \in hh.ridrop
           [] q.kind = "cc" -> q.key \in hh.ccdrop
           [] OTHER -> FALSE
    [] code = "OutOfRange" -> q.kind = "lq" /\ TRUE \in hh.lqret
    [] OTHER -> FALSE

\* a Committed notification is allowed only with commit notification enabled, for a
\* proposal or membership change that raft reported committed, before the terminal result
CommittedOK(hh, q, nc) ==
  /\ nc /\ q.kind \in {"prop", "cc"} /\ q.ncomm = 0 /\ Len(q.res) = 0
  /\ IF q.kind = "prop" THEN <<q.key, q.cid, q.series>> \in hh.comm ELSE q.key \in hh.cccomm
=============================================================================
