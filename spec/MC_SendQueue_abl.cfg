SPECIFICATION Spec
CONSTANTS
  Cap = 2
  MaxMsg = 6
  Ablate = {"idle_exit_keeps_queue"}
INVARIANT Inv
INVARIANT NoDeadEnd
CHECK_DEADLOCK FALSE
