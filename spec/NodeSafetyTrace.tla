-------------------------- MODULE NodeSafetyTrace --------------------------
(* C03 on clusters of real NodeHosts (nhsim, mode pipe): what the replicas tell the world   *)
(* through the real transport, across power losses and restarts of the real node / engine / *)
(* log store stack (node.replayLog, logdb, Tan):                                            *)
(*   OneVotePerTerm  - a replica never grants its vote to two different candidates in one   *)
(*                     term, and never grants a vote in a term in which it asked for votes  *)
(*                     itself - also when a restart lies in between;                        *)
(*   ElectionSafety  - no two replicas are reported leader (LeaderUpdated event of the       *)
(*                     RaftEventListener) for the same term.                                *)
EXTENDS Pipeline, Json, TLC

CONSTANT TraceFile
VARIABLES votes,    \* replica -> (term -> whom the replica voted for, as told to the world)
          leaders,  \* term -> replica reported as leader
          l, bad, cnt
Trace == ndJsonDeserialize(TraceFile)
vars == <<votes, leaders, l, bad, cnt>>
H == 1..8
Flag(ev, what, detail) == IF \E x \in bad : x[1] = ev.t /\ x[3] = what THEN bad ELSE bad \cup {<<ev.t, ev.i, what, detail>>}

\* the vote a message reveals: [term, who] or none
Reveals(m) == IF m.type = "RequestVote" THEN [term |-> m.term, who |-> m.from]
              ELSE IF m.type = "RequestVoteResp" /\ ~m.reject THEN [term |-> m.term, who |-> m.to]
              ELSE [term |-> 0, who |-> 0]

RECURSIVE Fold(_, _, _, _)
\* returns [v |-> updated vote table of the replica, clash |-> set of terms voted twice]
Fold(v, self, ms, k) ==
  IF k > Len(ms) THEN [v |-> v, clash |-> {}]
  ELSE LET m == ms[k]
           rv == IF m.from = self THEN Reveals(m) ELSE [term |-> 0, who |-> 0]
           twice == rv.term > 0 /\ rv.term \in DOMAIN v /\ v[rv.term] # rv.who
           v1 == IF rv.term > 0 /\ rv.term \notin DOMAIN v
                   THEN [t \in (DOMAIN v) \cup {rv.term} |-> IF t = rv.term THEN rv.who ELSE v[t]] ELSE v
           rest == Fold(v1, self, ms, k + 1)
       IN [v |-> rest.v, clash |-> rest.clash \cup (IF twice THEN {rv.term} ELSE {})]

Init == votes = [h \in H |-> <<>>] /\ leaders = <<>> /\ l = 1 /\ bad = {}
        /\ cnt = [votes |-> 0, leaders |-> 0, sends |-> 0]

Next ==
  /\ l <= Len(Trace)
  /\ l' = l + 1
  /\ LET ev == Trace[l] IN
     CASE ev.ev = "Init" -> votes' = [h \in H |-> <<>>] /\ leaders' = <<>> /\ UNCHANGED <<bad, cnt>>
       [] ev.ev = "Panic" -> bad' = Flag(ev, "Panic", {ev.msg}) /\ UNCHANGED <<votes, leaders, cnt>>
       [] ev.ev = "Send" ->
            LET f == Fold(votes[ev.h], ev.h, ev.msgs, 1) IN
            /\ votes' = [votes EXCEPT ![ev.h] = f.v]
            /\ bad' = IF f.clash = {} THEN bad ELSE Flag(ev, "voted_twice_in_a_term", f.clash \cup {ev.h})
            /\ cnt' = [cnt EXCEPT !.sends = @ + 1,
                                  !.votes = @ + Cardinality({k \in 1..Len(ev.msgs) : Reveals(ev.msgs[k]).term > 0})]
            /\ UNCHANGED leaders
       [] ev.ev = "Boot" /\ ev.saved ->
            \* a vote that was told to the world must still be known after the restart, otherwise
            \* the replica is free to vote again in that term
            LET v == votes[ev.h]
                lost == {t \in DOMAIN v : t > ev.term \/ (t = ev.term /\ v[t] # ev.vote)}
            IN /\ bad' = IF lost = {} THEN bad ELSE Flag(ev, "vote_forgotten_at_restart", lost \cup {ev.h})
               /\ UNCHANGED <<votes, leaders, cnt>>
       [] ev.ev = "Leader" /\ ev.leader # 0 ->
            /\ leaders' = IF ev.term \in DOMAIN leaders THEN leaders
                          ELSE [t \in (DOMAIN leaders) \cup {ev.term} |-> IF t = ev.term THEN ev.leader ELSE leaders[t]]
            /\ bad' = IF ev.term \in DOMAIN leaders /\ leaders[ev.term] # ev.leader
                        THEN Flag(ev, "two_leaders_in_a_term", {ev.term, ev.leader, leaders[ev.term]}) ELSE bad
            /\ cnt' = [cnt EXCEPT !.leaders = @ + 1]
            /\ UNCHANGED votes
       [] OTHER -> UNCHANGED <<votes, leaders, bad, cnt>>

Spec == Init /\ [][Next]_vars
Report == IF l = Len(Trace) + 1 THEN PrintT(<<"NS-REPORT", Len(Trace), bad>>) /\ PrintT(<<"NS-COUNT", cnt>>) ELSE TRUE
=============================================================================
