----------------------------- MODULE MCPipeline -----------------------------
(* Exhaustive exploration of one replica's pipeline (engine.go processSteps):               *)
(*   step (raft produces an Update) -> send free-order messages (Replicate) -> SaveRaftState *)
(*   -> send the other messages -> commit the update                                         *)
(* against an environment that may deliver any vote request, append or heartbeat, with a    *)
(* power loss possible between any two steps.  Checked: every message that implies durable  *)
(* state is covered when it leaves (PersistBeforeSend) and what the replica has told the    *)
(* world survives every crash (RestartMonotone).  With SaveBeforeSend = FALSE (the mutated   *)
(* order: messages first) TLC must find a counterexample; that run is the vacuity check.    *)
EXTENDS Pipeline, TLC

CONSTANTS MaxTerm, MaxLen, MaxCrash, SaveBeforeSend, ApplyAfterSave, Self, Peers,
          Solo,            \* Self is the only voting member (Peers are non-voting): an entry is committed when appended
          HoldCommitting   \* node.canSendBeforeSave: a Replicate whose commit index covers unsaved entries waits for the save

VARIABLES vol,    \* volatile raft state [term, vote, log]
          dur,    \* durable image
          upd,    \* update in the pipeline: [u (Pipeline update record), msgs]
          pc, told, crashes, covered,
          applied, \* highest index handed to the user state machine
          ccov     \* every commit index told so far was covered by the durable log when the message left

vars == <<vol, dur, upd, pc, told, crashes, covered, applied, ccov>>

NoUpd == [u |-> [hasstate |-> FALSE, term |-> 0, vote |-> 0, commit |-> 0, n |-> 0, first |-> 0,
                 terms |-> <<>>, ssindex |-> 0, ssterm |-> 0], msgs |-> {}]

Msg(type, term, to, reject, logindex) == [type |-> type, term |-> term, to |-> to, from |-> Self,
                                          reject |-> reject, logindex |-> logindex, commit |-> 0]
\* raft.makeReplicateMessage: the leader's commit index travels with the entries; with one voting member
\* raft.appendEntries has already committed what it just appended
Repl(term, to, logindex, commit) == [Msg("Replicate", term, to, FALSE, logindex) EXCEPT !.commit = commit]

\* the Update raft hands out after a step that turned old into new
MkUpd(old, new, first, msgs) ==
  [u |-> [hasstate |-> (old.term # new.term \/ old.vote # new.vote), term |-> new.term, vote |-> new.vote,
          commit |-> 0, n |-> (IF first = 0 THEN 0 ELSE Len(new.log) - first + 1), first |-> first,
          terms |-> (IF first = 0 THEN <<>> ELSE SubSeq(new.log, first, Len(new.log))),
          ssindex |-> 0, ssterm |-> 0],
   msgs |-> msgs]

Init == /\ vol = [term |-> 0, vote |-> 0, log |-> <<>>]
        /\ dur = DInit /\ upd = NoUpd /\ pc = "idle" /\ told = WInit /\ crashes = 0 /\ covered = TRUE /\ applied = 0
        /\ ccov = TRUE

Campaign ==
  /\ vol.term < MaxTerm
  /\ LET new == [vol EXCEPT !.term = @ + 1, !.vote = Self]
     IN vol' = new /\ upd' = MkUpd(vol, new, 0, {Msg("RequestVote", new.term, p, FALSE, 0) : p \in Peers})

HandleVote ==
  \E t \in vol.term..MaxTerm, c \in Peers :
    LET v0 == IF t > vol.term THEN 0 ELSE vol.vote
        grant == v0 \in {0, c}
        new == [vol EXCEPT !.term = t, !.vote = IF grant THEN c ELSE v0]
    IN vol' = new /\ upd' = MkUpd(vol, new, 0, {Msg("RequestVoteResp", t, c, ~grant, 0)})

HandleAppend ==
  \E t \in vol.term..MaxTerm, c \in Peers, at \in 1..(Len(vol.log) + 1) :
    /\ t > 0 /\ at <= MaxLen
    /\ at > applied                                    \* applied entries are committed: never overwritten
    /\ (at <= Len(vol.log) => vol.log[at] # t)        \* a conflict, or a new entry
    /\ LET new == [term |-> t, vote |-> IF t > vol.term THEN 0 ELSE vol.vote,
                   log |-> SubSeq(vol.log, 1, at - 1) \o <<t>>]
       IN vol' = new /\ upd' = MkUpd(vol, new, at, {Msg("ReplicateResp", t, c, FALSE, at)})

HandleHeartbeat ==
  \E t \in vol.term..MaxTerm, c \in Peers :
    LET new == [vol EXCEPT !.term = t, !.vote = IF t > vol.term THEN 0 ELSE vol.vote]
    IN vol' = new /\ upd' = MkUpd(vol, new, 0, {Msg("HeartbeatResp", t, c, FALSE, 0)})

LeaderPropose ==
  /\ vol.vote = Self /\ Len(vol.log) < MaxLen
  /\ LET new == [vol EXCEPT !.log = Append(@, vol.term)]
     IN vol' = new /\ upd' = MkUpd(vol, new, Len(new.log),
                                   {Repl(vol.term, p, Len(vol.log), IF Solo THEN Len(new.log) ELSE 0) : p \in Peers})

Step == /\ pc = "idle"
        /\ (Campaign \/ HandleVote \/ HandleAppend \/ HandleHeartbeat \/ LeaderPropose)
        /\ pc' = "stepped" /\ UNCHANGED <<dur, told, crashes, covered, applied, ccov>>

Free(ms) == {m \in ms : ~Implies(m)}
RECURSIVE ToldAll(_, _)
ToldAll(w, ms) == IF ms = {} THEN w ELSE LET m == CHOOSE m \in ms : TRUE IN ToldAll(Told(w, Self, m), ms \ {m})

\* node.sendReplicateMessages: the free-order messages that may leave before the save
Held(m) == HoldCommitting /\ m.type = "Replicate" /\ upd.u.n > 0 /\ m.commit >= upd.u.first
Early(ms) == {m \in Free(ms) : ~Held(m)}
SendFree == /\ pc = "stepped" /\ pc' = "free_sent"
            /\ ccov' = (ccov /\ \A m \in Early(upd.msgs) : CommitCovered(dur, m))
            /\ UNCHANGED <<vol, dur, upd, told, crashes, covered, applied>>

Save == /\ pc = (IF SaveBeforeSend THEN "free_sent" ELSE "others_sent")
        /\ dur' = ApplyUpdate(dur, upd.u)
        /\ told' = Withdraw(told, upd.u)
        /\ pc' = (IF SaveBeforeSend THEN "saved" ELSE "done")
        /\ UNCHANGED <<vol, upd, crashes, covered, applied, ccov>>

SendOthers == /\ pc = (IF SaveBeforeSend THEN "saved" ELSE "free_sent")
              /\ covered' = (covered /\ \A m \in upd.msgs : MsgCovered(dur, Self, m))
              /\ ccov' = (ccov /\ \A m \in upd.msgs \ Early(upd.msgs) : CommitCovered(dur, m))
              /\ told' = ToldAll(told, upd.msgs)
              /\ pc' = (IF SaveBeforeSend THEN "done" ELSE "others_sent")
              /\ UNCHANGED <<vol, dur, upd, crashes, applied>>

Commit == /\ pc = "done" /\ pc' = "idle" /\ upd' = NoUpd /\ UNCHANGED <<vol, dur, told, crashes, covered, applied, ccov>>

\* power loss: the volatile state is rebuilt from the durable image
Crash == /\ crashes < MaxCrash
         /\ crashes' = crashes + 1
         /\ vol' = [term |-> dur.term, vote |-> dur.vote, log |-> dur.log]
         /\ upd' = NoUpd /\ pc' = "idle"
         /\ applied' = 0          \* the state machine is rebuilt (from a snapshot / by replaying the durable log)
         /\ UNCHANGED <<dur, told, covered, ccov>>

\* the committed entries of the update are handed to the apply worker: after SaveRaftState
\* (applySnapshotAndUpdate(.., false)); with ApplyAfterSave = FALSE (mutated order) already before it.
\* The environment decides how much of the volatile log is committed.
Apply == /\ pc \in (IF ApplyAfterSave THEN {"saved", "done"} ELSE {"stepped", "free_sent", "saved", "done"})
         /\ \E i \in (applied + 1)..Len(vol.log) : applied' = i
         /\ UNCHANGED <<vol, dur, upd, pc, told, crashes, covered, ccov>>

Next == Step \/ SendFree \/ Save \/ SendOthers \/ Commit \/ Crash \/ Apply
Spec == Init /\ [][Next]_vars

PersistBeforeSend == covered
CommitToldIsDurable == ccov
ApplyNotAheadOfSave == applied = 0 \/ ApplyCovered(dur, applied)
RestartOK == RestartMonotone(dur, dur, told)      \* what a restart at this instant would find
=============================================================================
