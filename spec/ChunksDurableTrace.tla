------------------------- MODULE ChunksDurableTrace -------------------------
(* C16, receiving side, on the real chunk receiver (cksim): a snapshot directory that       *)
(* carried the final name when the power failed (the receiver had already handed the        *)
(* snapshot to raft) is still there afterwards with every file - snapshot file, flag file,  *)
(* external files - unchanged: only complete directories are ever given the final name.     *)
EXTENDS Integers, Sequences, Json, TLC
CONSTANT TraceFile
VARIABLES l, bad, cnt
Trace == ndJsonDeserialize(TraceFile)
vars == <<l, bad, cnt>>
Init == l = 1 /\ bad = {} /\ cnt = [finalized |-> 0]
Next ==
  /\ l <= Len(Trace)
  /\ l' = l + 1
  /\ LET ev == Trace[l] IN
     IF ev.op = "Durable"
       THEN /\ bad' = IF ev.same THEN bad ELSE bad \cup {<<ev.t, ev.i, "ReceivedSnapshotNotDurable", {ev.msg}>>}
            /\ cnt' = [cnt EXCEPT !.finalized = @ + 1]
       ELSE UNCHANGED <<bad, cnt>>
Spec == Init /\ [][Next]_vars
Report == IF l = Len(Trace) + 1 THEN PrintT(<<"CD-REPORT", Len(Trace), bad>>) /\ PrintT(<<"CD-COUNT", cnt>>) ELSE TRUE
=============================================================================
