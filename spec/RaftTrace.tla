----------------------------- MODULE RaftTrace -----------------------------
(***************************************************************************)
(* Trace validation of executions of the real internal/raft code recorded  *)
(* by rsim (harness/raft/rsim_test.go).                                    *)
(*                                                                         *)
(* One pass does two jobs:                                                 *)
(*  - monitor: the replica record logged after each step is copied into    *)
(*    `node`, the network is reconstructed from the logged sends/deliveries*)
(*    and the property invariants of RaftSys are evaluated on these        *)
(*    OBSERVED states (INVARIANTS in the cfg);                             *)
(*  - conformance: the same step is computed with the operators of         *)
(*    Raft.tla from the observed pre-state; `drift` records the first line *)
(*    at which the real code's post-state differs from the specification's.*)
(*    Drift never blocks the pass, so the rest of the execution is still   *)
(*    judged by the monitor.                                               *)
(* Several traces are concatenated in one file; an "Init" line resets.     *)
(***************************************************************************)
EXTENDS RaftSys, Json, SequencesExt

CONSTANTS TraceFile,     \* ndjson file written by rsim
          Conformance    \* FALSE: monitor only (used when the conformance evaluation itself fails)
VARIABLES viol,     \* set of <<trace id, step, property name>>: property violations on observed states
          l,        \* next line to consume
          drift,    \* <<line, fields>> of the first non-conforming step of the current trace, or <<>>
          drifts,   \* set of <<trace id, line, action, fields>> over all traces so far
          panicked  \* set of <<trace id, message>>

Trace == ndJsonDeserialize(TraceFile)

tvars == <<node, net, h, l, drift, drifts, panicked, viol>>



SnapOf(j) == [index |-> j.index, term |-> j.term, v |-> ToSet(j.v), nv |-> ToSet(j.nv),
              w |-> ToSet(j.w), rm |-> ToSet(j.rm), wit |-> j.wit]
MsgOf(j) == [mtype |-> j.mtype, from |-> j.from, to |-> j.to, term |-> j.term, lidx |-> j.lidx,
             lterm |-> j.lterm, commit |-> j.commit, reject |-> j.reject, hint |-> j.hint,
             ents |-> j.ents, snap |-> SnapOf(j.snap)]
RemOf(q) == [i \in {q[k].id : k \in 1..Len(q)} |->
               LET r == CHOOSE x \in ToSet(q) : x.id = i IN
               [match |-> r.match, next |-> r.next, st |-> r.st, si |-> r.si, act |-> r.act]]
RiqOf(q) == [k \in 1..Len(q) |-> [ctx |-> q[k].ctx, index |-> q[k].index, from |-> q[k].from,
                                  conf |-> ToSet(q[k].conf)]]
NodeOf(j) ==
  [id |-> j.id, up |-> j.up, role |-> j.role, term |-> j.term, vote |-> j.vote, lead |-> j.lead,
   log |-> j.log, sidx |-> j.sidx, sterm |-> j.sterm, com |-> j.com, proc |-> j.proc, rapp |-> j.rapp,
   vg |-> ToSet(j.vg), vr |-> ToSet(j.vr), V |-> ToSet(j.V), NV |-> ToSet(j.NV), W |-> ToSet(j.W),
   rem |-> RemOf(j.rem), pcc |-> j.pcc, xfer |-> j.xfer, riq |-> RiqOf(j.riq), rtr |-> j.rtr,
   dropE |-> ToSet(j.dropE), dropR |-> ToSet(j.dropR), etick |-> j.etick, htick |-> j.htick,
   rto |-> j.rto, msgs |-> {MsgOf(x) : x \in ToSet(j.msgs)}, snap |-> SnapOf(j.snap),
   dterm |-> j.dterm, dvote |-> j.dvote, dcom |-> j.dcom, dlog |-> j.dlog, dsidx |-> j.dsidx,
   dsterm |-> j.dsterm, dsnap |-> SnapOf(j.dsnap), aapp |-> j.aapp,
   mem |-> [v |-> ToSet(j.mem.v), nv |-> ToSet(j.mem.nv), w |-> ToSet(j.mem.w), rm |-> ToSet(j.mem.rm)],
   aq |-> SnapOf(j.aq), alist |-> j.alist, kind |-> j.kind]

NoMsg == Msg("", 0, 0, 0)

\* the message a local API call turns into (peer.go)
LocalMsg(ev) ==
  CASE ev.a = "Propose" -> [Msg("Propose", ev.n, 0, 0) EXCEPT !.ents = <<[term |-> 0, typ |-> "App", val |-> ev.val]>>]
    [] ev.a = "ProposeCC" -> [Msg("Propose", 0, 0, 0) EXCEPT !.ents = <<[term |-> 0, typ |-> "CC", val |-> ev.val]>>]
    [] ev.a = "ReadIndex" -> [Msg("ReadIndex", 0, 0, 0) EXCEPT !.hint = ev.val]
    [] ev.a = "Transfer" -> [Msg("LeaderTransfer", 0, ev.n, 0) EXCEPT !.hint = ev.val]
    [] ev.a = "SnapStatus" -> [Msg("SnapshotStatus", ev.from, 0, 0) EXCEPT !.reject = ev.reject]
    [] ev.a = "Unreachable" -> Msg("Unreachable", ev.from, 0, 0)

\* what Raft.tla says the replica looks like after this step
Expected(ev, pre, post) ==
  CASE ev.a = "Boot" -> Bootstrap(ev.n, ToSet(ev.voters), post.rto)
    [] ev.a = "Join" -> Join(ev.n, ev.kind, post.rto)
    [] ev.a = "Tick" -> Tick(Notify(pre), post.rto)
    [] ev.a = "Deliver" -> PeerHandle(Notify(pre), MsgOf(ev.m), post.rto)
    [] ev.a \in {"Propose", "ProposeCC", "ReadIndex", "Transfer", "SnapStatus", "Unreachable"} ->
         RaftHandle(Notify(pre), LocalMsg(ev), post.rto)
    [] ev.a = "Ready" -> Ready(pre)
    [] ev.a = "Apply" -> ApplyOne(pre, post.rto)
    [] ev.a = "Crash" -> Crash(pre)
    [] ev.a = "Restart" -> Restart(pre, post.rto)
    [] ev.a = "Snapshot" -> TakeSnapshot(pre)
    [] ev.a = "Compact" -> Compact(pre, ev.val)
    [] ev.a = "SetRto" -> [pre EXCEPT !.rto = post.rto]    \* the environment re-draws the randomized timeout
    \* xsim (exhaustive exploration of the real code): MCRaft!Timeout - time passes until the timer is
    \* about to fire, then one tick - and MCRaft!LeaseExpire (the environment moves the clock)
    [] ev.a = "Timeout" -> LET p == Notify(pre)
                               armed == IF p.role = "L" THEN [p EXCEPT !.etick = ET - 1, !.htick = HT - 1]
                                        ELSE [p EXCEPT !.etick = Max2(p.etick, p.rto - 1)]
                           IN Tick(armed, post.rto)
    [] ev.a = "Env" -> [pre EXCEPT !.etick = post.etick, !.rto = post.rto]

Enabled(ev, pre) ==
  CASE ev.a = "Deliver" -> MsgOf(ev.m) \in net /\ pre.up
    [] ev.a = "Apply" -> pre.up /\ CanApply(pre)
    [] ev.a = "Snapshot" -> pre.up /\ CanSnapshot(pre)
    [] ev.a = "Compact" -> pre.up /\ CanCompact(pre, ev.val)
    [] ev.a \in {"Boot", "Join", "Restart"} -> ~pre.up
    [] OTHER -> pre.up

DiffFields(a, b) == {f \in DOMAIN a : a[f] # b[f]}

TraceInit ==
  /\ node = [i \in Replica |-> Fresh(i)]
  /\ net = {}
  /\ h = HInit
  /\ l = 1
  /\ drift = <<>>
  /\ drifts = {}
  /\ panicked = {}
  /\ viol = {}

\* the properties evaluated on every observed state (names are those of RaftSys)
PropNames == {"CommittedAgree", "CommitWithinLog", "LogMatching", "ApplyAgreement", "ApplyOrder",
              "AppliedIsCommitted", "Monotonic", "ElectionSafety", "NoTwoLeadersNow", "OneVotePerTerm",
              "LeaderCompleteness", "DurableVote", "OnlyVotersLead", "NonVotingWitnessRoles",
              "ElectionQuorum", "CommitQuorum", "WitnessNoPayload", "WitnessLogMeta", "ReadIndexSafe",
              "ReadIndexRespSafe", "ReadIndexMechanism", "OneCCAtATime", "RemovedNeverReadmitted",
              "KindsDisjoint", "MembershipHasVoter", "KindOnlyPromotes", "BoundedProgress", "CheckQuorumLease",
              "SnapshotMembershipInstalled"}
PropHolds(p) ==
  CASE p = "CommittedAgree" -> CommittedAgree [] p = "CommitWithinLog" -> CommitWithinLog
    [] p = "LogMatching" -> LogMatching [] p = "ApplyAgreement" -> ApplyAgreement
    [] p = "ApplyOrder" -> ApplyOrder [] p = "AppliedIsCommitted" -> AppliedIsCommitted
    [] p = "Monotonic" -> Monotonic [] p = "ElectionSafety" -> ElectionSafety
    [] p = "NoTwoLeadersNow" -> NoTwoLeadersNow [] p = "OneVotePerTerm" -> OneVotePerTerm
    [] p = "LeaderCompleteness" -> LeaderCompleteness [] p = "DurableVote" -> DurableVote
    [] p = "OnlyVotersLead" -> OnlyVotersLead [] p = "NonVotingWitnessRoles" -> NonVotingWitnessRoles
    [] p = "ElectionQuorum" -> ElectionQuorum [] p = "CommitQuorum" -> CommitQuorum
    [] p = "WitnessNoPayload" -> WitnessNoPayload [] p = "WitnessLogMeta" -> WitnessLogMeta
    [] p = "ReadIndexSafe" -> ReadIndexSafe [] p = "ReadIndexRespSafe" -> ReadIndexRespSafe
    [] p = "ReadIndexMechanism" -> ReadIndexMechanism [] p = "OneCCAtATime" -> OneCCAtATime
    [] p = "RemovedNeverReadmitted" -> RemovedNeverReadmitted [] p = "KindsDisjoint" -> KindsDisjoint
    [] p = "MembershipHasVoter" -> MembershipHasVoter [] p = "KindOnlyPromotes" -> KindOnlyPromotes
    [] p = "BoundedProgress" -> "BoundedProgress" \notin h.bad
    [] p = "CheckQuorumLease" -> CheckQuorumLease
    [] p = "SnapshotMembershipInstalled" -> SnapshotMembershipInstalled
\* first violation of each property per trace is recorded
Judge(ev) ==
  viol' = viol \cup {<<ev.t, ev.i, p>> : p \in {q \in PropNames : ~PropHolds(q)' /\ \A x \in viol : ~(x[1] = ev.t /\ x[3] = q)}}

\* a new trace starts
StepInit(ev) ==
  /\ node' = [i \in Replica |-> Fresh(i)]
  /\ net' = {}
  /\ h' = HInit
  /\ drift' = <<>>
  /\ UNCHANGED <<drifts, panicked>>

StepDrop(ev) ==
  LET m == MsgOf(ev.m) IN
  /\ net' = IF ev.dup THEN net ELSE net \ {m}
  /\ UNCHANGED <<node, h, drift, drifts, panicked>>

StepHealed(ev) ==
  /\ h' = [h EXCEPT !.healed = TRUE]
  /\ UNCHANGED <<node, net, drift, drifts, panicked>>

\* the fair phase is over: the progress predicate must hold on the observed state
StepProgress(ev) ==
  /\ h' = IF ProgressPred THEN h ELSE [h EXCEPT !.bad = @ \cup {"BoundedProgress"}]
  /\ UNCHANGED <<node, net, drift, drifts, panicked>>

StepPanic(ev) ==
  /\ panicked' = panicked \cup {<<ev.t, ev.panic>>}
  /\ UNCHANGED <<node, net, h, drift, drifts>>

StepNode(ev) ==
  LET n == ev.n
      pre == node[n]
      post == NodeOf(ev.post)
      m == IF ev.a = "Deliver" THEN MsgOf(ev.m)
           ELSE IF ev.a \in {"Propose", "ProposeCC", "ReadIndex", "Transfer", "SnapStatus", "Unreachable"}
             THEN LocalMsg(ev) ELSE NoMsg
      en == Enabled(ev, pre)
      exp == IF en /\ Conformance THEN Expected(ev, pre, post) ELSE post
      diff == IF en THEN DiffFields(exp, post) ELSE {"<not enabled>"}
      conforms == diff = {}
      hh0 == IF ev.a = "ReadIndex" THEN HIssue(h, ev.val) ELSE h
      hh == IF ~h.healed THEN hh0
            ELSE IF ev.a = "Propose" THEN [hh0 EXCEPT !.probes = @ \cup {<<n, ev.val>>}]
            ELSE IF ev.a = "ReadIndex" THEN [hh0 EXCEPT !.probectx = @ \cup {<<n, ev.val>>}]
            ELSE IF ev.a = "ProposeCC" THEN [hh0 EXCEPT !.probecc = @ \cup {<<n, ev.val>>}]
            ELSE hh0
  IN
  /\ node' = [node EXCEPT ![n] = post]
  /\ net' = CASE ev.a = "Deliver" -> IF ev.dup THEN net ELSE net \ {m}
              [] ev.a = "Ready" -> net \cup (IF pre.up THEN pre.msgs ELSE {})
              [] OTHER -> net
  /\ h' = HStep(hh, pre, post, m, ev.a)
  /\ drift' = IF drift = <<>> /\ ~conforms THEN <<l, ev.a, diff>> ELSE drift
  /\ drifts' = IF drift = <<>> /\ ~conforms THEN drifts \cup {<<ev.t, ev.i, ev.a, diff>>} ELSE drifts
  /\ UNCHANGED panicked

TraceNext ==
  /\ l <= Len(Trace)
  /\ l' = l + 1
  /\ LET ev == Trace[l] IN
     /\ CASE ev.a = "Init" -> StepInit(ev)
          [] ev.a = "Drop" -> StepDrop(ev)
          [] ev.a = "Panic" -> StepPanic(ev)
          [] ev.a = "Healed" -> StepHealed(ev)
          [] ev.a = "Progress" -> StepProgress(ev)
          [] OTHER -> StepNode(ev)
     /\ Judge(ev)

TraceSpec == TraceInit /\ [][TraceNext]_tvars

\* conformance of the unchanged tree: no drift in any trace
NoDrift == drifts = {}
NoPanic == panicked = {}

\* the whole file was consumed (every line is one TLC state + the initial one)
TraceAccepted == TLCGet("stats").diameter - 1 = Len(Trace)

\* reporting: printed once at the end
Report == IF l = Len(Trace) + 1
            THEN PrintT(<<"TRACE-REPORT", Len(Trace), drifts, panicked, viol>>)
            ELSE TRUE
=============================================================================
