SPECIFICATION Spec
CONSTANTS
  Replica = {1, 2}
  InitVoters = {1, 2}
  ET = 5
  HT = 1
  PreVote = FALSE
  CheckQuorum = FALSE
  MaxTerm = 3
  MaxLen = 3
  MaxMsgs = 2
  MaxDup = 0
  MaxCrash = 0
  MaxProp = 0
  MaxRead = 1
  MaxCC = 1
  MaxSnap = 0
  CCChoices <- CCRemove2
  JoinKind <- NoJoin
  Eager = TRUE
  G <- GAll
  TrackEvidence = FALSE
CONSTRAINT Bounded
INVARIANT Safety
CHECK_DEADLOCK FALSE
