SPECIFICATION Spec
CONSTANTS
  MaxTerm = 3
  MaxLen = 3
  MaxCrash = 2
  SaveBeforeSend = TRUE
  ApplyAfterSave = TRUE
  Self = 1
  Peers = {2, 3}
  Solo = TRUE
  HoldCommitting = TRUE
INVARIANTS PersistBeforeSend RestartOK ApplyNotAheadOfSave CommitToldIsDurable
