--------------------------- MODULE CompactionTrace ---------------------------
(* C08, compaction part, on real NodeHosts (nhsim, mode snap): whenever a replica is        *)
(* restarted after a power loss, what the log store holds for it must continue the recorded *)
(* snapshot without a gap (log compaction is always covered by a snapshot the replica can   *)
(* recover from), and the restart itself must not panic.  On-disk state machines: a        *)
(* snapshot the replica records for itself says how far the state machine's own durable      *)
(* state reaches (OnDiskIndex) - the log is compacted on that promise; it must not be ahead  *)
(* of what the state machine had made durable (Sync) when the record was written.            *)
EXTENDS Pipeline, Json, TLC

CONSTANT TraceFile
VARIABLES l, bad, cnt, synced
Trace == ndJsonDeserialize(TraceFile)
vars == <<l, bad, cnt, synced>>
Flag(ev, what, detail) == bad \cup {<<ev.t, ev.i, what, detail>>}
BootImage(ev) == [term |-> ev.term, vote |-> ev.vote, commit |-> ev.commit,
                  base |-> IF Len(ev.terms) = 0 THEN ev.ssindex ELSE ev.first - 1,
                  log |-> ev.terms, ss |-> ev.ssindex, ssterm |-> ev.ssterm]

Init == l = 1 /\ bad = {} /\ cnt = [boots |-> 0, withsnapshot |-> 0, compacted |-> 0, ondiskrecords |-> 0] /\ synced = [h \in 1..8 |-> 0]
Next ==
  /\ l <= Len(Trace)
  /\ l' = l + 1
  /\ LET ev == Trace[l] IN
     CASE ev.ev = "Panic" -> bad' = Flag(ev, "Panic", {ev.msg}) /\ UNCHANGED <<cnt, synced>>
       [] ev.ev = "Init" -> synced' = [h \in 1..8 |-> 0] /\ UNCHANGED <<bad, cnt>>
       [] ev.ev = "Persisted" -> synced' = [synced EXCEPT ![ev.h] = IF ev.applied > @ THEN ev.applied ELSE @] /\ UNCHANGED <<bad, cnt>>
       [] ev.ev = "SsRecord" /\ ev.disksm /\ ~ev.imported ->
            /\ bad' = IF ev.ondisk <= synced[ev.h] THEN bad ELSE Flag(ev, "snapshot_record_ahead_of_synced_state", {ev.h})
            /\ cnt' = [cnt EXCEPT !.ondiskrecords = @ + 1] /\ UNCHANGED synced
       [] ev.ev = "Boot" ->
            LET r == BootImage(ev) IN
            /\ bad' = IF LogContinuesSnapshot(r) THEN bad ELSE Flag(ev, "gap_between_snapshot_and_log", {ev.h})
            /\ cnt' = [cnt EXCEPT !.boots = @ + 1, !.withsnapshot = @ + (IF r.ss > 0 THEN 1 ELSE 0),
                                  !.compacted = @ + (IF r.base > 0 /\ Len(r.log) > 0 THEN 1 ELSE 0)]
            /\ UNCHANGED synced
       [] OTHER -> UNCHANGED <<bad, cnt, synced>>
Spec == Init /\ [][Next]_vars
Report == IF l = Len(Trace) + 1 THEN PrintT(<<"CP-REPORT", Len(Trace), bad>>) /\ PrintT(<<"CP-COUNT", cnt>>) ELSE TRUE
=============================================================================
