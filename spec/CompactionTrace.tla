--------------------------- MODULE CompactionTrace ---------------------------
(* C08, compaction part, on real NodeHosts (nhsim, mode snap): whenever a replica is        *)
(* restarted after a power loss, what the log store holds for it must continue the recorded *)
(* snapshot without a gap (log compaction is always covered by a snapshot the replica can   *)
(* recover from), and the restart itself must not panic.                                    *)
EXTENDS Pipeline, Json, TLC

CONSTANT TraceFile
VARIABLES l, bad, cnt
Trace == ndJsonDeserialize(TraceFile)
vars == <<l, bad, cnt>>
Flag(ev, what, detail) == bad \cup {<<ev.t, ev.i, what, detail>>}
BootImage(ev) == [term |-> ev.term, vote |-> ev.vote, commit |-> ev.commit,
                  base |-> IF Len(ev.terms) = 0 THEN ev.ssindex ELSE ev.first - 1,
                  log |-> ev.terms, ss |-> ev.ssindex, ssterm |-> ev.ssterm]

Init == l = 1 /\ bad = {} /\ cnt = [boots |-> 0, withsnapshot |-> 0, compacted |-> 0]
Next ==
  /\ l <= Len(Trace)
  /\ l' = l + 1
  /\ LET ev == Trace[l] IN
     CASE ev.ev = "Panic" -> bad' = Flag(ev, "Panic", {ev.msg}) /\ UNCHANGED cnt
       [] ev.ev = "Boot" ->
            LET r == BootImage(ev) IN
            /\ bad' = IF LogContinuesSnapshot(r) THEN bad ELSE Flag(ev, "gap_between_snapshot_and_log", {ev.h})
            /\ cnt' = [cnt EXCEPT !.boots = @ + 1, !.withsnapshot = @ + (IF r.ss > 0 THEN 1 ELSE 0),
                                  !.compacted = @ + (IF r.base > 0 /\ Len(r.log) > 0 THEN 1 ELSE 0)]
       [] OTHER -> UNCHANGED <<bad, cnt>>
Spec == Init /\ [][Next]_vars
Report == IF l = Len(Trace) + 1 THEN PrintT(<<"CP-REPORT", Len(Trace), bad>>) /\ PrintT(<<"CP-COUNT", cnt>>) ELSE TRUE
=============================================================================
