SPECIFICATION Spec
CONSTANTS
  Cap = 2
  MaxMsg = 6
  Ablate = {}
INVARIANT Inv
INVARIANT NoDeadEnd
CHECK_DEADLOCK FALSE
