--------------------------- MODULE MCSnapshotJobs ---------------------------
(* Every interleaving of the apply worker (rounds of processApplies with or without a snapshot task), the arms  *)
(* of workerPoolMain (one per ready bit, one per completed worker) and the snapshot workers finishing their    *)
(* jobs, for one replica, W workers and a budget of tasks.                                                      *)
EXTENDS SnapshotJobs, TLC
CONSTANTS W, MaxTasks, Concurrent, OnDisk
VARIABLES n, p, ready, jd, tasks
vars == <<n, p, ready, jd, tasks>>

Init == n = NInit(Concurrent, OnDisk) /\ p = PInit(W) /\ ready = {} /\ jd = {} /\ tasks = 0

Clean(x) == [x EXCEPT !.bits = {}, !.told = ""]
\* engine.processApplies for this replica: status transition, then (unless skipped) at most one task
ApplyIdle == LET a == ProcessStatusTransition(n) IN
             /\ n' = Clean(a[1]) /\ ready' = ready \cup a[1].bits /\ UNCHANGED <<p, jd, tasks>>
ApplyTask(k, rts) ==
  /\ tasks < MaxTasks
  /\ k = "stream" => OnDisk
  /\ LET a == ProcessStatusTransition(n) IN
     /\ ~a[2] /\ a[1].panic = ""
     /\ LET b == HandleSnapshotTask(a[1], k, rts) IN
        n' = Clean(b) /\ ready' = ready \cup a[1].bits \cup b.bits
  /\ tasks' = tasks + 1 /\ UNCHANGED <<p, jd>>
PoolArm(k) == /\ k \in ready
              /\ LET t == TakeReq(n, p, k) IN n' = t[1] /\ p' = Schedule(t[2])
              /\ ready' = ready \ {k} /\ UNCHANGED <<jd, tasks>>
WorkerDone(w) == /\ p.busy[w] # NoJob /\ w \notin jd
                 /\ n' = Clean(JobDone(n, p.busy[w], FALSE)) /\ jd' = jd \cup {w} /\ UNCHANGED <<p, ready, tasks>>
PoolCompleted(w) == /\ w \in jd /\ p' = Schedule(Completed(p, w)) /\ jd' = jd \ {w} /\ UNCHANGED <<n, ready, tasks>>

Next == \/ ApplyIdle \/ \E k \in Kinds, rts \in BOOLEAN : ApplyTask(k, rts)
        \/ \E k \in Kinds : PoolArm(k) \/ \E w \in W : WorkerDone(w) \/ PoolCompleted(w)
Fair == /\ WF_vars(ApplyIdle) /\ \A k \in Kinds : WF_vars(PoolArm(k))
        /\ \A w \in W : WF_vars(WorkerDone(w)) /\ WF_vars(PoolCompleted(w))
Spec == Init /\ [][Next]_vars /\ Fair

Inv == /\ NoPanic(n, p) /\ Exclusion(p) /\ Books(p) /\ FlagsJustified(n, p) /\ NothingWithoutFlag(n, p) /\ NoIdleWait(p)
\* every job that was asked for is run and its completion is seen (the flag is cleared again)
Progress == \A k \in Kinds : n.flag[k] ~> ~n.flag[k]
Initialised == <>(n.initialized)
=============================================================================
