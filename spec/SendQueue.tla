------------------------------ MODULE SendQueue ------------------------------
(* internal/transport/transport.go, the sending side for one remote NodeHost: Transport.send registers a      *)
(* queue for the target on first use and starts a worker (connectAndProcess -> processMessages) that drains   *)
(* it over one connection; the worker leaves when the connection fails (the breaker opens, the replicas that  *)
(* used the connection are told the target is unreachable), when nothing was sent for idleTimeout, or when    *)
(* the transport stops - and the queue is unregistered when it leaves, so that the next Send starts a new one.*)
(* What C17 needs from it (a connected quorum makes progress): messages may be lost, never duplicated or      *)
(* reordered within a connection, and whenever the target is reachable again a message that is sent is        *)
(* eventually delivered - a registered queue always has a worker.                                             *)
(* Ablate: {} is the code; "idle_exit_keeps_queue" leaves the queue registered when the worker idles out.     *)
EXTENDS Integers, Sequences, FiniteSets
CONSTANT Ablate

\* reg: the queue is in Transport.mu.queues; worker: "none" | "connecting" | "running" | "leaving_failed" | "leaving_idle"
\* ch: the queue's channel (message ids); breaker: TRUE = ready; delivered: ids handed to the connection, in order
SQInit == [reg |-> FALSE, worker |-> "none", ch |-> <<>>, breaker |-> TRUE, delivered |-> <<>>, unreachable |-> 0]

\* Transport.send: <<accepted, s'>>
Send(s, m, cap) ==
  IF ~s.breaker THEN <<FALSE, s>>
  ELSE LET s1 == IF s.reg THEN s ELSE [s EXCEPT !.reg = TRUE, !.worker = "connecting", !.ch = <<>>] IN
       IF Len(s1.ch) >= cap THEN <<FALSE, s1>> ELSE <<TRUE, [s1 EXCEPT !.ch = Append(@, m)]>>
\* connectAndProcess: GetConnection
Connect(s, ok) == IF ok THEN [s EXCEPT !.worker = "running", !.breaker = TRUE]
                  ELSE [s EXCEPT !.worker = "leaving_failed", !.breaker = FALSE]
\* processMessages: one batch (everything that is queued) over the connection
Process(s, ok) == IF ok THEN [s EXCEPT !.delivered = @ \o s.ch, !.ch = <<>>]
                  ELSE [s EXCEPT !.worker = "leaving_failed", !.breaker = FALSE, !.ch = <<>>]
Idle(s) == [s EXCEPT !.worker = "leaving_idle"]
\* the worker's last statements: notifyUnreachable after a failure, shutdownQueue
Leave(s) ==
  LET failed == s.worker = "leaving_failed"
      keep == ~failed /\ "idle_exit_keeps_queue" \in Ablate IN
  [s EXCEPT !.worker = "none", !.reg = IF keep THEN TRUE ELSE FALSE, !.ch = IF keep THEN @ ELSE <<>>,
            !.unreachable = IF failed THEN @ + 1 ELSE @]
BreakerReset(s) == [s EXCEPT !.breaker = TRUE]

QueueHasWorker(s) == s.reg => s.worker # "none"
NoWorkerWithoutQueue(s) == s.worker # "none" => s.reg
RECURSIVE Increasing(_)
Increasing(q) == Len(q) < 2 \/ (q[1] < q[2] /\ Increasing(Tail(q)))
=============================================================================
