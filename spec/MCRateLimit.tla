---------------------------- MODULE MCRateLimit ----------------------------
(* Every sequence of ticks, size updates, follower reports and RateLimited() calls.         *)
(*  NeverWhenDisabled / OnlyWhenLarge - limiting starts only when a size exceeds the        *)
(*      maximum;                                                                            *)
(*  Releases - once every fresh size is below 70% of the maximum and the last change of the *)
(*      answer is more than ChangeTickThreshold ticks old, RateLimited() answers FALSE:     *)
(*      rate limiting cannot outlive its cause by more than the hysteresis window.          *)
EXTENDS RateLimit, TLC
CONSTANTS Max, Sizes, MaxTick, Followers
VARIABLES r, last
vars == <<r, last>>
Init == r = RInit(Max) /\ last = [op |-> "init", pre |-> RInit(Max)]
Next == /\ r.tick < MaxTick
        /\ \/ r' = RTick(r) /\ last' = [op |-> "tick", pre |-> r]
           \/ \E s \in Sizes : r' = RSet(r, s) /\ last' = [op |-> "set", pre |-> r]
           \/ \E f \in Followers, s \in Sizes : r' = RSetFollower(r, f, s) /\ last' = [op |-> "follower", pre |-> r]
           \/ r' = RReset(r) /\ last' = [op |-> "reset", pre |-> r]
           \/ r' = RRateLimited(r) /\ last' = [op |-> "ratelimited", pre |-> r]
Spec == Init /\ [][Next]_vars
OnlyWhenLarge == (last.op = "ratelimited" /\ ~last.pre.limited /\ r.limited) => MaxInMem(last.pre) > Max
Releases == (last.op = "ratelimited" /\ last.pre.limited
             /\ MaxInMem(last.pre) < (Max * 7) \div 10
             /\ last.pre.tick - last.pre.tickLimited > ChangeTickThreshold) => ~r.limited
GcBounded == last.op = "ratelimited" => \A id \in DOMAIN r.fol : r.tick - r.fol[id].tick <= GcTick
=============================================================================
