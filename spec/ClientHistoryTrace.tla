------------------------- MODULE ClientHistoryTrace -------------------------
(* Judges client histories recorded from clusters of real NodeHosts (nhsim) with the        *)
(* linearizability checker of ClientHistory.tla.  Inv is stamped immediately before the     *)
(* client call, Res immediately after it returned, both on the calling goroutine and under  *)
(* the recorder's mutex.  A response obtained from a host after its crash instant is        *)
(* recorded as "lost" (the process was dead, the client never saw it).                      *)
EXTENDS ClientHistory, Json, TLC

CONSTANT TraceFile
VARIABLES cs,      \* set of configurations consistent with the history so far
          rm, obs, \* look-ahead tables of the current history
          skip,    \* the current history was already judged not linearizable
          l, bad, cnt

Trace == ndJsonDeserialize(TraceFile)
vars == <<cs, rm, obs, skip, l, bad, cnt>>

\* lines of the history that starts at line i (an Init event)
EndOf(i) == IF \E j \in (i + 1)..Len(Trace) : Trace[j].ev = "Init"
              THEN (CHOOSE j \in (i + 1)..Len(Trace) : Trace[j].ev = "Init" /\ \A m \in (i + 1)..(j - 1) : Trace[m].ev # "Init") - 1
              ELSE Len(Trace)
ResMap(i) == LET L == {j \in (i + 1)..EndOf(i) : Trace[j].ev = "Res"}
                 ids == {Trace[j].id : j \in L}
             IN [id \in ids |-> LET j == CHOOSE j \in L : Trace[j].id = id
                                IN [out |-> Trace[j].out, val |-> Trace[j].val]]
Observed(i) == {Trace[j].val : j \in {m \in (i + 1)..EndOf(i) : Trace[m].ev = "Res" /\ Trace[m].out = "ok"}}

Flag(ev, what, detail) == bad \cup {<<ev.t, ev.i, what, detail>>}
OpOf(ev) == [id |-> ev.id, op |-> ev.op, k |-> ev.k, v |-> ev.v]
MaxCard(a, n) == IF n > a THEN n ELSE a

Init == /\ cs = {Cfg0} /\ rm = <<>> /\ obs = {} /\ skip = FALSE /\ l = 1 /\ bad = {}
        /\ cnt = [inv |-> 0, ok |-> 0, noeffect |-> 0, unknown |-> 0, maxcfgs |-> 1, histories |-> 0]

Next ==
  /\ l <= Len(Trace)
  /\ l' = l + 1
  /\ LET ev == Trace[l] IN
     CASE ev.ev = "Init" ->
            /\ cs' = {Cfg0} /\ rm' = ResMap(l) /\ obs' = Observed(l) /\ skip' = FALSE
            /\ cnt' = [cnt EXCEPT !.histories = @ + 1]
            /\ UNCHANGED bad
       [] ev.ev = "Panic" ->
            /\ bad' = Flag(ev, "Panic", {ev.msg}) /\ UNCHANGED <<cs, rm, obs, skip, cnt>>
       [] ev.ev = "Inv" /\ ~skip ->
            /\ cs' = OnInv(cs, OpOf(ev))
            /\ cnt' = [cnt EXCEPT !.inv = @ + 1]
            /\ UNCHANGED <<rm, obs, skip, bad>>
       [] ev.ev = "Res" /\ ~skip ->
            LET n == IF ev.out = "ok" THEN OnResOk(cs, ev.id, ev.val, rm, obs)
                     ELSE IF ev.out \in {"refused", "rejected"} THEN OnResNoEffect(cs, ev.id)
                     ELSE OnResUnknown(cs, ev.id, obs)
            IN
            /\ cs' = n
            /\ skip' = (n = {})
            /\ bad' = IF n = {} THEN Flag(ev, "NotLinearizable", {ev.id}) ELSE bad
            /\ cnt' = [cnt EXCEPT !.ok = @ + (IF ev.out = "ok" THEN 1 ELSE 0),
                                  !.noeffect = @ + (IF ev.out \in {"refused", "rejected"} THEN 1 ELSE 0),
                                  !.unknown = @ + (IF ev.out \notin {"ok", "refused", "rejected"} THEN 1 ELSE 0),
                                  !.maxcfgs = MaxCard(@, Cardinality(n))]
            /\ UNCHANGED <<rm, obs>>
       [] OTHER -> UNCHANGED <<cs, rm, obs, skip, bad, cnt>>

Spec == Init /\ [][Next]_vars
Report == IF l = Len(Trace) + 1
            THEN PrintT(<<"CH-REPORT", Len(Trace), bad>>) /\ PrintT(<<"CH-COUNT", cnt>>)
            ELSE TRUE
=============================================================================
