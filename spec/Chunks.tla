-------------------------------- MODULE Chunks --------------------------------
(***************************************************************************)
(* C15: the receiving side of snapshot chunk transfer (internal/transport   *)
(* chunk.go) as a state machine over                                        *)
(*   tr    : tracked streams, snapshot index -> [next, from, bad, tick]     *)
(*   tmp   : temporary directories, set of <<index, from>>                  *)
(*   final : finalized snapshot directories, set of index                   *)
(*   notes : number of InstallSnapshot notifications delivered              *)
(* `bad` says that the main file of the stream can no longer validate (a    *)
(* corrupted or refused chunk of the main file): such a stream must never   *)
(* finalize.  Whether the validator notices a corrupted main-file chunk at  *)
(* once or only at the end is left open (AddOutcomes returns both).         *)
(***************************************************************************)
EXTENDS Integers, Sequences, FiniteSets

CInit == [tr |-> <<>>, tmp |-> {}, final |-> {}, notes |-> 0, tick |-> 0, removed |-> FALSE]

Without(f, k) == [x \in DOMAIN f \ {k} |-> f[x]]
With(f, k, v) == [x \in DOMAIN f \cup {k} |-> IF x = k THEN v ELSE f[x]]

\* everything after the stream was admitted by record(): replica removed?, save, last chunk
AfterRecord(c, s, ev, bad) ==
  LET k == ev.index IN
  IF c.removed
    THEN {[st |-> [s EXCEPT !.tmp = @ \ {<<k, ev.from>>}], ret |-> FALSE, fin |-> FALSE]}
  ELSE LET s1 == IF ev.cid = 0 THEN [s EXCEPT !.tmp = @ \cup {<<k, ev.from>>}] ELSE s IN
       IF ~ev.last THEN {[st |-> s1, ret |-> TRUE, fin |-> FALSE]}
       ELSE LET s2 == [s1 EXCEPT !.tr = Without(@, k)] IN
            LET refused == {[st |-> [s2 EXCEPT !.tmp = @ \ {<<k, ev.from>>}], ret |-> FALSE, fin |-> FALSE]}
                accepted == IF k \in s2.final THEN refused    \* out of date
                            ELSE {[st |-> [s2 EXCEPT !.tmp = @ \ {<<k, ev.from>>}, !.final = @ \cup {k}, !.notes = @ + 1],
                                   ret |-> TRUE, fin |-> TRUE]}
            IN CASE bad = "yes" -> refused
                 [] bad = "maybe" -> refused \cup accepted     \* header block corruption: nothing guarantees detection
                 [] OTHER -> accepted

\* all outcomes the specification allows for Add(chunk); c = configuration [slots]
AddOutcomes(c, s, ev) ==
  LET k == ev.index
      exists == k \in DOMAIN s.tr
      \* CODE: the 1 KB header block of a file written by SnapshotWriter is covered by no
      \* effective checksum: a flipped bit there may be refused, noticed later, or not at all
      corruptMain == ev.corrupt = "main" /\ ~ev.pad
      corruptHdr == ev.corrupt = "main" /\ ev.pad
      same == {[st |-> s, ret |-> FALSE, fin |-> FALSE]}
  IN
  IF ev.baddid \/ ev.badver THEN same
  ELSE IF ev.cid = 0
    THEN \* a first chunk (re)starts the stream: an already tracked stream of that key loses its directory
         LET s0 == IF exists THEN [s EXCEPT !.tmp = @ \ {<<k, s.tr[k].from>>}] ELSE s
             full == ~exists /\ Cardinality(DOMAIN s.tr) >= c.slots
             start(bad) == AfterRecord([removed |-> s.removed], [s0 EXCEPT !.tr = With(@, k, [next |-> 1, from |-> ev.from, bad |-> bad, tick |-> s.tick])], ev, bad)
         IN IF full THEN same
            ELSE IF corruptMain
              THEN \* header refused at once (ignored without effect), or noticed later
                   same \cup start("yes")
            ELSE IF corruptHdr
              THEN same \cup start("maybe")
              ELSE start("no")
    ELSE IF ~exists \/ s.tr[k].next # ev.cid \/ s.tr[k].from # ev.from THEN same
         ELSE LET adv(nb) == [s EXCEPT !.tr[k].next = ev.cid + 1, !.tr[k].tick = s.tick, !.tr[k].bad = nb]
                  \* CODE: addLocked, validator.AddChunk = false: a block of the main file failed its
                  \* checksum; the stream is dropped (no longer tracked, temporary directory removed)
                  dropped == {[st |-> [s EXCEPT !.tr = Without(@, k), !.tmp = @ \ {<<k, s.tr[k].from>>}],
                               ret |-> FALSE, fin |-> FALSE]}
              IN
              IF ev.evil
                THEN \* a file name that points out of the snapshot's directory ("..", "."): refused - ignored without
                     \* effect or the stream is dropped with it -, never saved
                     \* (a replica that was removed refuses every chunk before it looks at it: nodeRemoved)
                     (IF s.removed THEN AfterRecord([removed |-> TRUE], adv(s.tr[k].bad), ev, s.tr[k].bad) ELSE same \cup dropped)
              ELSE IF corruptMain
                THEN \* noticed by the validator now, or saved and noticed with a later chunk / at the end
                     \* (the validator checks a block once the following block has arrived)
                     (IF s.removed THEN AfterRecord([removed |-> TRUE], adv("yes"), ev, "yes") ELSE dropped)
                     \cup AfterRecord([removed |-> s.removed], adv("yes"), ev, "yes")
                ELSE AfterRecord([removed |-> s.removed], adv(s.tr[k].bad), ev, s.tr[k].bad)
                     \cup (IF s.tr[k].bad = "yes" /\ ev.main /\ ~s.removed THEN dropped ELSE {})

\* CODE: Chunk.Tick + gc
TickStep(c, s) ==
  LET t == s.tick + 1
      s1 == [s EXCEPT !.tick = t] IN
  IF t % c.gct # 0 THEN s1
  ELSE LET dead == {k \in DOMAIN s.tr : t - s.tr[k].tick >= c.timeout} IN
       [s1 EXCEPT !.tr = [x \in DOMAIN @ \ dead |-> @[x]],
                  !.tmp = @ \ {<<k, s.tr[k].from>> : k \in dead}]

\* state properties of C15
NoStrayTempDir(s) == \A d \in s.tmp : d[1] \in DOMAIN s.tr /\ s.tr[d[1]].from = d[2]
=============================================================================
