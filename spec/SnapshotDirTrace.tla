-------------------------- MODULE SnapshotDirTrace --------------------------
(* The layout predicates of SnapshotDir.tla evaluated on directory listings taken from real *)
(* hosts (nhsim, mode snap) after real power losses at seeded file-system operations.       *)
EXTENDS SnapshotDir, Json, TLC

CONSTANT TraceFile
VARIABLES l, bad, cnt
Trace == ndJsonDeserialize(TraceFile)
vars == <<l, bad, cnt>>

Flag(ev, what, detail) == bad \cup {<<ev.t, ev.i, what, detail>>}
LayoutOf(ev) == {Entry(ev.entries[k].kind, ev.entries[k].index, ev.entries[k].flag, ev.entries[k].file, ev.entries[k].meta) :
                   k \in 1..Len(ev.entries)}

Init == l = 1 /\ bad = {} /\ cnt = [crashlayouts |-> 0, layouts |-> 0, recovered |-> 0, notjudged |-> 0, nonempty |-> 0, dirty |-> 0, fired |-> 0]

Next ==
  /\ l <= Len(Trace)
  /\ l' = l + 1
  /\ LET ev == Trace[l] IN
     CASE ev.ev = "Panic" -> bad' = Flag(ev, "Panic", {ev.msg}) /\ UNCHANGED cnt
       [] ev.ev = "CrashLayout" ->
            LET L == LayoutOf(ev) u == Uncrashworthy(L, ev.rec) IN
            /\ bad' = IF u = {} THEN bad ELSE Flag(ev, "CrashLayout", u)
            /\ cnt' = [cnt EXCEPT !.crashlayouts = @ + 1, !.nonempty = @ + (IF L # {} THEN 1 ELSE 0),
                                  !.dirty = @ + (IF NeedsCleanup(L, ev.rec) # {} THEN 1 ELSE 0)]
       [] ev.ev = "Layout" ->
            LET L == LayoutOf(ev) u == Unclean(L, ev.rec) IN
            /\ bad' = IF u = {} THEN bad ELSE Flag(ev, "Layout", u)
            /\ cnt' = [cnt EXCEPT !.layouts = @ + 1]
       [] ev.ev = "Recovered" ->
            /\ bad' = IF ev.ok THEN bad ELSE Flag(ev, "Recovered", {"replica_older_than_recorded_snapshot"})
            /\ cnt' = [cnt EXCEPT !.recovered = @ + (IF ev.init THEN 1 ELSE 0), !.notjudged = @ + (IF ev.init THEN 0 ELSE 1)]
       [] ev.ev = "Round" ->
            /\ cnt' = [cnt EXCEPT !.fired = @ + (IF ev.fired THEN 1 ELSE 0)] /\ UNCHANGED bad
       [] OTHER -> UNCHANGED <<bad, cnt>>

Spec == Init /\ [][Next]_vars
Report == IF l = Len(Trace) + 1
            THEN PrintT(<<"SD-REPORT", Len(Trace), bad>>) /\ PrintT(<<"SD-COUNT", cnt>>)
            ELSE TRUE
=============================================================================
