SPECIFICATION Spec
CONSTANTS
  Max = 10
  Sizes = {0, 6, 7, 11}
  MaxTick = 16
  Followers = {2}
INVARIANTS OnlyWhenLarge Releases GcBounded
