------------------------------ MODULE LogStore ------------------------------
(***************************************************************************)
(* raftio.ILogDB as a sequential object (C09) with crash and I/O-error     *)
(* outcomes (C10).  Per (shard, replica) the store holds the entries it    *)
(* was given (overwriting a suffix with entries of a newer term logically  *)
(* truncates everything after them: `max` is the logical end), the last    *)
(* hard state, the newest snapshot record and the removal point.  Every    *)
(* observation is defined from that state.                                 *)
(***************************************************************************)
EXTENDS Integers, Sequences, FiniteSets

NoState == <<>>
\* soft: hard states that were acknowledged before the current one by updates that only moved the commit
\* index since the last update that had to be durable (entries, snapshot, term or vote). A store may write
\* such an update without syncing it (Tan does): after a power loss the recovered hard state is the current
\* one or one of these - always one that was actually written, with the current term and vote.
LSInit == [ents |-> <<>>, max |-> 0, st |-> NoState, ss |-> 0, rm |-> 0, soft |-> {}]

FunPut(f, k, v) == [x \in DOMAIN f \cup {k} |-> IF x = k THEN v ELSE f[x]]

\* u: [ents (sequence of <<index, term, val, size>>), hass, st, ss, sst]
RECURSIVE PutAll(_, _, _)
PutAll(f, es, i) == IF i > Len(es) THEN f
                    ELSE PutAll(FunPut(f, es[i][1], [term |-> es[i][2], val |-> es[i][3], sz |-> es[i][4]]), es, i + 1)

\* CODE: db.saveRaftState: state, then a snapshot record newer than the recorded one (the log
\* then logically ends at it), then the entries (the log then logically ends at the last one)
CommitOnly(s, u) ==
  u.hass /\ Len(u.ents) = 0 /\ u.ss = 0 /\ s.st # NoState /\ u.st[1] = s.st[1] /\ u.st[2] = s.st[2]

SaveUpdate(s, u) ==
  LET s0 == IF CommitOnly(s, u) THEN [s EXCEPT !.soft = @ \cup {s.st}] ELSE [s EXCEPT !.soft = {}]
      s1 == IF u.hass THEN [s0 EXCEPT !.st = u.st] ELSE s0
      \* a restored snapshot: the log restarts at its index; what was stored at or below it
      \* is never asked for again (the log reader answers ErrCompacted there)
      s2 == IF u.ss > s1.ss
              THEN [s1 EXCEPT !.ss = u.ss, !.max = u.ss, !.rm = u.ss,
                              !.ents = [x \in {y \in DOMAIN @ : y > u.ss} |-> @[x]]]
              ELSE s1
  IN IF Len(u.ents) = 0 THEN s2
     ELSE [s2 EXCEPT !.ents = PutAll(@, u.ents, 1), !.max = u.ents[Len(u.ents)][1]]

\* ILogDB.ImportSnapshot (the repair tool): whatever the replica had is replaced by the imported snapshot
\* record, the hard state (term of the snapshot, no vote, its index as commit index) and an empty log behind it
ImportRec(s, idx, term) == [ents |-> <<>>, max |-> idx, st |-> <<term, 0, idx>>, ss |-> idx, rm |-> idx, soft |-> {}]

SaveSnapshotRec(s, idx) == IF idx > s.ss THEN [s EXCEPT !.ss = idx] ELSE s
RemoveTo(s, idx) == [s EXCEPT !.ents = [x \in {y \in DOMAIN @ : y > idx} |-> @[x]], !.rm = idx]

(* ------------------------------------------------------------ observations *)
\* the contiguous run of stored entries starting at lo, below hi, within the logical log
RECURSIVE Run(_, _, _)
Run(s, i, hi) == IF i < hi /\ i <= s.max /\ i \in DOMAIN s.ents THEN <<i>> \o Run(s, i + 1, hi) ELSE <<>>

\* size limit: the longest prefix whose total size stays within max, but never less than one
RECURSIVE Limit(_, _, _, _, _)
Limit(s, run, k, acc, max) ==
  IF k > Len(run) THEN run
  ELSE LET a == acc + s.ents[run[k]].sz IN
       IF a > max /\ k > 1 THEN SubSeq(run, 1, k - 1) ELSE Limit(s, run, k + 1, a, max)

Iterate(s, lo, hi, max) ==
  LET run == Limit(s, Run(s, lo, hi), 1, 0, max) IN
  [k \in 1..Len(run) |-> <<run[k], s.ents[run[k]].term, s.ents[run[k]].val>>]

\* one logged panel p is what the store must answer in state s
PanelOK(p, s) ==
  /\ p.ss = s.ss
  /\ p.rserr = (IF s.st = NoState THEN "nosavedlog" ELSE "")
  /\ (p.rserr = "" =>
        /\ p.st = s.st
        /\ IF s.max <= p.asked THEN p.count = 0
           ELSE p.first + p.count = s.max + 1 /\ p.first <= p.asked + 1 /\ p.count > 0)
  /\ \A k \in 1..Len(p.its) :
        IF p.its[k].below
          \* a range that starts at or below the removal point: an error or whatever is still there, contiguous from
          \* the first index asked for - never a crash
          THEN /\ ~(Len(p.its[k].err) >= 5 /\ SubSeq(p.its[k].err, 1, 5) = "panic")
               /\ (p.its[k].err = "" => \A j \in 1..Len(p.its[k].ents) : p.its[k].ents[j][1] = p.its[k].lo + j - 1)
          ELSE p.its[k].err = "" /\ p.its[k].ents = Iterate(s, p.its[k].lo, p.its[k].hi, p.its[k].max)
=============================================================================
