SPECIFICATION Spec
CONSTANTS
  MaxTerm = 3
  MaxLen = 3
  MaxCrash = 2
  SaveBeforeSend = FALSE
  Self = 1
  Peers = {2, 3}
INVARIANTS PersistBeforeSend RestartOK
