SPECIFICATION Spec
CONSTANTS
  MaxTerm = 3
  MaxLen = 3
  MaxCrash = 2
  SaveBeforeSend = FALSE
  ApplyAfterSave = TRUE
  Self = 1
  Peers = {2, 3}
INVARIANTS PersistBeforeSend RestartOK ApplyNotAheadOfSave
