SPECIFICATION MSpec
CONSTANTS
  MaxIdx = 4
  MaxCrash = 3
  SyncFileBeforeRename = TRUE
  SyncDirBeforeRecord = TRUE
  RecordBeforeUnflag = TRUE
INVARIANTS CrashWorthy CleanAfterRestart
