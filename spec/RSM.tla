-------------------------------- MODULE RSM --------------------------------
(***************************************************************************)
(* The replicated state machine layer (internal/rsm): what applying a      *)
(* committed entry does to the user state, the client-session table and    *)
(* the membership, and what a snapshot captures.                           *)
(*   C05 client sessions: at-most-once, cached results, acknowledged       *)
(*       duplicates ignored, unknown sessions rejected, LRU eviction       *)
(*   C07 membership rules (rsm/membership.go handleConfigChange)           *)
(*   C08 a state recovered from a snapshot equals the state that was saved *)
(*       (user data, sessions incl. LRU order, membership, index, term)    *)
(* Maps are sets of <<key, value>> pairs.  The user state machine of the   *)
(* drivers is a register file: Update(key, val) sets kv[key] := val,       *)
(* counts the call and returns count * 1000 + val, which makes a repeated  *)
(* or a skipped Update visible in every later result.                      *)
(***************************************************************************)
EXTENDS Integers, Sequences, FiniteSets

\* what the user state machine of the driver returns for an applied command: the empty result
\* (value 0, no data) for every third key - a retried proposal whose first result was empty must
\* still be answered from the session history, not applied again
UserResult(c, e) == IF e.key % 3 = 2 THEN 0 ELSE c * 1000 + e.val

Has(m, k) == \E p \in m : p[1] = k
Get(m, k) == (CHOOSE p \in m : p[1] = k)[2]
Put(m, k, v) == {p \in m : p[1] # k} \cup {<<k, v>>}
Del(m, k) == {p \in m : p[1] # k}
Keys(m) == {p[1] : p \in m}
Vals(m) == {p[2] : p \in m}

EmptyMembers == [v |-> {}, nv |-> {}, w |-> {}, rm |-> {}, ccid |-> 0]
RInit == [kv |-> {}, cnt |-> 0, sess |-> <<>>, mem |-> EmptyMembers, idx |-> 0, term |-> 0]

(* ------------------------------------------------------------ membership *)
Adds == {"AddNode", "AddNonVoting", "AddWitness"}

\* CODE: membership.handleConfigChange: the accept condition, rule by rule
CCAccept(m, cc, ordered) ==
  LET upToDate == ~ordered \/ cc.init \/ m.ccid = cc.ccid
      addRemoved == cc.typ \in Adds /\ cc.id \in m.rm
      promote == cc.typ = "AddNode" /\ Has(m.nv, cc.id) /\ Get(m.nv, cc.id) = cc.addr
      invalidPromotion == cc.typ = "AddNode" /\ Has(m.nv, cc.id) /\ Get(m.nv, cc.id) # cc.addr
      sameKind == \/ cc.typ = "AddNode" /\ Has(m.v, cc.id)
                  \/ cc.typ = "AddNonVoting" /\ Has(m.nv, cc.id)
                  \/ cc.typ = "AddWitness" /\ Has(m.w, cc.id)
      addrInUse == cc.typ \in Adds /\ cc.addr \in (Vals(m.v) \cup Vals(m.nv) \cup Vals(m.w))
      alreadyMember == sameKind \/ (~promote /\ addrInUse)
      nodeToNonVoting == cc.typ = "AddNonVoting" /\ Has(m.v, cc.id)
      nodeToWitness == cc.typ = "AddWitness" /\ Has(m.v, cc.id)
      witnessToNode == cc.typ = "AddNode" /\ Has(m.w, cc.id)
      witnessToNonVoting == cc.typ = "AddNonVoting" /\ Has(m.w, cc.id)
      nonVotingToWitness == cc.typ = "AddWitness" /\ Has(m.nv, cc.id)
      deleteOnly == cc.typ = "RemoveNode" /\ Cardinality(m.v) = 1 /\ Has(m.v, cc.id)
  IN upToDate /\ ~addRemoved /\ ~alreadyMember /\ ~nodeToNonVoting /\ ~nodeToWitness
     /\ ~witnessToNode /\ ~witnessToNonVoting /\ ~nonVotingToWitness /\ ~deleteOnly
     /\ ~invalidPromotion

\* CODE: membership.apply
CCDo(m, cc, index) ==
  LET m0 == [m EXCEPT !.ccid = index] IN
  CASE cc.typ = "AddNode" -> [m0 EXCEPT !.nv = Del(@, cc.id), !.v = Put(@, cc.id, cc.addr)]
    [] cc.typ = "AddNonVoting" -> [m0 EXCEPT !.nv = Put(@, cc.id, cc.addr)]
    [] cc.typ = "AddWitness" -> [m0 EXCEPT !.w = Put(@, cc.id, cc.addr)]
    [] cc.typ = "RemoveNode" -> [m0 EXCEPT !.v = Del(@, cc.id), !.nv = Del(@, cc.id), !.w = Del(@, cc.id),
                                           !.rm = @ \cup {cc.id}]

\* the statement-level properties of C07 about a membership value / a step
RemovedNeverMember(m) == m.rm \cap (Keys(m.v) \cup Keys(m.nv) \cup Keys(m.w)) = {}
KindsDisjointM(m) == Keys(m.v) \cap Keys(m.nv) = {} /\ Keys(m.v) \cap Keys(m.w) = {} /\ Keys(m.nv) \cap Keys(m.w) = {}
AddressUnique(m) == LET all == m.v \cup m.nv \cup m.w IN \A p, q \in all : p[2] = q[2] => p = q
OnlyPromotion(m, m2) == /\ Keys(m.v) \cap (Keys(m2.nv) \cup Keys(m2.w)) = {}
                        /\ Keys(m.w) \cap (Keys(m2.v) \cup Keys(m2.nv)) = {}
                        /\ Keys(m.nv) \cap Keys(m2.w) = {}
                        /\ m.rm \subseteq m2.rm
                        /\ \A p \in m.v : Has(m2.v, p[1]) => Get(m2.v, p[1]) = p[2]     \* address never changes
LastVoterStays(m, m2) == m.v # {} => m2.v # {}

(* --------------------------------------------------------------- sessions *)
SessPos(ss, c) == LET ps == {i \in 1..Len(ss) : ss[i].cid = c} IN IF ps = {} THEN 0 ELSE CHOOSE i \in ps : TRUE
RemoveAt(ss, i) == SubSeq(ss, 1, i - 1) \o SubSeq(ss, i + 1, Len(ss))
\* a lookup makes the session the most recently used one (end of the sequence)
Touch(ss, c) == LET i == SessPos(ss, c) IN IF i = 0 THEN ss ELSE Append(RemoveAt(ss, i), ss[i])
\* CODE: OrderedCache.add with ShouldEvict: evict least recently used while over the limit
RECURSIVE Evict(_, _)
Evict(ss, lru) == IF Len(ss) > lru THEN Evict(Tail(ss), lru) ELSE ss

\* CODE: Session.clearTo
ClearTo(s, to) == IF to <= s.resp THEN s
                  ELSE [s EXCEPT !.resp = to, !.hist = {p \in @ : p[1] > to}]

(* ------------------------------------------------------------ apply entry *)
NoCB == [called |-> FALSE, value |-> 0, rejected |-> FALSE, ignored |-> FALSE]
CB(v, rej, ign) == [called |-> TRUE, value |-> v, rejected |-> rej, ignored |-> ign]

\* e: [idx, term, kind, cid, series, resp, key, val, cc]; returns [st, cb]
ApplyEntry(r, e, lru, ordered) ==
  LET r0 == [r EXCEPT !.idx = e.idx, !.term = e.term] IN
  CASE e.kind = "noop" -> [st |-> r0, cb |-> CB(0, FALSE, TRUE)]
    [] e.kind = "cc" ->
         IF CCAccept(r.mem, e.cc, ordered)
           THEN [st |-> [r0 EXCEPT !.mem = CCDo(@, e.cc, e.idx)], cb |-> CB(0, FALSE, FALSE)]
           ELSE [st |-> r0, cb |-> CB(0, TRUE, FALSE)]
    [] e.kind = "reg" ->
         IF SessPos(r.sess, e.cid) # 0
           THEN [st |-> [r0 EXCEPT !.sess = Touch(@, e.cid)], cb |-> CB(0, TRUE, FALSE)]
           ELSE [st |-> [r0 EXCEPT !.sess = Evict(Append(@, [cid |-> e.cid, resp |-> 0, hist |-> {}]), lru)],
                 cb |-> CB(e.cid, FALSE, FALSE)]
    [] e.kind = "unreg" ->
         IF SessPos(r.sess, e.cid) = 0 THEN [st |-> r0, cb |-> CB(0, TRUE, FALSE)]
         ELSE [st |-> [r0 EXCEPT !.sess = RemoveAt(@, SessPos(@, e.cid))], cb |-> CB(e.cid, FALSE, FALSE)]
    [] e.kind = "prop" ->
         IF e.series = 0     \* NoOP session: no at-most-once bookkeeping
           THEN LET c == r.cnt + 1 IN
                [st |-> [r0 EXCEPT !.kv = Put(@, e.key, e.val), !.cnt = c], cb |-> CB(UserResult(c, e), FALSE, FALSE)]
           ELSE IF SessPos(r.sess, e.cid) = 0 THEN [st |-> r0, cb |-> CB(0, TRUE, FALSE)]    \* rejected, untouched
           ELSE LET ss1 == Touch(r.sess, e.cid)
                    n == Len(ss1)
                    s1 == ClearTo(ss1[n], e.resp)
                IN IF e.series <= s1.resp
                     THEN [st |-> [r0 EXCEPT !.sess = [ss1 EXCEPT ![n] = s1]], cb |-> NoCB]        \* acknowledged: ignored
                   ELSE IF Has(s1.hist, e.series)
                     THEN [st |-> [r0 EXCEPT !.sess = [ss1 EXCEPT ![n] = s1]],
                           cb |-> CB(Get(s1.hist, e.series), FALSE, FALSE)]                     \* retry: cached result
                   ELSE LET c == r.cnt + 1  res == UserResult(c, e) IN
                        [st |-> [r0 EXCEPT !.kv = Put(@, e.key, e.val), !.cnt = c,
                                           !.sess = [ss1 EXCEPT ![n] = [s1 EXCEPT !.hist = Put(@, e.series, res)]]],
                         cb |-> CB(res, FALSE, FALSE)]

\* the C07 statement-level properties of one apply step
MembershipStepOK(r, r2) ==
  /\ RemovedNeverMember(r2.mem) /\ KindsDisjointM(r2.mem) /\ AddressUnique(r2.mem)
  /\ OnlyPromotion(r.mem, r2.mem) /\ LastVoterStays(r.mem, r2.mem)
=============================================================================
