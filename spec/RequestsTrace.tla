--------------------------- MODULE RequestsTrace ---------------------------
(* Judges executions of the real pending-request tables (harness/root/rqsim_test.go):       *)
(* every value a client read from a result channel must be justified by Requests.tla for    *)
(* the request that owns the object at that moment (no cross-talk through pooling), a       *)
(* request never gets two terminal results or two Committed notifications, and after the    *)
(* shard was stopped and the clocks have run, every accepted request has exactly one.       *)
EXTENDS Requests, Json, TLC, SequencesExt

CONSTANT TraceFile
VARIABLES hh, reqs, nc, held, l, bad

Trace == ndJsonDeserialize(TraceFile)
vars == <<hh, reqs, nc, held, l, bad>>

FunSet(f, k, v) == [x \in DOMAIN f \cup {k} |-> IF x = k THEN v ELSE f[x]]
Flag(ev, what) == IF \E x \in bad : x[1] = ev.t /\ x[4] = {what} THEN bad ELSE bad \cup {<<ev.t, ev.i, ev.op, {what}>>}

NewReq(kind, ev) == [kind |-> kind, key |-> ev.key, cid |-> ev.cid, series |-> ev.series,
                     deadline |-> hh.tick + ev.to, oid |-> ev.oid, res |-> <<>>, ncomm |-> 0, abandoned |-> FALSE]

Init == hh = HInit /\ reqs = <<>> /\ nc = FALSE /\ held = {} /\ l = 1 /\ bad = {}

\* process the notes of one Poll in order; returns <<request', set of violations>>
RECURSIVE DoNotes(_, _, _, _, _)
DoNotes(q, rid, notes, k, acc) ==
  IF k > Len(notes) THEN <<q, acc>>
  ELSE LET n == notes[k] IN
       IF n.comm
         THEN DoNotes([q EXCEPT !.ncomm = @ + 1], rid, notes, k + 1,
                      acc \cup (IF CommittedOK(hh, q, nc) THEN {} ELSE {"CommittedNotJustified"}))
         ELSE DoNotes([q EXCEPT !.res = Append(@, <<n.code, n.value>>)], rid, notes, k + 1,
                      acc \cup (IF Len(q.res) = 0 THEN {} ELSE {"SecondTerminalResult"})
                          \cup (IF Justified(hh, q, rid, n.code, n.value) THEN {} ELSE {"ResultNotJustified_" \o n.code}))

Next ==
  /\ l <= Len(Trace)
  /\ l' = l + 1
  /\ LET ev == Trace[l] IN
     CASE ev.op = "Init" -> hh' = HInit /\ reqs' = <<>> /\ nc' = ev.nc /\ held' = {} /\ bad' = bad
       [] ev.op = "Panic" -> bad' = Flag(ev, "Panic: " \o ev.msg) /\ UNCHANGED <<hh, reqs, nc, held>>
       [] ev.op \in {"Propose", "Read", "CCRequest", "SSRequest", "LQAdd"} ->
            /\ reqs' = IF ev.err = "" THEN FunSet(reqs, ev.rid,
                          NewReq(CASE ev.op = "Propose" -> "prop" [] ev.op = "Read" -> "read" [] ev.op = "CCRequest" -> "cc"
                                   [] ev.op = "SSRequest" -> "ss" [] ev.op = "LQAdd" -> "lq", ev))
                       ELSE reqs
            /\ UNCHANGED <<hh, nc, held, bad>>
       [] ev.op = "Tick" -> hh' = [hh EXCEPT !.tick = ev.n] /\ UNCHANGED <<reqs, nc, held, bad>>
       [] ev.op = "Applied" -> hh' = [hh EXCEPT !.appl = @ \cup {<<ev.key, ev.cid, ev.series, ev.val, ev.flag>>}] /\ UNCHANGED <<reqs, nc, held, bad>>
       [] ev.op = "Dropped" -> hh' = [hh EXCEPT !.drop = @ \cup {<<ev.key, ev.cid, ev.series>>}] /\ UNCHANGED <<reqs, nc, held, bad>>
       [] ev.op = "Committed" -> hh' = [hh EXCEPT !.comm = @ \cup {<<ev.key, ev.cid, ev.series>>}] /\ UNCHANGED <<reqs, nc, held, bad>>
       [] ev.op = "RIGet" -> held' = ToSet(ev.rids) /\ UNCHANGED <<hh, reqs, nc, bad>>
       [] ev.op = "RIAdd" -> hh' = [hh EXCEPT !.batch = @ \cup {<<ev.ctx, r>> : r \in held}] /\ held' = {} /\ UNCHANGED <<reqs, nc, bad>>
       [] ev.op = "RIReady" -> hh' = [hh EXCEPT !.ready = @ \cup {<<ev.ctx, ev.n>>}] /\ UNCHANGED <<reqs, nc, held, bad>>
       [] ev.op = "RIApplied" -> hh' = [hh EXCEPT !.riappl = @ \cup {ev.n}] /\ UNCHANGED <<reqs, nc, held, bad>>
       [] ev.op = "RIDropped" -> hh' = [hh EXCEPT !.ridrop = @ \cup {ev.ctx}] /\ UNCHANGED <<reqs, nc, held, bad>>
       [] ev.op = "CCApply" -> hh' = [hh EXCEPT !.ccappl = @ \cup {<<ev.key, ev.flag>>}] /\ UNCHANGED <<reqs, nc, held, bad>>
       [] ev.op = "CCDropped" -> hh' = [hh EXCEPT !.ccdrop = @ \cup {ev.key}] /\ UNCHANGED <<reqs, nc, held, bad>>
       [] ev.op = "CCCommitted" -> hh' = [hh EXCEPT !.cccomm = @ \cup {ev.key}] /\ UNCHANGED <<reqs, nc, held, bad>>
       [] ev.op = "SSApply" -> hh' = [hh EXCEPT !.ssappl = @ \cup {<<ev.key, ev.flag, ev.flag2, ev.val>>}] /\ UNCHANGED <<reqs, nc, held, bad>>
       [] ev.op = "LQReturned" -> hh' = [hh EXCEPT !.lqret = @ \cup {ev.flag}] /\ UNCHANGED <<reqs, nc, held, bad>>
       [] ev.op \in {"Close_ri", "Close_prop", "Close_cc", "Close_ss", "Close_lq"} ->
            hh' = [hh EXCEPT !.closed = @ \cup {SubSeq(ev.op, 7, Len(ev.op))}] /\ UNCHANGED <<reqs, nc, held, bad>>
       [] ev.op = "Poll" ->
            IF ev.rid \notin DOMAIN reqs
              THEN bad' = (IF Len(ev.notes) = 0 THEN bad ELSE Flag(ev, "ResultOnUnacceptedObject")) /\ UNCHANGED <<hh, reqs, nc, held>>
              ELSE LET r == DoNotes(reqs[ev.rid], ev.rid, ev.notes, 1, {}) IN
                   /\ reqs' = [reqs EXCEPT ![ev.rid] = r[1]]
                   /\ bad' = IF r[2] = {} THEN bad ELSE Flag(ev, CHOOSE w \in r[2] : TRUE)
                   /\ UNCHANGED <<hh, nc, held>>
       [] ev.op = "Release" ->
            \* a request released before its result was read gave its result up
            /\ reqs' = IF ev.rel /\ ev.rid \in DOMAIN reqs /\ Len(reqs[ev.rid].res) = 0
                         THEN [reqs EXCEPT ![ev.rid].abandoned = TRUE] ELSE reqs
            /\ UNCHANGED <<hh, nc, held, bad>>
       [] ev.op = "Final" ->
            LET missing == {r \in DOMAIN reqs : Len(reqs[r].res) = 0 /\ ~reqs[r].abandoned} IN
            /\ bad' = IF missing = {} THEN bad ELSE Flag(ev, "NoResult_" \o reqs[CHOOSE r \in missing : TRUE].kind)
            /\ UNCHANGED <<hh, reqs, nc, held>>
       [] ev.op = "Stress" ->
            \* real goroutines racing Propose / ReadIndex against the stop of the shard: once everybody
            \* has returned, no accepted request may be without its terminal result
            /\ bad' = IF ev.val > 0 THEN Flag(ev, "NoResult_proposal_accepted_while_closing")
                      ELSE IF ev.to > 0 THEN Flag(ev, "NoResult_read_accepted_while_closing") ELSE bad
            /\ UNCHANGED <<hh, reqs, nc, held>>
       [] OTHER -> UNCHANGED <<hh, reqs, nc, held, bad>>

Spec == Init /\ [][Next]_vars
Report == IF l = Len(Trace) + 1 THEN PrintT(<<"RQ-REPORT", Len(Trace), bad>>) ELSE TRUE
=============================================================================
