---------------------------- MODULE MemberTrace ----------------------------
(* C07 on real NodeHosts (nhsim, mode member): every membership request issued through the  *)
(* public API is judged with the rule table of RSM.tla (CCAccept / CCDo), and every          *)
(* membership reported by any running host must be the specification's membership.          *)
EXTENDS RSM, Json, TLC

CONSTANT TraceFile
VARIABLES m,        \* the specification's membership
          sure,     \* FALSE while a request with unknown outcome may or may not have been applied
          late,     \* requests with unknown outcome (timed out at the client): may still be applied later
          l, bad, cnt
Trace == ndJsonDeserialize(TraceFile)
vars == <<m, sure, late, l, bad, cnt>>
Flag(ev, what, detail) == bad \cup {<<ev.t, ev.i, what, detail>>}
PairSet(ps) == {<<ps[k].id, ps[k].addr>> : k \in 1..Len(ps)}
SetOf(s) == {s[k] : k \in 1..Len(s)}
Observed(ev) == [v |-> PairSet(ev.nodes), nv |-> PairSet(ev.nonvotings), w |-> PairSet(ev.witnesses),
                 rm |-> SetOf(ev.removed), ccid |-> ev.ccid]
CCOf(ev) == [typ |-> ev.typ, id |-> ev.id, addr |-> ev.addr, ccid |-> ev.ccid, init |-> FALSE]
Same(a, b) == a.v = b.v /\ a.nv = b.nv /\ a.w = b.w /\ a.rm = b.rm

Init == m = EmptyMembers /\ sure = FALSE /\ late = {} /\ l = 1 /\ bad = {}
        /\ cnt = [requests |-> 0, accepted |-> 0, rejected |-> 0, unknown |-> 0, observations |-> 0]

Next ==
  /\ l <= Len(Trace)
  /\ l' = l + 1
  /\ LET ev == Trace[l] IN
     CASE ev.ev = "Init" -> m' = EmptyMembers /\ sure' = FALSE /\ late' = {} /\ UNCHANGED <<bad, cnt>>
       [] ev.ev = "Panic" -> bad' = Flag(ev, "Panic", {ev.msg}) /\ UNCHANGED <<m, sure, late, cnt>>
       [] ev.ev = "Members" ->
            \* the first observation (and the first after an unknown outcome) defines the state
            /\ m' = Observed(ev)
            /\ sure' = TRUE
            /\ late' = {cc \in late : ~Same(CCDo(m, cc, m.ccid), Observed(ev))}
            /\ bad' = IF sure /\ ~Same(m, Observed(ev)) /\ ~(\E cc \in late : Same(CCDo(m, cc, m.ccid), Observed(ev)))
                        THEN Flag(ev, "membership_differs_from_rule_table", {ev.h})
                      ELSE IF ~(RemovedNeverMember(Observed(ev)) /\ KindsDisjointM(Observed(ev)) /\ AddressUnique(Observed(ev)))
                        THEN Flag(ev, "malformed_membership", {ev.h}) ELSE bad
            /\ cnt' = [cnt EXCEPT !.observations = @ + 1]
       [] ev.ev = "CC" /\ sure ->
            LET cc == CCOf(ev)
                acc == CCAccept(m, cc, ev.ordered)
            IN
            /\ cnt' = [cnt EXCEPT !.requests = @ + 1, !.accepted = @ + (IF ev.out = "ok" THEN 1 ELSE 0),
                                  !.rejected = @ + (IF ev.out = "rejected" THEN 1 ELSE 0),
                                  !.unknown = @ + (IF ev.out \notin {"ok", "rejected", "refused"} THEN 1 ELSE 0)]
            /\ IF ev.out = "ok"
                 THEN /\ bad' = IF acc THEN bad ELSE Flag(ev, "accepted_a_change_the_rules_refuse", {ev.typ, ToString(ev.id)})
                      /\ m' = CCDo(m, cc, m.ccid) /\ sure' = sure /\ late' = late    \* the new ccid is learned from the next observation
               ELSE IF ev.out = "rejected"
                 THEN /\ bad' = IF ~acc THEN bad ELSE Flag(ev, "rejected_a_change_the_rules_accept", {ev.typ, ToString(ev.id)})
                      /\ UNCHANGED <<m, sure, late>>
               ELSE IF ev.out = "refused" THEN UNCHANGED <<m, sure, late, bad>>
               ELSE /\ sure' = FALSE /\ late' = late \cup {cc} /\ UNCHANGED <<m, bad>>
       [] OTHER -> UNCHANGED <<m, sure, late, bad, cnt>>

Spec == Init /\ [][Next]_vars
Report == IF l = Len(Trace) + 1 THEN PrintT(<<"MB-REPORT", Len(Trace), bad>>) /\ PrintT(<<"MB-COUNT", cnt>>) ELSE TRUE
=============================================================================
