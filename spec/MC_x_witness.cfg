SPECIFICATION Spec
CONSTANTS
  Replica = {1, 2, 3}
  InitVoters = {1, 2}
  ET = 5
  HT = 1
  PreVote = FALSE
  CheckQuorum = FALSE
  MaxTerm = 2
  MaxLen = 4
  MaxMsgs = 2
  MaxDup = 0
  MaxCrash = 0
  MaxProp = 0
  MaxRead = 0
  MaxCC = 1
  MaxSnap = 0
  CCChoices <- CCAddW3
  JoinKind <- Join3W
  Eager = TRUE
  G <- GAll
  TrackEvidence = FALSE
CONSTRAINT Bounded
INVARIANT Safety
CHECK_DEADLOCK FALSE
