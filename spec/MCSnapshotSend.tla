---------------------------- MODULE MCSnapshotSend ----------------------------
EXTENDS SnapshotSend, TLC
CONSTANTS N, Cap
VARIABLES j, up
vars == <<j, up>>
Init == /\ up \in BOOLEAN /\ \E streaming \in BOOLEAN, refused \in BOOLEAN : j = JInit(N, streaming, refused)
\* a file snapshot has all its chunks queued by addSnapshot at once; a stream gets them one by one
Produce == /\ ~Ended(j) \/ j.st = "failed"
           /\ ~j.gaveup /\ j.produced < j.n /\ Len(j.ch) < Cap
           /\ \E c \in {j.produced + 1} \cup (IF j.streaming THEN {0} ELSE {}) : j' = Receive(j, c, Cap)[2]
           /\ UNCHANGED up
DoConnect == j.st = "connecting" /\ j' = Connect(j, up) /\ UNCHANGED up
DoSend == j.st = "processing" /\ Len(j.ch) > 0 /\ j' = SendOne(j, up) /\ UNCHANGED up
DoStop == j.st \in {"connecting", "processing"} /\ j' = Stop(j) /\ UNCHANGED up
Flip == up' = ~up /\ UNCHANGED j
Next == Produce \/ DoConnect \/ DoSend \/ DoStop \/ Flip
Spec == Init /\ [][Next]_vars /\ WF_vars(DoConnect) /\ WF_vars(DoSend) /\ WF_vars(Produce)
Inv == ExactlyOneReport(j) /\ NoReportBeforeEnd(j) /\ TruthfulReport(j)
\* a file transfer always ends (all chunks are queued up front); a stream ends when its producer finishes or gives up
=============================================================================
