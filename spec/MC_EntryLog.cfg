SPECIFICATION Spec
CONSTANTS
  MaxIndex = 5
  MaxTerm = 3
INVARIANT Inv
PROPERTY ReappendedIsResaved
CHECK_DEADLOCK FALSE
