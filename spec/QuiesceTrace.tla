---------------------------- MODULE QuiesceTrace ----------------------------
EXTENDS Quiesce, Json, TLC, Sequences
CONSTANT TraceFile
VARIABLES q, l, bad, drift
Trace == ndJsonDeserialize(TraceFile)
vars == <<q, l, bad, drift>>
Flag(ev, what) == bad \cup {<<ev.t, ev.i, ev.op, {what}>>}
Init == q = QInit(1, TRUE) /\ l = 1 /\ bad = {} /\ drift = {}
Exp(ev) == CASE ev.op = "Tick" -> QTick(q) [] ev.op = "Record" -> QRecord(q, ev.hb)
             [] ev.op = "TryEnter" -> QTryEnter(q) [] ev.op = "TakeFlag" -> QTakeFlag(q) [] OTHER -> ev.st
\* the lemmas of MCQuiesce on the observed step pre -> post
Lemmas(ev, pre, post) ==
  (IF ev.op = "Record" /\ ~ev.hb /\ Quiesced(post) THEN {"activity_did_not_end_quiesce"} ELSE {})
  \cup (IF ev.op = "Record" /\ ev.hb /\ Quiesced(pre) /\ ~NewToQuiesce(pre) /\ Quiesced(post) THEN {"heartbeat_did_not_wake_the_shard"} ELSE {})
  \cup (IF ev.op = "Tick" /\ post.enabled /\ ~Quiesced(post) /\ post.tick - post.idle > Threshold(post) THEN {"idle_shard_did_not_go_quiescent"} ELSE {})
  \cup (IF ev.op \in {"Tick", "TryEnter"} /\ ~Quiesced(pre) /\ Quiesced(post) /\ ~post.flag THEN {"entering_quiesce_not_announced"} ELSE {})
  \cup (IF ev.op = "TakeFlag" /\ ev.ret # pre.flag THEN {"flag_read_wrong"} ELSE {})
Next ==
  /\ l <= Len(Trace)
  /\ l' = l + 1
  /\ LET ev == Trace[l] IN
     IF ev.op = "Init" THEN q' = ev.st /\ UNCHANGED <<bad, drift>>
     ELSE /\ q' = ev.st
          /\ LET lm == Lemmas(ev, q, ev.st) IN
               bad' = IF lm = {} THEN bad ELSE bad \cup {<<ev.t, ev.i, ev.op, lm>>}
          /\ drift' = IF Exp(ev) = ev.st THEN drift ELSE drift \cup {<<ev.t, ev.i, ev.op, {"state"}>>}
Spec == Init /\ [][Next]_vars
Report == IF l = Len(Trace) + 1 THEN PrintT(<<"QS-REPORT", Len(Trace), bad>>) /\ PrintT(<<"QS-DRIFT", drift>>) ELSE TRUE
=============================================================================
