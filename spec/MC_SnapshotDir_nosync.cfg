SPECIFICATION MSpec
CONSTANTS
  MaxIdx = 3
  MaxCrash = 2
  SyncFileBeforeRename = FALSE
  SyncDirBeforeRecord = TRUE
  RecordBeforeUnflag = TRUE
INVARIANTS CrashWorthy CleanAfterRestart
