---------------------------- MODULE ClientHistory ----------------------------
(* The atomic object clients of a shard are promised (C01), and a linearizability checker   *)
(* for recorded histories written as a powerset construction over it.                       *)
(*                                                                                          *)
(* The object: a key/value register file.  write(k, v) stores v and returns the previous    *)
(* value of k; read(k) returns the value of k.  This is the sequential behaviour of the     *)
(* instrumented user state machine of nhsim (every write carries a fresh value, so the      *)
(* returned previous values chain the writes of a key together).                            *)
(*                                                                                          *)
(* A history is a sequence of Inv / Res events.  It is linearizable iff there is a          *)
(* behaviour of the atomic object with one internal Linearize step per effective operation, *)
(* placed between its Inv and its Res, that produces the recorded results.  An operation    *)
(* that ended without a result (Timeout / Dropped / Terminated / lost with a crashed host)  *)
(* may be linearized at any later point or never; an operation that was refused before it   *)
(* was accepted, or rejected, must never be linearized.                                     *)
(*                                                                                          *)
(* Instead of letting TLC search for that behaviour (a rejected history would then just     *)
(* "deadlock" somewhere), the checker carries the SET of all configurations of the atomic   *)
(* object that are consistent with the events consumed so far; the history is not           *)
(* linearizable exactly when the set becomes empty.  Two reductions keep the set small,     *)
(* both preserve the verdict:                                                               *)
(*  (lazy)     Linearize steps are only taken immediately before the response of an         *)
(*             operation that is not linearized yet.  Any linearization can be normalised   *)
(*             to this form: delay every linearization point until just before the first    *)
(*             recorded response of an operation that follows-or-equals it in the order.    *)
(*  (relevant) an operation without result is only linearized if it is a write whose value  *)
(*             is observed somewhere in the history: a write nobody observes can be         *)
(*             removed from any linearization (the first later operation on its key would   *)
(*             have observed it, unless that operation has no recorded result either).      *)
EXTENDS Integers, Sequences, FiniteSets

Keys == {"a", "b", "c"}
KV0 == [k \in Keys |-> ""]

\* a configuration: value of every key, operations invoked and not linearized, results of
\* operations linearized and not yet responded
Cfg0 == [kv |-> KV0, pend |-> {}, lind |-> {}]

ResultOf(c, o) == c.kv[o.k]
Apply(c, o) == [kv   |-> IF o.op = "w" THEN [c.kv EXCEPT ![o.k] = o.v] ELSE c.kv,
                pend |-> c.pend \ {o},
                lind |-> c.lind \cup {[id |-> o.id, res |-> ResultOf(c, o)]}]

Linearized(c, id) == \E x \in c.lind : x.id = id

\* rm: id -> [out, val] for every operation of the history that has a Res event;
\* obs: the values observed by some ok response of the history
MayLinearize(c, o, rm, obs) ==
  IF o.id \in DOMAIN rm
    THEN IF rm[o.id].out = "ok" THEN ResultOf(c, o) = rm[o.id].val      \* anything else is a dead end
         ELSE IF rm[o.id].out \in {"refused", "rejected"} THEN FALSE   \* never takes effect
         ELSE o.op = "w" /\ o.v \in obs
    ELSE o.op = "w" /\ o.v \in obs

Step(c, rm, obs) == {Apply(c, o) : o \in {p \in c.pend : MayLinearize(c, p, rm, obs)}}

\* all configurations in which operation id is linearized, reachable by Linearize steps
RECURSIVE Close(_, _, _, _)
Close(cs, id, rm, obs) ==
  LET done == {c \in cs : Linearized(c, id)}
      todo == cs \ done
  IN IF todo = {} THEN done
     ELSE done \cup Close(UNION {Step(c, rm, obs) : c \in todo}, id, rm, obs)

OnInv(cs, o) == {[c EXCEPT !.pend = @ \cup {o}] : c \in cs}

OnResOk(cs, id, val, rm, obs) ==
  {[c EXCEPT !.lind = {x \in @ : x.id # id}] :
     c \in {d \in Close(cs, id, rm, obs) : \E x \in d.lind : x.id = id /\ x.res = val}}

\* refused / rejected: the operation must not have taken effect
OnResNoEffect(cs, id) ==
  {[c EXCEPT !.pend = {p \in @ : p.id # id}] : c \in {d \in cs : ~Linearized(d, id)}}

\* no result: it stays pending only if it can still matter
OnResUnknown(cs, id, obs) ==
  {[c EXCEPT !.lind = {x \in @ : x.id # id},
             !.pend = {p \in @ : p.id # id \/ (p.op = "w" /\ p.v \in obs)}] : c \in cs}
=============================================================================
