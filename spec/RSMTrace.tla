------------------------------ MODULE RSMTrace ------------------------------
(* Validation of executions of real rsm.StateMachine instances (harness/rsm/smsim_test.go)  *)
(* against RSM.tla: every callback (result value, rejected, ignored, or no callback at all) *)
(* and every projected state (user data, Update-call count, sessions in LRU order with      *)
(* their cached results, membership, index, term) must be the one RSM.tla computes; a       *)
(* state recovered from a snapshot must equal the state that was saved; the statement-level *)
(* membership properties must hold on every observed step.                                  *)
EXTENDS RSM, Json, TLC, SequencesExt

CONSTANT TraceFile
VARIABLES sms,    \* instance -> specification state
          cfgs,   \* instance -> [lru, ordered]
          snaps,  \* snapshot id -> saved specification state
          l, bad

Trace == ndJsonDeserialize(TraceFile)
vars == <<sms, cfgs, snaps, l, bad>>

PairsOf(q) == {<<q[i][1], q[i][2]>> : i \in 1..Len(q)}
AddrsOf(q) == {<<q[i].id, q[i].addr>> : i \in 1..Len(q)}
StateOf(j) ==
  [kv |-> PairsOf(j.kv), cnt |-> j.cnt,
   sess |-> [i \in 1..Len(j.sess) |-> [cid |-> j.sess[i].cid, resp |-> j.sess[i].resp, hist |-> PairsOf(j.sess[i].hist)]],
   mem |-> [v |-> AddrsOf(j.mem.v), nv |-> AddrsOf(j.mem.nv), w |-> AddrsOf(j.mem.w), rm |-> ToSet(j.mem.rm), ccid |-> j.mem.ccid],
   idx |-> j.idx, term |-> j.term]

FunSet(f, k, v) == [x \in DOMAIN f \cup {k} |-> IF x = k THEN v ELSE f[x]]
OpName(ev) == IF ev.op = "Apply" THEN "Apply_" \o ev.e.kind ELSE ev.op
\* the first violation of each operation class per trace is recorded
Flag(ev, what) == IF \E x \in bad : x[1] = ev.t /\ x[3] = OpName(ev) THEN bad
                  ELSE bad \cup {<<ev.t, ev.i, OpName(ev), what>>}

Init == sms = <<>> /\ cfgs = <<>> /\ snaps = <<>> /\ l = 1 /\ bad = {}

Next ==
  /\ l <= Len(Trace)
  /\ l' = l + 1
  /\ LET ev == Trace[l] IN
     CASE ev.op = "Init" -> sms' = <<>> /\ cfgs' = <<>> /\ snaps' = <<>> /\ bad' = bad
       [] ev.op = "Panic" -> bad' = Flag(ev, {ev.msg}) /\ UNCHANGED <<sms, cfgs, snaps>>
       [] ev.op = "New" ->
            /\ sms' = FunSet(sms, ev.sm, RInit)
            /\ cfgs' = FunSet(cfgs, ev.sm, [lru |-> ev.lru, ordered |-> ev.ordered])
            /\ UNCHANGED <<snaps, bad>>
       [] ev.op = "Apply" ->
            LET r == sms[ev.sm]
                res == ApplyEntry(r, ev.e, cfgs[ev.sm].lru, cfgs[ev.sm].ordered)
                okcb == res.cb = ev.cb
                okst == ~ev.hasst \/ StateOf(ev.st) = res.st
                okmem == MembershipStepOK(r, res.st) /\ (ev.hasst => MembershipStepOK(r, StateOf(ev.st)))
            IN /\ sms' = [sms EXCEPT ![ev.sm] = IF ev.hasst THEN StateOf(ev.st) ELSE res.st]
               /\ bad' = IF okcb /\ okst /\ okmem THEN bad
                         ELSE Flag(ev, (IF okcb THEN {} ELSE {"callback"}) \cup (IF okmem THEN {} ELSE {"membership"})
                                       \cup (IF okst THEN {} ELSE {f \in DOMAIN res.st : res.st[f] # StateOf(ev.st)[f]}))
               /\ UNCHANGED <<cfgs, snaps>>
       [] ev.op = "Save" ->
            /\ snaps' = FunSet(snaps, ev.sid, sms[ev.sm])
            /\ bad' = IF StateOf(ev.st) = sms[ev.sm] THEN bad ELSE Flag(ev, {"save-changed-state"})
            /\ UNCHANGED <<sms, cfgs>>
       \* a snapshot taken while a batch was being applied: the driver places the event behind the Apply event
       \* of the index the snapshot is labelled with; what it holds must be the state at that index
       [] ev.op = "SaveAt" ->
            /\ snaps' = FunSet(snaps, ev.sid, sms[ev.sm])
            /\ UNCHANGED <<sms, cfgs, bad>>
       [] ev.op = "Recover" ->
            LET want == snaps[ev.sid] got == StateOf(ev.st) IN
            /\ sms' = [sms EXCEPT ![ev.sm] = got]
            /\ bad' = IF got = want THEN bad ELSE Flag(ev, {f \in DOMAIN want : want[f] # got[f]})
            /\ UNCHANGED <<cfgs, snaps>>

Spec == Init /\ [][Next]_vars
Report == IF l = Len(Trace) + 1 THEN PrintT(<<"SM-REPORT", Len(Trace), bad>>) ELSE TRUE
=============================================================================
