--------------------------- MODULE RateLimitTrace ---------------------------
EXTENDS RateLimit, Json, TLC, Sequences
CONSTANT TraceFile
VARIABLES r, l, bad, drift
Trace == ndJsonDeserialize(TraceFile)
vars == <<r, l, bad, drift>>
StOf(st) == [max |-> st.max, size |-> st.size,
             fol |-> [id \in {st.fol[k].id : k \in 1..Len(st.fol)} |->
                        LET k == CHOOSE k \in 1..Len(st.fol) : st.fol[k].id = id IN [tick |-> st.fol[k].tick, sz |-> st.fol[k].sz]],
             tick |-> st.tick, tickLimited |-> st.tickLimited, limited |-> st.limited]
Init == r = RInit(0) /\ l = 1 /\ bad = {} /\ drift = {}
Exp(ev) == CASE ev.op = "Tick" -> RTick(r) [] ev.op = "Set" -> RSet(r, ev.sz)
             [] ev.op = "Follower" -> RSetFollower(r, ev.id, ev.sz) [] ev.op = "Reset" -> RReset(r)
             [] ev.op = "RateLimited" -> RRateLimited(r) [] OTHER -> StOf(ev.st)
Lemmas(ev, pre, post) ==
  IF ev.op # "RateLimited" THEN {}
  ELSE (IF ev.ret # post.limited THEN {"answer_differs_from_state"} ELSE {})
       \cup (IF ~Enabled(pre) /\ ev.ret THEN {"limited_although_disabled"} ELSE {})
       \cup (IF ~pre.limited /\ post.limited /\ ~(MaxInMem(pre) > pre.max) THEN {"limited_without_cause"} ELSE {})
       \cup (IF pre.limited /\ MaxInMem(pre) < (pre.max * 7) \div 10 /\ pre.tick - pre.tickLimited > ChangeTickThreshold /\ post.limited
               THEN {"rate_limit_not_released"} ELSE {})
Next ==
  /\ l <= Len(Trace)
  /\ l' = l + 1
  /\ LET ev == Trace[l] st == StOf(ev.st) IN
     IF ev.op = "Init" THEN r' = st /\ UNCHANGED <<bad, drift>>
     ELSE /\ r' = st
          /\ LET lm == Lemmas(ev, r, st) IN bad' = IF lm = {} THEN bad ELSE bad \cup {<<ev.t, ev.i, ev.op, lm>>}
          /\ drift' = IF Exp(ev) = st THEN drift ELSE drift \cup {<<ev.t, ev.i, ev.op, {"state"}>>}
Spec == Init /\ [][Next]_vars
Report == IF l = Len(Trace) + 1 THEN PrintT(<<"RL-REPORT", Len(Trace), bad>>) /\ PrintT(<<"RL-DRIFT", drift>>) ELSE TRUE
=============================================================================
