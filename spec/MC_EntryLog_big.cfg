SPECIFICATION Spec
CONSTANTS
  MaxIndex = 6
  MaxTerm = 3
INVARIANT Inv
PROPERTY ReappendedIsResaved
CHECK_DEADLOCK FALSE
