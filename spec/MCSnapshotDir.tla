--------------------------- MODULE MCSnapshotDir ---------------------------
(* Exhaustive model of the snapshot directory: save / receive / compact sequences step by   *)
(* step with a power loss between any two file-system steps, and the start-up cleanup.      *)
EXTENDS SnapshotDir

(* The model.                                                                               *)
CONSTANTS MaxIdx, MaxCrash,
          SyncFileBeforeRename,   \* SnapshotWriter.Close syncs the file before FinalizeSnapshot
          SyncDirBeforeRecord,    \* renameToFinalDir syncs the root before the log store records the snapshot
          RecordBeforeUnflag      \* the flag file is removed only after the record is durable

VARIABLES vol, dur, rec,
          sv,      \* local save:  [pc, idx]
          rv,      \* receive from the leader: [pc, idx]
          phase,   \* "up" | "down" (after a power loss, cleanup running at restart)
          crashes

mvars == <<vol, dur, rec, sv, rv, phase, crashes>>

Idle == [pc |-> "idle", idx |-> 0]
TmpKind(p) == IF p = "sv" THEN "gen" ELSE "recv"

MInit == /\ vol = {} /\ dur = {} /\ rec = 0 /\ sv = Idle /\ rv = Idle /\ phase = "up" /\ crashes = 0

Find(L, kind, idx) == {e \in L : e.kind = kind /\ e.index = idx}
Upd(L, kind, idx, f(_)) == {IF e.kind = kind /\ e.index = idx THEN f(e) ELSE e : e \in L}

\* one step of the save (p = "sv") or receive (p = "rv") sequence; st is that process' state
SeqStep(p, st, st2) ==
  LET k == TmpKind(p) IN
  CASE st.pc = "idle" ->
         \* Save: CreateTempDir (mkdir + sync of the root); Receive: first chunk
         \E i \in (rec + 1)..MaxIdx :
           /\ Find(vol, k, i) = {}
           /\ st2 = [pc |-> "dir", idx |-> i]
           /\ vol' = vol \cup {Entry(k, i, FALSE, "none", FALSE)}
           /\ dur' = dur \cup {Entry(k, i, FALSE, "none", FALSE)}
           /\ UNCHANGED rec
    [] st.pc = "dir" ->
         \* the snapshot file is written (not synced yet)
         /\ st2 = [st EXCEPT !.pc = "written"]
         /\ vol' = Upd(vol, k, st.idx, LAMBDA e : [e EXCEPT !.file = "ok"])
         /\ dur' = Upd(dur, k, st.idx, LAMBDA e : [e EXCEPT !.file = "bad"])
         /\ UNCHANGED rec
    [] st.pc = "written" ->
         \* SnapshotWriter.Close: file sync + directory sync
         /\ st2 = [st EXCEPT !.pc = "synced"]
         /\ dur' = IF SyncFileBeforeRename THEN Upd(dur, k, st.idx, LAMBDA e : [e EXCEPT !.file = "ok"]) ELSE dur
         /\ UNCHANGED <<vol, rec>>
    [] st.pc = "synced" ->
         \* SaveSSMetadata + createFlagFile (both sync file and directory)
         /\ st2 = [st EXCEPT !.pc = "flagged"]
         /\ vol' = Upd(vol, k, st.idx, LAMBDA e : [e EXCEPT !.meta = TRUE, !.flag = TRUE])
         /\ dur' = Upd(dur, k, st.idx, LAMBDA e : [e EXCEPT !.meta = TRUE, !.flag = TRUE])
         /\ UNCHANGED rec
    [] st.pc = "flagged" ->
         \* FinalizeSnapshot under finalizeLock: out of date if the final directory exists
         IF Find(vol, "final", st.idx) # {}
           THEN /\ st2 = Idle
                /\ vol' = vol \ Find(vol, k, st.idx) /\ dur' = dur \ Find(dur, k, st.idx)
                /\ UNCHANGED rec
           ELSE /\ st2 = [st EXCEPT !.pc = "renamed"]
                /\ vol' = Upd(vol, k, st.idx, LAMBDA e : [e EXCEPT !.kind = "final"])
                /\ UNCHANGED <<dur, rec>>
    [] st.pc = "renamed" ->
         \* SyncDir(root): the rename is durable
         /\ st2 = [st EXCEPT !.pc = "final"]
         /\ dur' = IF SyncDirBeforeRecord THEN Upd(dur, k, st.idx, LAMBDA e : [e EXCEPT !.kind = "final"]) ELSE dur
         /\ UNCHANGED <<vol, rec>>
    [] st.pc = "final" ->
         \* snapshotter.saveSnapshot / SaveRaftState: the log store records the snapshot (atomic, durable)
         /\ st2 = [st EXCEPT !.pc = IF RecordBeforeUnflag THEN "recorded" ELSE "done"]
         /\ rec' = IF st.idx > rec THEN st.idx ELSE rec
         /\ UNCHANGED <<vol, dur>>
    [] st.pc = "recorded" ->
         \* RemoveFlagFile
         /\ st2 = Idle
         /\ vol' = Upd(vol, "final", st.idx, LAMBDA e : [e EXCEPT !.flag = FALSE])
         /\ dur' = Upd(dur, "final", st.idx, LAMBDA e : [e EXCEPT !.flag = FALSE])
         /\ UNCHANGED rec
    [] st.pc = "done" -> st2 = Idle /\ UNCHANGED <<vol, dur, rec>>

\* the mutated order of the last two steps: flag removed first, record afterwards
UnflagEarly(st, st2) ==
  /\ ~RecordBeforeUnflag /\ st.pc = "final"
  /\ st2 = [st EXCEPT !.pc = "unflagged"]
  /\ vol' = Upd(vol, "final", st.idx, LAMBDA e : [e EXCEPT !.flag = FALSE])
  /\ dur' = Upd(dur, "final", st.idx, LAMBDA e : [e EXCEPT !.flag = FALSE])
  /\ UNCHANGED rec
RecordLate(st, st2) ==
  /\ st.pc = "unflagged" /\ st2 = Idle /\ rec' = (IF st.idx > rec THEN st.idx ELSE rec) /\ UNCHANGED <<vol, dur>>

SaveStep == /\ phase = "up"
            /\ \E s2 \in [pc : {"idle", "dir", "written", "synced", "flagged", "renamed", "final", "recorded", "done", "unflagged"}, idx : 0..MaxIdx] :
                 /\ (IF ~RecordBeforeUnflag /\ sv.pc = "final" THEN UnflagEarly(sv, s2)
                     ELSE IF sv.pc = "unflagged" THEN RecordLate(sv, s2) ELSE SeqStep("sv", sv, s2))
                 /\ sv' = s2
            /\ UNCHANGED <<rv, phase, crashes>>
RecvStep == /\ phase = "up"
            /\ \E s2 \in [pc : {"idle", "dir", "written", "synced", "flagged", "renamed", "final", "recorded", "done", "unflagged"}, idx : 0..MaxIdx] :
                 /\ (IF ~RecordBeforeUnflag /\ rv.pc = "final" THEN UnflagEarly(rv, s2)
                     ELSE IF rv.pc = "unflagged" THEN RecordLate(rv, s2) ELSE SeqStep("rv", rv, s2))
                 /\ rv' = s2
            /\ UNCHANGED <<sv, phase, crashes>>

\* snapshotter.Compact: an older, complete snapshot directory is removed (RemoveAll + SyncDir)
Compact == /\ phase = "up"
           /\ \E e \in vol : /\ e.kind = "final" /\ ~e.flag /\ e.index < rec
                             /\ vol' = vol \ {e} /\ dur' = dur \ {x \in dur : x.kind = "final" /\ x.index = e.index}
           /\ UNCHANGED <<rec, sv, rv, phase, crashes>>

\* power loss: everything that was not made durable is gone, every sequence stops
Crash == /\ crashes < MaxCrash /\ crashes' = crashes + 1
         /\ vol' = dur /\ sv' = Idle /\ rv' = Idle /\ phase' = "down"
         /\ UNCHANGED <<dur, rec>>

\* processOrphans, one directory at a time (RemoveAll / RemoveFlagFile sync the directory)
Cleanup == /\ phase = "down"
           /\ IF NeedsCleanup(vol, rec) = {}
                THEN phase' = "up" /\ UNCHANGED <<vol, dur>>
                ELSE \E e \in NeedsCleanup(vol, rec) :
                       /\ vol' = CleanupOne(vol, rec, e) /\ dur' = CleanupOne(dur, rec, e) /\ UNCHANGED phase
           /\ UNCHANGED <<rec, sv, rv, crashes>>

MNext == SaveStep \/ RecvStep \/ Compact \/ Crash \/ Cleanup
MSpec == MInit /\ [][MNext]_mvars

\* the durable image is what a power loss at this instant would leave
CrashWorthy == CrashLayout(dur, rec)
\* when the cleanup has finished (and nothing has started yet) the layout is clean
CleanAfterRestart == (phase = "down" /\ NeedsCleanup(vol, rec) = {}) => CleanLayout(vol, rec)
=============================================================================
