SPECIFICATION Spec
CONSTANTS
  W = {1, 2}
  MaxTasks = 5
  Concurrent = TRUE
  OnDisk = TRUE
  Ablate = {"recover_ignores_streams"}
INVARIANT Inv
PROPERTY Progress
PROPERTY Initialised
CHECK_DEADLOCK FALSE
