---------------------------- MODULE ImportTrace ----------------------------
(* Import.tla evaluated on the observations of real imports (nhsim, mode import): the real  *)
(* tools.ImportSnapshot on the real log store and file system of every listed host, real    *)
(* NodeHosts restarted on the result.                                                       *)
EXTENDS Import, Json, TLC

CONSTANT TraceFile
VARIABLES cur,    \* the case being observed
          l, bad, cnt
Trace == ndJsonDeserialize(TraceFile)
vars == <<cur, l, bad, cnt>>

Flag(ev, what, detail) == bad \cup {<<ev.t, ev.i, what, detail>>}
Fn(ps) == [r \in {ps[k].id : k \in 1..Len(ps)} |-> (CHOOSE k \in 1..Len(ps) : ps[k].id = r) ]
AddrFn(ps) == [r \in {ps[k].id : k \in 1..Len(ps)} |-> ps[CHOOSE k \in 1..Len(ps) : ps[k].id = r].addr]
SetOf(s) == {s[k] : k \in 1..Len(s)}
OldOf(ev) == [addrs |-> AddrFn(ev.old.addrs), nonvotings |-> AddrFn(ev.old.nonvotings),
              witnesses |-> AddrFn(ev.old.witnesses), removed |-> SetOf(ev.old.removed)]
NoCase == [set |-> FALSE]

Init == cur = NoCase /\ l = 1 /\ bad = {}
        /\ cnt = [cases |-> 0, accepted |-> 0, refused |-> 0, post |-> 0, proposals |-> 0]

Next ==
  /\ l <= Len(Trace)
  /\ l' = l + 1
  /\ LET ev == Trace[l] IN
     CASE ev.ev = "Init" -> cur' = NoCase /\ UNCHANGED <<bad, cnt>>
       [] ev.ev = "Panic" -> bad' = Flag(ev, "Panic", {ev.msg}) /\ UNCHANGED <<cur, cnt>>
       [] ev.ev = "ImportCase" ->
            /\ cur' = [set |-> TRUE, old |-> OldOf(ev), list |-> AddrFn(ev.list), name |-> ev.case]
            /\ cnt' = [cnt EXCEPT !.cases = @ + 1] /\ UNCHANGED bad
       [] ev.ev = "ImportResult" /\ cur.set ->
            LET why == Reasons(cur.old, cur.list, ev.h, ev.cfgaddr, ev.corrupt)
                exp == why = {}
            IN
            /\ bad' = IF ev.ok # exp
                        THEN Flag(ev, IF ev.ok THEN "accepted_an_import_that_must_be_refused" ELSE "refused_a_valid_import", why \cup {cur.name})
                      ELSE IF ~ev.ok /\ ~ev.unchanged
                        THEN Flag(ev, "refused_import_modified_existing_data", {cur.name})
                      ELSE bad
            /\ cnt' = [cnt EXCEPT !.accepted = @ + (IF ev.ok THEN 1 ELSE 0), !.refused = @ + (IF ev.ok THEN 0 ELSE 1)]
            /\ UNCHANGED cur
       [] ev.ev = "PostImport" /\ cur.set ->
            LET wrong ==
                  (IF ~ev.read THEN {"replica_not_readable_after_import"} ELSE
                    (IF AddrFn(ev.members) # PostMembers(cur.old, cur.list) THEN {"membership_is_not_the_given_list"} ELSE {})
                    \cup (IF Len(ev.nonvotings) + Len(ev.witnesses) > 0 THEN {"unexpected_nonvoting_or_witness"} ELSE {})
                    \cup (IF ~(PostRemoved(cur.old, cur.list) \subseteq SetOf(ev.removed)) THEN {"previous_member_not_recorded_as_removed"} ELSE {})
                    \cup (IF SetOf(ev.removed) \cap DOMAIN cur.list # {} THEN {"member_recorded_as_removed"} ELSE {})
                    \cup (IF ~ev.state_equal THEN {"state_differs_from_exported_state"} ELSE {}))
                  \cup (IF ~ev.leader THEN {"no_leader_after_import"} ELSE {})
            IN
            /\ bad' = IF wrong = {} THEN bad ELSE Flag(ev, "PostImport", wrong \cup {cur.name})
            /\ cnt' = [cnt EXCEPT !.post = @ + 1] /\ UNCHANGED cur
       \* a replica added right after the repair is brought up to date from the imported state: whatever it
       \* answers must be the exported state (not answering in time is not judged)
       [] ev.ev = "PostImportJoin" /\ cur.set ->
            /\ bad' = IF ev.read /\ ~ev.state_equal
                        THEN Flag(ev, "PostImport", {"replica_added_after_the_import_does_not_hold_the_exported_state", cur.name})
                        ELSE bad
            /\ UNCHANGED <<cur, cnt>>
       [] ev.ev = "PostImportProposal" /\ cur.set ->
            /\ bad' = IF ev.accepted /\ ev.visible THEN bad ELSE Flag(ev, "PostImport", {"new_proposal_not_accepted", cur.name})
            /\ cnt' = [cnt EXCEPT !.proposals = @ + 1] /\ UNCHANGED cur
       [] OTHER -> UNCHANGED <<cur, bad, cnt>>

Spec == Init /\ [][Next]_vars
Report == IF l = Len(Trace) + 1
            THEN PrintT(<<"IM-REPORT", Len(Trace), bad>>) /\ PrintT(<<"IM-COUNT", cnt>>)
            ELSE TRUE
=============================================================================
