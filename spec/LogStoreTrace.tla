--------------------------- MODULE LogStoreTrace ---------------------------
(* Validation of executions of the real log stores (harness/logdb/lssim_test.go) against   *)
(* LogStore.tla.  C09: every panel equals the specification's answer.  C10: after a crash  *)
(* in the middle of a save every replica shows either the state before or the state after  *)
(* that save (whole, never part of it), and everything acknowledged earlier; a save during *)
(* which an I/O error was injected either fails or is completely readable.                 *)
EXTENDS LogStore, Json, TLC, SequencesExt

CONSTANT TraceFile
VARIABLES st,     \* replica (position in the driver's list) -> store state
          alt,    \* replica -> alternative state allowed after an interrupted / failed save
          l, bad

Trace == ndJsonDeserialize(TraceFile)
vars == <<st, alt, l, bad>>
N == 3
Fresh == [k \in 0..(N - 1) |-> LSInit]

UpOf(j) == [ents |-> j.ents, hass |-> j.hass, st |-> j.st, ss |-> j.ss]
RECURSIVE ApplyUps(_, _, _)
ApplyUps(s, ups, i) == IF i > Len(ups) THEN s
                       ELSE ApplyUps([s EXCEPT ![ups[i].n] = SaveUpdate(@, UpOf(ups[i]))], ups, i + 1)

Flag(ev, what) == IF \E x \in bad : x[1] = ev.t /\ x[3] = ev.op THEN bad ELSE bad \cup {<<ev.t, ev.i, ev.op, what>>}

\* panels judged against the current state, or - where an alternative is pending - against either
PanelsOK(ps, s, a) == \A k \in 1..Len(ps) : PanelOK(ps[k], s[ps[k].n]) \/ PanelOK(ps[k], a[ps[k].n])
\* resolve alternatives with what was observed
Resolve(ps, s, a) == [k \in 0..(N - 1) |->
                        IF \E i \in 1..Len(ps) : ps[i].n = k /\ ~PanelOK(ps[i], s[k]) /\ PanelOK(ps[i], a[k])
                          THEN a[k] ELSE s[k]]
BadPanels(ps, s, a) == {ps[k].n : k \in {i \in 1..Len(ps) : ~(PanelOK(ps[i], s[ps[i].n]) \/ PanelOK(ps[i], a[ps[i].n]))}}

\* power loss: a hard state written by an update that only moved the commit index may have been lost;
\* the recovered one is then an earlier acknowledged hard state of the same term and vote (LogStore!soft)
PowerLoss(ev) == ev.op = "Recovered" \/ (ev.op \in {"Reopen", "Imported"} /\ ev.pl)
SoftenOK(s, ps) == [k \in 0..(N - 1) |->
                    LET I == {i \in 1..Len(ps) : ps[i].n = k /\ ps[i].rserr = "" /\ ps[i].st \in s[k].soft} IN
                    IF I # {} THEN [s[k] EXCEPT !.st = ps[CHOOSE i \in I : TRUE].st] ELSE s[k]]
Hard(s) == [k \in 0..(N - 1) |-> [s[k] EXCEPT !.soft = {}]]

Init == st = Fresh /\ alt = Fresh /\ l = 1 /\ bad = {}

Next ==
  /\ l <= Len(Trace)
  /\ l' = l + 1
  /\ LET ev == Trace[l] IN
     CASE ev.op = "Init" -> st' = Fresh /\ alt' = Fresh /\ bad' = bad
       [] ev.op = "Panic" -> bad' = Flag(ev, {ev.msg}) /\ UNCHANGED <<st, alt>>
       [] ev.op \in {"Save", "SaveWithInjectedError"} /\ ~ev.crashed ->
            LET post == ApplyUps(st, ev.ups, 1) IN
            IF ev.res = "ok"
              THEN /\ st' = post /\ alt' = post
                   /\ bad' = IF PanelsOK(ev.panels, post, post) THEN bad ELSE Flag(ev, BadPanels(ev.panels, post, post))
              ELSE \* the save reported a failure: before or after, decided by the next observation
                   /\ st' = st /\ alt' = post /\ bad' = bad
       [] ev.op = "SaveFailed" -> st' = st /\ alt' = ApplyUps(st, ev.ups, 1) /\ bad' = bad
       [] ev.op = "Save" /\ ev.crashed ->
            \* interrupted by a crash: per replica before or after, decided at "Recovered"
            st' = st /\ alt' = ApplyUps(st, ev.ups, 1) /\ bad' = bad
       \* the import itself: visible or not is decided by the observation that follows (it always follows)
       [] ev.op = "Import" ->
            /\ st' = (IF ev.crashed \/ ev.res # "ok" THEN st ELSE [st EXCEPT ![ev.n] = ImportRec(@, ev.idx, ev.val)])
            /\ alt' = [st EXCEPT ![ev.n] = ImportRec(@, ev.idx, ev.val)]
            /\ bad' = bad
       [] ev.op \in {"Recovered", "Reopen", "Query", "Imported"} ->
            LET s1 == IF PowerLoss(ev) THEN SoftenOK(st, ev.panels) ELSE st
                a1 == IF PowerLoss(ev) THEN SoftenOK(alt, ev.panels) ELSE alt
                r == Resolve(ev.panels, s1, a1)
                \* a replica whose data is gone altogether although the specification has some (flagged above):
                \* the driver continues with an empty replica, like a NodeHost would, and so does the judge
                gone == {k \in 0..(N - 1) : \E i \in 1..Len(ev.panels) :
                           ev.panels[i].n = k /\ ev.panels[i].rserr = "nosavedlog" /\ r[k].st # NoState}
                r2 == [k \in 0..(N - 1) |-> IF k \in gone THEN LSInit ELSE r[k]]
                \* only the replicas that were looked at are settled (an import interrupted by a power loss is followed
                \* by two observations: the importing replica, then the others)
                seen == {ev.panels[i].n : i \in 1..Len(ev.panels)}
                hard == [k \in 0..(N - 1) |-> IF k \in seen THEN [r2[k] EXCEPT !.soft = {}] ELSE r2[k]]
            IN /\ bad' = IF PanelsOK(ev.panels, s1, a1) THEN bad ELSE Flag(ev, BadPanels(ev.panels, s1, a1))
               /\ st' = (IF PowerLoss(ev) THEN hard ELSE r2)
               /\ alt' = (IF PowerLoss(ev) THEN hard ELSE r2)
       [] ev.op = "SaveSnapshot" ->
            LET post == [st EXCEPT ![ev.n] = SaveSnapshotRec(@, ev.idx)] IN
            /\ st' = post /\ alt' = post
            /\ bad' = IF ev.res = "ok" /\ PanelsOK(ev.panels, post, post) THEN bad ELSE Flag(ev, BadPanels(ev.panels, post, post))
       [] ev.op = "Remove" ->
            LET post == [st EXCEPT ![ev.n] = RemoveTo(@, ev.idx)] IN
            /\ st' = post /\ alt' = post
            /\ bad' = IF PanelsOK(ev.panels, post, post) THEN bad ELSE Flag(ev, BadPanels(ev.panels, post, post))
       [] ev.op = "RemoveNode" ->
            LET post == [st EXCEPT ![ev.n] = LSInit] IN
            /\ st' = post /\ alt' = post
            /\ bad' = IF PanelsOK(ev.panels, post, post) THEN bad ELSE Flag(ev, BadPanels(ev.panels, post, post))

Spec == Init /\ [][Next]_vars
Report == IF l = Len(Trace) + 1 THEN PrintT(<<"LS-REPORT", Len(Trace), bad>>) ELSE TRUE
=============================================================================
