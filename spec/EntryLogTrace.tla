--------------------------- MODULE EntryLogTrace ---------------------------
(* Validation of recorded executions of the real entryLog + LogReader (harness/logdb)      *)
(* against EntryLog.tla: after every operation every answer of the real objects must be    *)
(* the one EntryLog.tla defines for the logical log.                                       *)
EXTENDS EntryLog, Json, TLC, SequencesExt

CONSTANT TraceFile
VARIABLES e, l, bad

Trace == ndJsonDeserialize(TraceFile)
vars == <<e, l, bad>>

\* the panel logged after each operation, recomputed from the logical state
PanelOK(ev, s) ==
  LET p == ev.panel IN
  /\ p.last = Last(s)
  /\ p.first = First(s)
  /\ p.com = s.com
  /\ p.proc = s.proc
  /\ \A k \in 1..Len(p.terms) : p.terms[k][2] = TermOf(s, p.terms[k][1])
  /\ \A k \in 1..Len(p.ranges) :
       LET r == p.ranges[k] lo == r.lo hi == r.hi IN     \* [lo, hi)
       \* CODE: entryLog.entryRange: while a restored snapshot is pending and nothing was
       \* appended after it, every range query answers ErrCompacted (also the empty range)
       IF lo < First(s) \/ (s.snap # 0 /\ Len(s.lg) = 0) THEN r.err = "compacted"
       ELSE r.err = "" /\ r.ents = Ents(s, lo, hi - 1)
  /\ p.tosave = ToSave(s)
  /\ p.hasapply = HasToApply(s)
  /\ p.toapply = ToApply(s)
  /\ p.frozen    \* slices handed out earlier were not modified afterwards

Apply(ev, s) ==
  CASE ev.op = "Append" -> LAppend(s, ev.first, ev.ents)
    [] ev.op = "TryAppend" -> TryAppend(s, ev.prev, ev.pterm, ev.lcommit, ev.ents)
    [] ev.op = "CommitTo" -> CommitTo(s, ev.i)
    [] ev.op = "SaveCommit" -> SaveCommit(s, ev.i)
    [] ev.op = "Restore" -> Restore(s, ev.i, ev.term)
    [] ev.op = "Compact" -> Compact(s, ev.i)
    [] ev.op = "Resize" -> s
    [] ev.op = "Reopen" -> s

Init == e = ELInit /\ l = 1 /\ bad = {}

Next ==
  /\ l <= Len(Trace)
  /\ l' = l + 1
  /\ LET ev == Trace[l] IN
     IF ev.op = "Init" THEN e' = ELInit /\ bad' = bad
     ELSE IF ev.op = "Panic" THEN e' = e /\ bad' = bad \cup {<<ev.t, ev.i0, "Panic", {ev.msg}>>}
     \* the driver derives its operations from the answers of the real log: after a wrong answer the rest of
     \* the trace is not a sequence of operations the specification defines; the trace has its finding
     ELSE IF \E x \in bad : x[1] = ev.t THEN e' = e /\ bad' = bad
     ELSE LET s == Apply(ev, e) IN
          /\ e' = s
          /\ bad' = IF PanelOK(ev, s) /\ SavedIsPersisted(s) /\ ApplyAfterSaveAndCommit(s) /\ WellFormed(s)
                      THEN bad
                      ELSE IF \E x \in bad : x[1] = ev.t THEN bad
                      ELSE bad \cup {<<ev.t, ev.i0, ev.op,
                                       {f \in {"last", "first", "com", "proc", "tosave", "hasapply", "toapply"} :
                                          ev.panel[f] # (CASE f = "last" -> Last(s) [] f = "first" -> First(s)
                                                           [] f = "com" -> s.com [] f = "proc" -> s.proc
                                                           [] f = "tosave" -> ToSave(s) [] f = "hasapply" -> HasToApply(s)
                                                           [] f = "toapply" -> ToApply(s))}
                                       \cup (IF ev.panel.frozen THEN {} ELSE {"frozen"})
                                       \cup (IF SavedIsPersisted(s) THEN {} ELSE {"SavedIsPersisted"})
                                       \cup (IF ApplyAfterSaveAndCommit(s) THEN {} ELSE {"ApplyAfterSaveAndCommit"})>>}

Spec == Init /\ [][Next]_vars

Report == IF l = Len(Trace) + 1 THEN PrintT(<<"EL-REPORT", Len(Trace), bad>>) ELSE TRUE
=============================================================================
