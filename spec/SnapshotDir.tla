----------------------------- MODULE SnapshotDir -----------------------------
(* The snapshot directory of one replica (snapshotter.go, internal/server/snapshotenv.go,   *)
(* node.go doSave / recover, engine.go onSnapshotSaved, internal/transport/chunk.go) as a   *)
(* set of directory entries, with the distinction between what the running process sees     *)
(* (vol) and what survives a power loss (dur), the snapshot record kept in the log store,   *)
(* and the start-up cleanup (snapshotter.processOrphans).  Property C16.                    *)
(*                                                                                          *)
(* The layout predicates at the top are pure: SnapshotDirTrace.tla evaluates them on        *)
(* directory listings taken from real hosts after real crashes; MCSnapshotDir (below the     *)
(* line) explores the save / receive / compact sequences exhaustively with a power loss      *)
(* between any two file-system steps.                                                       *)
EXTENDS Integers, FiniteSets, Sequences

\* a directory entry of the snapshot root:
\*   kind  : "final" (snapshot-<index>), "gen" (<index>-<id>.generating), "recv" (.receiving)
\*   flag  : the flag file (dragonboat.snapshot.message) is present
\*   file  : "none" | "bad" (present, not a valid snapshot file) | "ok" | "shrunk"
\*   meta  : the metadata file is present (written for locally saved snapshots only; a received
\*           snapshot has none, so it is not part of "complete")
Entry(kind, index, flag, file, meta) == [kind |-> kind, index |-> index, flag |-> flag, file |-> file, meta |-> meta]
Valid(e) == e.file \in {"ok", "shrunk"}

\* after the start-up cleanup: only the recorded snapshot remains, complete, without flag
CleanLayout(L, rec) ==
  /\ \A e \in L : e.kind = "final" /\ ~e.flag /\ Valid(e) /\ e.index = rec
  /\ rec > 0 => \E e \in L : e.index = rec
\* the individual ways in which a layout can fail to be clean (for reporting)
Unclean(L, rec) ==
  (IF \E e \in L : e.kind # "final" THEN {"temporary_directory_left"} ELSE {})
  \cup (IF \E e \in L : e.kind = "final" /\ e.flag THEN {"orphan_with_flag_left"} ELSE {})
  \cup (IF \E e \in L : e.kind = "final" /\ ~e.flag /\ ~Valid(e) THEN {"incomplete_snapshot_left"} ELSE {})
  \cup (IF \E e \in L : e.kind = "final" /\ e.index # rec THEN {"unrecorded_snapshot_left"} ELSE {})
  \cup (IF rec > 0 /\ ~\E e \in L : e.kind = "final" /\ e.index = rec THEN {"recorded_snapshot_missing"} ELSE {})

\* at any instant, also right after a power loss and before the cleanup
CrashLayout(L, rec) ==
  /\ rec > 0 => \E e \in L : e.kind = "final" /\ e.index = rec /\ Valid(e)
  /\ \A e \in L : e.kind = "final" => Valid(e)        \* only complete directories are ever renamed
Uncrashworthy(L, rec) ==
  (IF rec > 0 /\ ~\E e \in L : e.kind = "final" /\ e.index = rec /\ Valid(e)
     THEN {"recorded_snapshot_not_on_disk"} ELSE {})
  \cup (IF \E e \in L : e.kind = "final" /\ ~Valid(e) THEN {"incomplete_final_directory"} ELSE {})

\* what processOrphans does with one entry
Orphan(e) == e.kind = "final" /\ e.flag
Zombie(e) == e.kind \in {"gen", "recv"}
CleanupOne(L, rec, e) ==
  IF Orphan(e) THEN (IF rec # e.index THEN L \ {e} ELSE (L \ {e}) \cup {[e EXCEPT !.flag = FALSE]})
  ELSE IF Zombie(e) THEN L \ {e}
  ELSE IF e.kind = "final" /\ e.index # rec THEN L \ {e}
  ELSE L
NeedsCleanup(L, rec) == {e \in L : CleanupOne(L, rec, e) # L}

=============================================================================
