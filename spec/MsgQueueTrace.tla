--------------------------- MODULE MsgQueueTrace ---------------------------
(* Executions of the real server.MessageQueue recorded by mqsim (harness/server/mqsim_test.go): every      *)
(* call with its result; TLC recomputes each result with MsgQueue.tla. A differing result of Add / MustAdd *)
(* / AddDelayed / Get (what is handed over, in which order, when) is a finding; `frozen` says that the     *)
(* slice handed over by the previous Get was still intact when the next Get was made.                      *)
EXTENDS MsgQueue, Json, TLC
CONSTANT TraceFile
VARIABLES q, l, bad
Trace == ndJsonDeserialize(TraceFile)
vars == <<q, l, bad>>
Init == q = QInit(1) /\ l = 1 /\ bad = {}
Flag(ev, what) == bad \cup {<<ev.t, ev.i, ev.op, what>>}
Next ==
  /\ l <= Len(Trace)
  /\ l' = l + 1
  /\ LET ev == Trace[l] IN
     IF ev.op = "Init" THEN q' = QInit(ev.size) /\ bad' = bad
     ELSE IF \E x \in bad : x[1] = ev.t THEN UNCHANGED <<q, bad>>
     ELSE CASE ev.op = "Add" -> /\ q' = Add(q, ev.m)
                                /\ bad' = IF <<ev.ret, ev.ret2>> = AddRet(q) THEN bad ELSE Flag(ev, {"result"})
            [] ev.op = "MustAdd" -> /\ q' = MustAdd(q, ev.m)
                                    /\ bad' = IF ev.ret = MustAddRet(q) THEN bad ELSE Flag(ev, {"result"})
            [] ev.op = "AddDelayed" -> /\ q' = AddDelayed(q, ev.m, ev.delay)
                                       /\ bad' = IF ev.ret = AddDelayedRet(q) THEN bad ELSE Flag(ev, {"result"})
            [] ev.op = "Tick" -> q' = Tick(q) /\ bad' = bad
            [] ev.op = "Close" -> q' = Close(q) /\ bad' = bad
            [] ev.op = "Get" ->
                 LET exp == GetRet(q)
                     got == ev.got
                     what == (IF {got[k] : k \in 1..Len(got)} \ {exp[k] : k \in 1..Len(exp)} # {} THEN {"handed_over_not_expected"} ELSE {})
                             \cup (IF {exp[k] : k \in 1..Len(exp)} \ {got[k] : k \in 1..Len(got)} # {} THEN {"accepted_message_missing"} ELSE {})
                             \cup (IF got # exp /\ Len(got) = Len(exp) /\ {got[k] : k \in 1..Len(got)} = {exp[k] : k \in 1..Len(exp)} THEN {"order"} ELSE {})
                             \cup (IF Len(got) # Cardinality({got[k] : k \in 1..Len(got)}) THEN {"duplicate"} ELSE {})
                             \cup (IF ev.frozen THEN {} ELSE {"previous_batch_modified"})
                 IN /\ q' = Get(q)
                    /\ bad' = IF what = {} THEN bad ELSE Flag(ev, what)
Spec == Init /\ [][Next]_vars
Report == IF l = Len(Trace) + 1 THEN PrintT(<<"MQ-REPORT", Len(Trace), bad>>) ELSE TRUE
=============================================================================
