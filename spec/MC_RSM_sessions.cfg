SPECIFICATION Spec
CONSTANTS
  Clients = {1, 2, 3}
  MaxSeries = 2
  LRU = 2
  MaxLen = 6
  Ids = {1}
  Addrs = {"a1"}
  Ordered = FALSE
  DoSessions = TRUE
  DoMembership = FALSE
INVARIANT Inv
CHECK_DEADLOCK FALSE
