------------------------- MODULE SnapshotJobsTrace -------------------------
(* Executions of the real snapshot job protocol (node.go / snapshotstate.go / engine.go workerPool) recorded by *)
(* spsim (harness/root/spsim_test.go): every step of the apply worker, every end of a job, every reaction of   *)
(* the pool's main loop with the complete state afterwards. TLC recomputes each step with SnapshotJobs.tla     *)
(* (a Pool event names the stimuli the loop had before it; the loop picks their order, every order is          *)
(* accepted) and evaluates the predicates of SnapshotJobs.tla on the observed states.                           *)
(*   bad   - property findings: a predicate is false on an observed state, a request was not told, a panic      *)
(*   drift - the observed state is not the one the specification computes, no predicate failed                  *)
EXTENDS SnapshotJobs, Json, TLC
CONSTANT TraceFile
VARIABLES n, p, l, bad, drift
Trace == ndJsonDeserialize(TraceFile)
vars == <<n, p, l, bad, drift>>
Init == n = NInit(FALSE, FALSE) /\ p = PInit({1}) /\ l = 1 /\ bad = {} /\ drift = {}
Flag(ev, what) == bad \cup {<<ev.t, ev.i, ev.ev, what>>}
Drift(ev, what) == drift \cup {<<ev.t, ev.i, ev.ev, what>>}
SetOf(s) == {s[k] : k \in 1..Len(s)}
WName == <<"w1", "w2", "w3", "w4">>
WIdx(s) == CHOOSE i \in 1..4 : WName[i] = s

ObsN(ev) == [n EXCEPT !.flag = ev.flag, !.req = ev.req, !.done = ev.done, !.dinit = ev.dinit,
                      !.initialized = ev.initialized, !.bits = {}, !.told = "", !.panic = ""]
ObsP(ev) == [pend |-> ev.pend, busy |-> [w \in 1..Len(ev.busy) |-> ev.busy[w]], sv |-> ev.sv, rc |-> ev.rc,
             st |-> ev.st, panic |-> ""]
SameN(a, b) == a.flag = b.flag /\ a.req = b.req /\ a.done = b.done /\ a.dinit = b.dinit /\ a.initialized = b.initialized
Clean(x) == [x EXCEPT !.bits = {}, !.told = ""]

Arm(np, s) == IF s \in Kinds THEN LET t == TakeReq(np[1], np[2], s) IN <<t[1], Schedule(t[2])>>
              ELSE <<np[1], Schedule(Completed(np[2], WIdx(s)))>>
RECURSIVE Outcomes(_, _)
Outcomes(np, S) == IF S = {} THEN {np} ELSE UNION {Outcomes(Arm(np, s), S \ {s}) : s \in S}

Preds(nn, pp) == (IF Exclusion(pp) THEN {} ELSE {"jobs_overlap"})
           \cup (IF Books(pp) THEN {} ELSE {"pool_books_wrong"})
           \cup (IF NoIdleWait(pp) THEN {} ELSE {"job_waits_for_nothing"})
           \cup (IF FlagsJustified(nn, pp) THEN {} ELSE {"flag_without_job"})
           \cup (IF NothingWithoutFlag(nn, pp) THEN {} ELSE {"job_without_flag"})

Next ==
  /\ l <= Len(Trace)
  /\ l' = l + 1
  /\ LET ev == Trace[l] IN
     IF ev.ev = "Init" THEN /\ n' = NInit(ev.concurrent, ev.ondisk) /\ p' = PInit(1..ev.workers)
                            /\ UNCHANGED <<bad, drift>>
     ELSE IF \E x \in bad \cup drift : x[1] = ev.t THEN UNCHANGED <<n, p, bad, drift>>
     ELSE CASE ev.ev \in {"Apply", "ApplyD"} ->
                 LET a == ProcessStatusTransition(n)
                     b == IF a[2] \/ ev.task = "" \/ a[1].panic # "" THEN a[1]
                          ELSE [HandleSnapshotTask(a[1], ev.task, ev.rts) EXCEPT !.bits = @ \cup a[1].bits]
                     o == ObsN(ev)
                     told == IF b.told # "" /\ ev.told # b.told THEN {"request_not_told"} ELSE {}
                     pan == IF b.panic # "" THEN {"spec_expects_panic"} ELSE {}
                 IN /\ n' = o /\ p' = p
                    /\ bad' = IF told = {} THEN bad ELSE Flag(ev, told)
                    /\ drift' = IF told = {} /\ (pan # {} \/ ~SameN(Clean(b), o) \/ a[2] # ev.skip \/ b.bits # SetOf(ev.bits)
                                                 \/ (b.told = "" /\ ev.told # ""))
                                THEN Drift(ev, {"apply"} \cup pan) ELSE drift
            [] ev.ev = "JobDone" ->
                 LET b == JobDone(n, ev.kind, FALSE)
                     o == ObsN(ev)
                 IN /\ n' = o /\ p' = p /\ bad' = bad
                    /\ drift' = IF p.busy[ev.w + 1] = ev.kind /\ SameN(b, o) /\ b.panic = "" THEN drift ELSE Drift(ev, {"jobdone"})
            [] ev.ev = "Pool" ->
                 LET S == SetOf(ev.kinds) \cup {WName[ev.workers[i] + 1] : i \in 1..Len(ev.workers)}
                     o == <<ObsN(ev), ObsP(ev)>>
                     outs == Outcomes(<<Clean(n), p>>, S)
                     what == Preds(o[1], o[2])
                 IN /\ n' = o[1] /\ p' = o[2]
                    /\ bad' = IF what = {} THEN bad ELSE Flag(ev, what)
                    /\ drift' = IF what = {} /\ ~(\E x \in outs : SameN(x[1], o[1]) /\ x[2] = o[2]) THEN Drift(ev, {"pool"}) ELSE drift
            [] ev.ev = "End" ->
                 LET o == <<ObsN(ev), ObsP(ev)>>
                     left == (\E k \in Kinds : o[1].flag[k]) \/ Len(o[2].pend) > 0 \/ (\E w \in DOMAIN o[2].busy : o[2].busy[w] # NoJob)
                 IN /\ n' = o[1] /\ p' = o[2] /\ drift' = drift
                    /\ bad' = IF left THEN Flag(ev, {"job_forgotten"}) ELSE bad
            [] ev.ev = "Panic" -> /\ UNCHANGED <<n, p, drift>> /\ bad' = Flag(ev, {"panic"})
            [] ev.ev = "Stuck" -> /\ UNCHANGED <<n, p, drift>> /\ bad' = Flag(ev, {"pool_stuck"})
            [] OTHER -> UNCHANGED <<n, p, bad, drift>>
Spec == Init /\ [][Next]_vars
Report == IF l = Len(Trace) + 1 THEN PrintT(<<"SP-REPORT", Len(Trace), bad>>) /\ PrintT(<<"SP-DRIFT", drift>>) ELSE TRUE
=============================================================================
