SPECIFICATION Spec
CONSTANTS
  Replica = {1, 2}
  InitVoters = {1, 2}
  ET = 5
  HT = 1
  PreVote = FALSE
  CheckQuorum = FALSE
  G <- GAll
  TrackEvidence = FALSE
  MaxTerm = 2
  MaxLen = 3
  MaxMsgs = 2
  MaxDup = 0
  MaxCrash = 0
  MaxProp = 0
  MaxRead = 0
  MaxCC = 0
  MaxSnap = 0
  CCChoices = {}
  JoinKind <- NoJoin
  Eager = FALSE
CONSTRAINT Bounded
INVARIANT Safety
CHECK_DEADLOCK FALSE
