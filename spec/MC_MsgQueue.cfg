SPECIFICATION Spec
CONSTANTS
  Size = 2
  MaxMsg = 5
  MaxTick = 4
  Delays = {0, 1, 2}
INVARIANT Inv
PROPERTY NoEarlyDelivery
CHECK_DEADLOCK FALSE
