SPECIFICATION MSpec
CONSTANTS
  MaxIdx = 3
  MaxCrash = 2
  SyncFileBeforeRename = TRUE
  SyncDirBeforeRecord = FALSE
  RecordBeforeUnflag = TRUE
INVARIANTS CrashWorthy CleanAfterRestart
